#!/usr/bin/env python3
"""Validate MANIFEST.json and evidence files against the schemas (uses the tooling venv's jsonschema)."""
import glob, json, sys
import jsonschema
ok = True
m = json.load(open('/verif/MANIFEST.json'))
try:
    jsonschema.validate(m, json.load(open('/root/.vp/MANIFEST.schema.json')))
    print("MANIFEST ok")
except Exception as e:
    ok = False; print("MANIFEST INVALID", e)
es = json.load(open('/root/.vp/EVIDENCE.schema.json'))
for f in sorted(glob.glob('/verif/evidence/*.json')):
    try:
        jsonschema.validate(json.load(open(f)), es)
        print(f, "ok")
    except Exception as e:
        ok = False; print(f, "INVALID", str(e)[:300])
sys.exit(0 if ok else 1)

package session

// C08 - application traffic flows only inside a completed logon.
// Unconstrained state machine over the whole session state machine, both roles; oracle = trace
// automaton over the merged, ordered log of callbacks and per-connection frames.

import (
	"fmt"
	"strconv"
	"strings"
	"testing"
	"time"

	"github.com/quickfixgo/quickfix"
	"github.com/quickfixgo/quickfix/config"
	"pgregory.net/rapid"

	"verif/fixwire"
	"verif/peer"
	"verif/rig"
	"verif/stats"
	"verif/vk"
)

const c08Rule = "unconstrained rapid state machine, both roles: connects, every inbound type at any time (Logon at wrong times, application messages before logon, unparsable bytes), sends while disconnected / logging on / logged on / logging out, all four timer events, stop, disconnects, session-time checks with a virtual clock leaving and re-entering the schedule, an application whose callbacks (generated mood) refuse the Logon, other administrative messages, application messages or sends, inbound headers with PossDup and an earlier / later / absent OrigSendingTime, stale SendingTime or a foreign sender, message events handled while the writer is busy; non-trivial = history that reaches logged-on at least once and leaves it again; distinct = distinct history"

func c08() *stats.Collector {
	c := stats.Get("C08")
	c.SetRule(c08Rule)
	return c
}

type c08mon struct {
	checked    int // trace entries already examined
	conn       int
	firstOut   bool // the first frame of this connection has been seen
	onLogon    bool // handshake completed on this connection
	sentLogout bool // the engine has sent a Logout on this connection
	period     bool // inside [OnLogon, OnLogout]
	logouts    int  // OnLogout notifications since the last OnLogon
	closed     bool
	feat       map[string]bool
}

func (m *c08mon) after(s *sim, st rig.StepResult, ctx stepCtx) {
	c := s.c
	tr := s.r.Trace
	for ; m.checked < len(tr); m.checked++ {
		e := tr[m.checked]
		if e.Conn != m.conn {
			// a new connection: the previous logged-on period must have been closed
			if m.period {
				vk.Violation(s.t, c, "C08/logged-on-period-without-logout-notification", "connection %d ended while the application still believes it is logged on (no OnLogout)\n%s", m.conn, s.history())
			}
			m.conn, m.firstOut, m.onLogon, m.sentLogout, m.closed = e.Conn, false, false, false, false
		}
		switch e.Kind {
		case "closed":
			m.closed = true
		case "out":
			if m.closed {
				vk.Violation(s.t, c, "C08/write-after-disconnect", "frame %s written after the connection was closed\n%s", e, s.history())
			}
			if !m.firstOut {
				m.firstOut = true
				if e.MsgType != "A" && e.MsgType != "5" {
					vk.Violation(s.t, c, "C08/first-message-not-logon-or-logout/"+e.MsgType, "the first frame on connection %d is %s\n%s", e.Conn, e, s.history())
				}
			}
			if !fixwire.IsAdminMsgType(e.MsgType) && !e.PossDup {
				if !m.onLogon {
					vk.Violation(s.t, c, "C08/application-message-before-logon-completed", "first-time application message %s before the handshake completed\n%s", e, s.history())
				}
				if m.sentLogout {
					vk.Violation(s.t, c, "C08/application-message-after-logout", "first-time application message %s after the engine's Logout\n%s", e, s.history())
				}
			}
			if e.MsgType == "5" {
				m.sentLogout = true
			}
		case "OnLogon":
			m.onLogon, m.period, m.logouts = true, true, 0
			m.feat["logged-on"] = true
		case "OnLogout":
			if m.period {
				m.feat["left-logged-on:"+ctx.kind+ctx.msgType] = true
			}
			m.logouts++
			if m.onLogon && m.logouts > 1 {
				vk.Violation(s.t, c, "C08/logout-notified-twice", "OnLogout %d times for one logged-on period\n%s", m.logouts, s.history())
			}
			m.period = false
		case "FromApp":
			if !m.period {
				vk.Violation(s.t, c, "C08/delivery-outside-logged-on-period", "FromApp %s outside [OnLogon, OnLogout]\n%s", e, s.history())
			}
		}
	}
	if !s.r.V.IsConnected() {
		if s.r.ChannelOpen() {
			vk.Violation(s.t, c, "C08/channel-not-closed-on-disconnect", "the session is disconnected but the connection's channel is still open\n%s", s.history())
		}
		if m.period {
			vk.Violation(s.t, c, "C08/logged-on-period-without-logout-notification", "the connection ended (state %s) without OnLogout\n%s", s.r.V.StateName(), s.history())
		}
	}
}

func c08Property(t *rapid.T) {
	c := c08()
	cfg := simCfg{begin: rapid.SampledFrom(allBegins).Draw(t, "begin"), initiator: rapid.Bool().Draw(t, "initiator"), hb: 30, store: "memory", settings: map[string]string{}}
	useSchedule := rapid.IntRange(0, 2).Draw(t, "schedule") == 0
	now := time.Now().UTC()
	if useSchedule {
		cfg.settings[config.StartTime] = now.Add(-3 * time.Hour).Format("15:04:05")
		cfg.settings[config.EndTime] = now.Add(3 * time.Hour).Format("15:04:05")
	}
	if rapid.IntRange(0, 3).Draw(t, "reset-on-logout") == 0 {
		cfg.settings[config.ResetOnLogout] = "Y"
	}
	drawExtras(t, c, &cfg)
	// the counterparties may have agreed on NextExpectedMsgSeqNum (789) in the Logon: the statement
	// holds for that configuration as for any other
	use789 := rapid.IntRange(0, 3).Draw(t, "next-expected-in-logon") == 0 && cfg.begin >= "FIX.4.4"
	if use789 {
		cfg.settings[config.EnableNextExpectedMsgSeqNum] = "Y"
		c.Class("config:EnableNextExpectedMsgSeqNum")
	}
	s := newSim(t, c, cfg)
	if rapid.IntRange(0, 2).Draw(t, "writer-sometimes-busy") == 0 {
		s.busyWriter = func() bool { return rapid.IntRange(0, 2).Draw(t, "writer-busy") == 0 }
	}
	defer s.close()
	logonBody := func(t *rapid.T, reset bool) []fixwire.Field {
		b := s.p.LogonBody(30, reset)
		if use789 && rapid.IntRange(0, 5).Draw(t, "789-present") != 0 {
			// what the counterparty says it expects next from the engine: right, behind (the engine
			// fills in or replays), or ahead of anything the engine has sent (the Logon is refused)
			n := s.r.S() + rapid.SampledFrom([]int{0, 0, 0, -1, -3, 1, 4}).Draw(t, "789-delta")
			if n < 1 {
				n = 1
			}
			b = append(b, fixwire.F(789, strconv.Itoa(n)))
		}
		return b
	}
	mon := &c08mon{feat: map[string]bool{}}
	s.after = append(s.after, mon.after)
	stopped := func() bool { return s.r.V.Stopped() }
	inject := func(t *rapid.T) {
		T := s.r.T()
		typ := rapid.SampledFrom([]string{"D", "D", "0", "1", "2", "4", "5", "A", "A", "garbage"}).Draw(t, "type")
		seq := T + rapid.SampledFrom([]int{0, 0, 0, 1, 3, -1}).Draw(t, "delta")
		if seq < 1 {
			seq = 1
		}
		// header options the session's checks branch on: possible duplicates with an original sending
		// time before / after the sending time or without one, a stale sending time, a foreign sender
		var o peer.Opt
		switch rapid.SampledFrom([]string{"", "", "", "", "possdup", "possdup-orig-earlier", "possdup-orig-later", "stale-sending-time", "foreign-sender"}).Draw(t, "header") {
		case "possdup":
			o.PossDup = "Y"
		case "possdup-orig-earlier":
			o.PossDup, o.OrigSending = "Y", s.p.Stamp(time.Now().Add(-30*time.Second))
		case "possdup-orig-later":
			o.PossDup, o.OrigSending = "Y", s.p.Stamp(time.Now().Add(40*time.Second))
			mon.feat["possdup-with-a-later-original-sending-time"] = true
		case "stale-sending-time":
			o.SendingTime = s.p.Stamp(time.Now().Add(-10 * time.Minute))
		case "foreign-sender":
			x := "SOMEONE"
			o.Sender = &x
		}
		if o.PossDup == "Y" && T > 1 && rapid.Bool().Draw(t, "possdup-below-expected") {
			// a possible duplicate is, more often than not, a message from the past (of any type: a
			// replayed Logout, Logon or TestRequest as well as an order)
			seq = T - rapid.IntRange(1, min(2, T-1)).Draw(t, "below")
		}
		var f []byte
		switch typ {
		case "garbage":
			// frames the stream framer could hand over: they start with 8= and end with a CheckSum field
			f = []byte(rapid.SampledFrom([]string{"8=FIX.4.2\x019=5\x0135=D\x0110=000\x01", "8=\x019=\x0135=\x0110=\x01", "8=FIX.4.2\x019=12\x0135=D\x0134=\x0110=000\x01", "8=FIX.4.2\x019=0\x0110=000\x01",
				"8=FIX.4.2\x019=3\x01x\x0110=1\x01"}).Draw(t, "bytes"))
		case "A":
			f = s.p.Frame("A", seq, logonBody(t, rapid.IntRange(0, 4).Draw(t, "flag") == 0 && cfg.begin != "FIX.4.0"), o)
		case "D":
			f = s.p.Frame("D", seq, []fixwire.Field{fixwire.F(11, "X"+strconv.Itoa(seq)), fixwire.F(55, "IBM"), fixwire.F(54, "1")}, o)
		case "1":
			f = s.p.Frame("1", seq, []fixwire.Field{fixwire.F(112, "t")}, o)
		case "2":
			f = s.p.Frame("2", seq, []fixwire.Field{fixwire.F(7, "1"), fixwire.F(16, "0")}, o)
		case "4":
			f = s.p.Frame("4", seq, []fixwire.Field{fixwire.F(36, strconv.Itoa(T+2))}, o)
		default:
			f = s.p.Frame(typ, seq, nil, o)
		}
		ctx := s.ctxFor("in", f, false)
		s.logf("inj %s (T=%d %s)", vk.Show(f), ctx.tBefore, ctx.stateBefore)
		st := s.r.In(f)
		s.observe(st, ctx)
		s.flush()
		// an application that keeps sending: right after a step in which the engine transmitted its
		// Logout is when a message would slip out behind it
		for _, e := range s.r.Outs(st) {
			if e.MsgType == "5" && !stopped() && rapid.Bool().Draw(t, "application-sends-right-behind-the-logout") {
				mon.feat["application-send-right-behind-the-engine-logout"] = true
				s.engineSend()
				s.flush()
				break
			}
		}
	}
	// scripted application: what the callbacks answer is switched by a generated action
	var refuseLogon, refuseLogonOrdinary, refuseAdmin, refuseApp, refuseSend bool
	s.r.FromAdminErr = func(m *quickfix.Message) quickfix.MessageRejectError {
		mt, _ := m.Header.GetString(35)
		switch {
		case mt == "A" && refuseLogon:
			mon.feat["application-refused-logon"] = true
			if refuseLogonOrdinary {
				// an application that answers with an ordinary reject instead of RejectLogon
				mon.feat["application-refused-logon-with-an-ordinary-reject"] = true
				return quickfix.ValueIsIncorrect(quickfix.Tag(554))
			}
			return quickfix.RejectLogon{Text: "not today"}
		case mt != "A" && refuseAdmin:
			return quickfix.ValueIsIncorrect(quickfix.Tag(35))
		}
		return nil
	}
	s.r.FromAppErr = func(m *quickfix.Message) quickfix.MessageRejectError {
		if refuseApp {
			return quickfix.ValueIsIncorrect(quickfix.Tag(55))
		}
		return nil
	}
	s.r.RefuseSend = func(string, *quickfix.Message) bool { return refuseSend }
	t.Repeat(map[string]func(*rapid.T){
		"idle": func(t *rapid.T) {},
		"applicationMood": func(t *rapid.T) {
			refuseLogon = rapid.IntRange(0, 2).Draw(t, "refuse-logon") == 0
			refuseLogonOrdinary = rapid.Bool().Draw(t, "refuse-logon-with-an-ordinary-reject")
			refuseAdmin = rapid.IntRange(0, 3).Draw(t, "refuse-admin") == 0
			refuseApp = rapid.IntRange(0, 3).Draw(t, "refuse-app") == 0
			refuseSend = rapid.IntRange(0, 3).Draw(t, "refuse-send") == 0
			s.logf("application: refuses logon %v, admin %v, app %v, sends %v", refuseLogon, refuseAdmin, refuseApp, refuseSend)
		},
		"connect": func(t *rapid.T) {
			if stopped() {
				return
			}
			s.connect()
		},
		"peerLogon": func(t *rapid.T) {
			if stopped() || !s.r.V.IsConnected() {
				return
			}
			if s.p.NextOut < s.r.T() {
				s.p.NextOut = s.r.T()
			}
			_, f := s.p.Next("A", logonBody(t, false))
			s.deliver(f, true)
		},
		"inject": func(t *rapid.T) {
			if stopped() {
				return
			}
			inject(t)
		},
		"peerLive": func(t *rapid.T) {
			if stopped() || !s.r.V.IsConnected() {
				return
			}
			if s.p.NextOut < s.r.T() {
				s.p.NextOut = s.r.T()
			}
			s.peerLive(rapid.SampledFrom([]string{"D", "0", "5"}).Draw(t, "type"), false)
			s.pumpOne()
		},
		"engineSend": func(t *rapid.T) {
			if stopped() {
				return
			}
			s.engineSend()
			if rapid.Bool().Draw(t, "flush-now") {
				s.flush()
			}
		},
		"flush": func(t *rapid.T) {
			if stopped() {
				return
			}
			s.flush()
		},
		"timer": func(t *rapid.T) {
			if stopped() {
				return
			}
			s.timer(rapid.IntRange(0, 3).Draw(t, "event"))
		},
		"disconnect": func(t *rapid.T) {
			if stopped() {
				return
			}
			s.disconnect()
		},
		"stop": func(t *rapid.T) {
			if stopped() || rapid.IntRange(0, 2).Draw(t, "really") != 0 {
				return
			}
			ctx := s.ctxFor("stop", nil, false)
			s.logf("stop (state %s)", ctx.stateBefore)
			st := s.r.Stop()
			s.observe(st, ctx)
		},
		"leaveSchedule": func(t *rapid.T) {
			if stopped() || !useSchedule {
				return
			}
			ctx := s.ctxFor("sessiontime", nil, false)
			s.logf("session time check at now+12h (state %s)", ctx.stateBefore)
			st := s.r.CheckSessionTime(time.Now().Add(12 * time.Hour))
			s.observe(st, ctx)
			mon.feat["left-schedule"] = true
		},
		"enterSchedule": func(t *rapid.T) {
			if stopped() || !useSchedule {
				return
			}
			ctx := s.ctxFor("sessiontime", nil, false)
			st := s.r.CheckSessionTime(time.Now())
			s.observe(st, ctx)
		},
	})
	// the connection finally ends
	if !stopped() && s.r.V.IsConnected() {
		s.disconnect()
	}
	c.Eval()
	c.Class("role:" + map[bool]string{true: "initiator", false: "acceptor"}[cfg.initiator])
	left := false
	for k := range mon.feat {
		c.Class("history-with:" + k)
		if strings.HasPrefix(k, "left-logged-on") {
			left = true
		}
	}
	if mon.feat["logged-on"] && left {
		c.NonTrivial(stats.Hash(strings.Join(s.log, "\n")))
		c.SampleClass(fmt.Sprintf("schedule=%v", useSchedule), map[string]interface{}{"config": cfg.String(), "history_tail": tail(s.log, 16)})
	}
}

func TestC08_Rapid(t *testing.T) {
	rapid.Check(t, func(t *rapid.T) {
		vk.Guard(func() { c08Property(t) })
	})
}

package session

// C03 - a ResendRequest is answered by an exact, contiguous, well-formed replay.
// The harness records the exact first-time bytes of every outbound number, then sends a
// ResendRequest and reads the reply with the independent scanner.

import (
	"bytes"
	"fmt"
	"sort"
	"strconv"
	"strings"
	"sync"
	"testing"

	"github.com/quickfixgo/quickfix"
	"github.com/quickfixgo/quickfix/config"
	"pgregory.net/rapid"

	"verif/fixwire"
	"verif/peer"
	"verif/rig"
	"verif/specxml"
	"verif/stats"
	"verif/storekit"
	"verif/vk"
)

const c03Rule = "a history of 1-40 messages sent through the real send path (application messages with generated bodies incl. repeating groups and bodies ending in a group, dictionary-conforming bodies when a dictionary is configured; heartbeats, TestRequest answers and Rejects in between), then a ResendRequest over a generated range (inside, whole, single, empty b>e, beyond the end, e=0, e=999999, e>=last) with a generated set of numbers the application refuses to resend, persistence on/off, with/without dictionaries, every BeginString, application messages signed in the trailer; non-trivial = range covering >=1 application and >=1 administrative message; distinct = distinct (history, range, refusals)"

func c03() *stats.Collector {
	c := stats.Get("C03")
	c.SetRule(c03Rule)
	return c
}

var (
	c03SpecOnce sync.Once
	c03Specs    map[string]*specxml.Spec
)

func c03Spec(t vk.TB, name string) *specxml.Spec {
	c03SpecOnce.Do(func() {
		c03Specs = map[string]*specxml.Spec{}
		for _, n := range []string{"FIX40", "FIX41", "FIX42", "FIX43", "FIX44", "FIX50SP2"} {
			sp, err := specxml.ParseFile(storekit.RepoDir() + "/spec/" + n + ".xml")
			if err != nil {
				panic(err)
			}
			c03Specs[n] = sp
		}
	})
	return c03Specs[name]
}

type rapidChooser struct{ t *rapid.T }

func (r rapidChooser) Intn(n int) int {
	if n <= 1 {
		return 0
	}
	return rapid.IntRange(0, n-1).Draw(r.t, "c")
}

func qfTemplate(members []*specxml.Member) quickfix.GroupTemplate {
	var gt quickfix.GroupTemplate
	for _, m := range members {
		if m.IsGroup {
			gt = append(gt, quickfix.NewRepeatingGroup(quickfix.Tag(m.Tag), qfTemplate(m.Members)))
		} else {
			gt = append(gt, quickfix.GroupElement(quickfix.Tag(m.Tag)))
		}
	}
	return gt
}

func qfGroupFromItem(it *specxml.Item) *quickfix.RepeatingGroup {
	rg := quickfix.NewRepeatingGroup(quickfix.Tag(it.Tag), qfTemplate(it.Def.Members))
	for _, e := range it.Entries {
		qe := rg.Add()
		for _, x := range e {
			if x.IsGroup {
				qe.SetGroup(qfGroupFromItem(x))
			} else {
				qe.SetString(quickfix.Tag(x.Tag), x.Value)
			}
		}
	}
	return rg
}

var dictForBegin = map[string]string{"FIX.4.0": "FIX40", "FIX.4.1": "FIX41", "FIX.4.2": "FIX42", "FIX.4.3": "FIX43", "FIX.4.4": "FIX44", "FIXT.1.1": "FIX50SP2"}

// genAppMessage builds an application message through the quickfix API.
func genAppMessage(t *rapid.T, s *sim, useDict bool, id string) (*quickfix.Message, string) {
	m := quickfix.NewMessage()
	shape := "plain"
	if useDict {
		sp := c03Spec(t, dictForBegin[s.cfg.begin])
		var apps []*specxml.MsgDecl
		for _, md := range sp.Messages {
			if md.MsgCat != "admin" && md.MsgType != "n" {
				apps = append(apps, md)
			}
		}
		md := apps[rapid.IntRange(0, len(apps)-1).Draw(t, "msgdef")]
		members, err := sp.Expand(md.Members, true)
		if err != nil {
			t.Fatalf("harness: %v", err)
		}
		items := sp.GenMembers(rapidChooser{t}, members, specxml.GenOpts{OptionalOneIn: rapid.SampledFrom([]int{3, 6}).Draw(t, "opt"), MaxEntries: 3, MaxDepth: 2, EmptyOneIn: rapid.SampledFrom([]int{0, 0, 3}).Draw(t, "empty-groups")}, 0, false)
		m.Header.SetString(35, md.MsgType)
		maxTag, maxIsGroup := 0, false
		for _, it := range items {
			if it.IsGroup {
				m.Body.SetGroup(qfGroupFromItem(it))
				shape = "with-group"
			} else {
				m.Body.SetString(quickfix.Tag(it.Tag), it.Value)
			}
			if it.Tag > maxTag {
				maxTag, maxIsGroup = it.Tag, it.IsGroup
			}
		}
		if maxIsGroup {
			shape = "ends-with-group"
		}
		if rapid.IntRange(0, 2).Draw(t, "without-marker") == 0 {
			// exactly the dictionary's fields: the body may then start with a group (News: 33 first)
			if len(items) > 0 && items[0].IsGroup {
				minTag := items[0].Tag
				for _, it := range items {
					if it.Tag < minTag {
						minTag = 0
					}
				}
				if minTag != 0 {
					shape = "starts-with-group"
				}
			}
			return m, shape
		}
		m.Body.SetString(11, id) // ClOrdID-like marker (defined in almost every message; harmless otherwise)
		if 11 > maxTag {
			shape = "plain"
		}
		return m, shape
	}
	m.Header.SetString(35, rapid.SampledFrom([]string{"D", "8", "AE", "UX"}).Draw(t, "mt"))
	if rapid.IntRange(0, 4).Draw(t, "no-body-fields") == 0 {
		// an application message that consists of its header alone (a user-defined notification
		// type): legal, and the replay must not give it a body
		return m, "no-body-fields"
	}
	m.Body.SetString(11, id)
	n := rapid.IntRange(0, 6).Draw(t, "nfields")
	for i := 0; i < n; i++ {
		tag := rapid.IntRange(100, 4000).Filter(fixwire.IsBodyTag).Draw(t, "tag")
		m.Body.SetString(quickfix.Tag(tag), rapid.StringMatching(`[A-Za-z0-9=. ]{0,10}`).Draw(t, "val"))
	}
	if rapid.Bool().Draw(t, "group") {
		base := rapid.SampledFrom([]int{12, 4500, 9000}).Draw(t, "gbase")
		tm := &mTmplS{}
		next := base + 1
		genTmplS(t, tm, 1, &next)
		g := quickfix.NewRepeatingGroup(quickfix.Tag(base), tm.qf())
		ne := rapid.IntRange(0, 3).Draw(t, "entries")
		for e := 0; e < ne; e++ {
			fillS(t, g.Add(), tm)
		}
		m.Body.SetGroup(g)
		shape = "with-group"
		if base == 9000 {
			shape = "ends-with-group"
		}
	}
	return m, shape
}

// small free-template helper (session package has no access to the codec test helpers)
type mTmplS struct {
	tags   []int
	nested map[int]*mTmplS
}

func genTmplS(t *rapid.T, tm *mTmplS, depth int, next *int) {
	n := rapid.IntRange(1, 4).Draw(t, "members")
	tm.nested = map[int]*mTmplS{}
	for i := 0; i < n; i++ {
		for !fixwire.IsBodyTag(*next) || *next == 11 {
			*next++
		}
		tag := *next
		*next++
		tm.tags = append(tm.tags, tag)
		if i > 0 && depth < 2 && rapid.IntRange(0, 3).Draw(t, "nest") == 0 {
			sub := &mTmplS{}
			genTmplS(t, sub, depth+1, next)
			tm.nested[tag] = sub
		}
	}
}

func (tm *mTmplS) qf() quickfix.GroupTemplate {
	var gt quickfix.GroupTemplate
	for _, tag := range tm.tags {
		if sub, ok := tm.nested[tag]; ok {
			gt = append(gt, quickfix.NewRepeatingGroup(quickfix.Tag(tag), sub.qf()))
		} else {
			gt = append(gt, quickfix.GroupElement(quickfix.Tag(tag)))
		}
	}
	return gt
}

func fillS(t *rapid.T, g *quickfix.Group, tm *mTmplS) {
	for i, tag := range tm.tags {
		if i > 0 && rapid.IntRange(0, 2).Draw(t, "absent") == 0 {
			continue
		}
		if sub, ok := tm.nested[tag]; ok {
			rg := quickfix.NewRepeatingGroup(quickfix.Tag(tag), sub.qf())
			ne := rapid.IntRange(1, 2).Draw(t, "nentries")
			for e := 0; e < ne; e++ {
				fillS(t, rg.Add(), sub)
			}
			g.SetGroup(rg)
		} else {
			g.SetString(quickfix.Tag(tag), rapid.StringMatching(`[a-z0-9]{1,5}`).Draw(t, "gv"))
		}
	}
}

type sentRec struct {
	seq   int
	raw   []byte
	fs    []fixwire.Field
	isApp bool
	shape string
}

func bodyFields(fs []fixwire.Field) []fixwire.Field {
	var out []fixwire.Field
	for _, f := range fs {
		if fixwire.IsBodyTag(f.Tag) {
			out = append(out, f)
		}
	}
	return out
}

func sameFields(a, b []fixwire.Field) bool {
	if len(a) != len(b) {
		return false
	}
	for i := range a {
		if a[i].Tag != b[i].Tag || !bytes.Equal(a[i].Value, b[i].Value) {
			return false
		}
	}
	return true
}

func c03Property(t *rapid.T) {
	c := c03()
	cfg := simCfg{begin: rapid.SampledFrom(allBegins).Draw(t, "begin"), initiator: rapid.Bool().Draw(t, "initiator"), hb: 30,
		store: rapid.SampledFrom([]string{"memory", "memory", "file", "sql"}).Draw(t, "store"), settings: map[string]string{}}
	persist := rapid.IntRange(0, 4).Draw(t, "persist") != 0
	useDict := rapid.Bool().Draw(t, "dictionary")
	if !persist {
		cfg.settings[config.PersistMessages] = "N"
	}
	if useDict {
		spec := storekit.RepoDir() + "/spec/"
		if cfg.begin == "FIXT.1.1" {
			cfg.settings[config.TransportDataDictionary] = spec + "FIXT11.xml"
			cfg.settings[config.AppDataDictionary] = spec + "FIX50SP2.xml"
		} else {
			cfg.settings[config.DataDictionary] = spec + dictForBegin[cfg.begin] + ".xml"
		}
	}
	drawExtras(t, c, &cfg)
	s := newSim(t, c, cfg)
	defer s.close()
	if !s.logon(0) {
		t.Fatalf("harness: logon failed\n%s", s.history())
	}
	sent := map[int]*sentRec{}
	record := func(st rig.StepResult, shape string) {
		for _, e := range s.r.Outs(st) {
			// (no ResendRequest has been received yet: whatever leaves is a first transmission, also
			// when the application itself flagged it as a possible duplicate)
			sent[e.Seq] = &sentRec{seq: e.Seq, raw: e.Raw, fs: e.Fields, isApp: !fixwire.IsAdminMsgType(e.MsgType), shape: shape}
		}
	}
	// the Logon reply is number 1 (or the initiator's Logon)
	for _, e := range s.r.Trace {
		if e.Kind == "out" && !e.PossDup {
			sent[e.Seq] = &sentRec{seq: e.Seq, raw: e.Raw, fs: e.Fields, isApp: !fixwire.IsAdminMsgType(e.MsgType)}
		}
	}
	shapes := map[string]bool{}
	nMsgs := rapid.IntRange(1, 40).Draw(t, "history")
	for i := 0; i < nMsgs && s.r.V.IsLoggedOn(); i++ {
		switch rapid.SampledFrom([]string{"app", "app", "app", "heartbeat", "testreq", "reject", "refresh", "skip"}).Draw(t, "kind") {
		case "skip":
			// the operator moves the outbound counter forward through the API: numbers that were never
			// used stay without a stored message (a hole in the history, to be gap-filled like
			// administrative messages); a Heartbeat follows so that the last number is a used one
			k := rapid.IntRange(1, 6).Draw(t, "skip-by")
			if err := s.r.Store().SetNextSenderMsgSeqNum(s.r.S() + k); err != nil {
				t.Fatalf("harness: SetNextSenderMsgSeqNum: %v", err)
			}
			s.logf("API: outbound counter moved forward by %d", k)
			record(s.r.Timeout(1), "")
			shapes["hole-in-the-history"] = true
		case "refresh":
			// what RefreshOnLogon / a restart does to a persistent store: re-read it from its backing files
			if err := s.r.Store().Refresh(); err != nil {
				t.Fatalf("harness: store refresh failed: %v", err)
			}
			shapes["store-refreshed-mid-history"] = true
		case "app":
			m, shape := genAppMessage(t, s, useDict, "C"+strconv.Itoa(i))
			if rapid.IntRange(0, 5).Draw(t, "application-flags-possdup") == 0 {
				// a hub passing on what it may have passed on before: the application sets
				// PossDupFlag and the upstream OrigSendingTime itself. The replay's OrigSendingTime
				// is still the SendingTime of this session's original transmission
				m.Header.SetBool(43, true)
				m.Header.SetString(122, "20200102-03:04:05.678")
				shapes["sent-with-possdup-set-by-the-application"] = true
			}
			if rapid.IntRange(0, 3).Draw(t, "signed") == 0 {
				// a signed message: SignatureLength / Signature in the trailer, right behind the body
				sig := rapid.StringMatching(`[A-Za-z0-9]{1,8}`).Draw(t, "signature")
				m.Trailer.SetString(93, strconv.Itoa(len(sig)))
				m.Trailer.SetString(89, sig)
				shapes["signed"] = true
				if shape == "ends-with-group" {
					shapes["signed-and-ends-with-group"] = true
				}
			}
			st, err := s.r.Send(m)
			if err != nil {
				t.Fatalf("harness: send failed: %v", err)
			}
			record(st, shape)
			st2, _ := s.r.Flush()
			record(st2, shape)
			shapes[shape] = true
		case "heartbeat":
			record(s.r.Timeout(1), "")
		case "testreq":
			_, f := s.p.Next("1", []fixwire.Field{fixwire.F(112, "q"+strconv.Itoa(i))})
			record(s.r.In(f), "")
		case "reject":
			// an in-sequence application message with an empty field is answered by a session Reject
			_, f := s.p.Next("D", []fixwire.Field{fixwire.F(11, ""), fixwire.F(55, "X")})
			record(s.r.In(f), "")
		}
	}
	if !s.r.V.IsLoggedOn() {
		t.Fatalf("harness: session left the logged-on state while building the history\n%s", s.history())
	}
	last := s.r.S() - 1
	// refusals
	refuse := map[int]bool{}
	for n, r := range sent {
		if r.isApp && rapid.IntRange(0, 4).Draw(t, fmt.Sprintf("refuse-%d", n)) == 0 {
			refuse[n] = true
		}
	}
	s.r.RefuseResend = func(seq int, _ string) bool { return refuse[seq] }
	// the requested range
	var b, e int
	switch rapid.SampledFrom([]string{"inside", "inside", "whole", "single", "inverted", "beyond", "to-infinity-0", "to-infinity-999999", "end-past-last", "end-huge"}).Draw(t, "range") {
	case "inside":
		b = rapid.IntRange(1, last).Draw(t, "b")
		e = rapid.IntRange(b, last).Draw(t, "e")
	case "whole":
		b, e = 1, last
	case "single":
		b = rapid.IntRange(1, last).Draw(t, "b")
		e = b
	case "inverted":
		b = rapid.IntRange(2, last+1).Draw(t, "b")
		e = rapid.IntRange(1, b-1).Draw(t, "e")
	case "beyond":
		b = last + rapid.IntRange(1, 5).Draw(t, "past")
		e = b + rapid.IntRange(0, 3).Draw(t, "len")
	case "to-infinity-0":
		b, e = rapid.IntRange(1, last).Draw(t, "b"), 0
	case "to-infinity-999999":
		b, e = rapid.IntRange(1, last).Draw(t, "b"), 999999
	case "end-past-last":
		b, e = rapid.IntRange(1, last).Draw(t, "b"), last+rapid.IntRange(1, 50).Draw(t, "past")
	case "end-huge":
		b, e = rapid.IntRange(1, last).Draw(t, "b"), rapid.SampledFrom([]int{999998, 1000000, 2147483647, 2147483648, 4294967296, 9223372036854775806, 9223372036854775807}).Draw(t, "huge")
	}
	rrSeq := s.r.T()
	if rapid.IntRange(0, 5).Draw(t, "rr-too-high") == 0 {
		rrSeq += rapid.IntRange(1, 3).Draw(t, "rr-gap")
	}
	req := s.p.Frame("2", rrSeq, []fixwire.Field{fixwire.F(7, strconv.Itoa(b)), fixwire.F(16, strconv.Itoa(e))}, peer.Opt{})
	s.logf("ResendRequest(%d,%d) last=%d persist=%v dict=%v refuse=%v", b, e, last, persist, useDict, keysOf(refuse))
	snapshot := func() [][]byte {
		msgs, _ := s.r.Store().GetMessages(1, last)
		out := make([][]byte, len(msgs))
		for i, m := range msgs {
			out[i] = append([]byte(nil), m...)
		}
		return out
	}
	storedBefore := snapshot()
	st := s.r.In(req)
	if st.Panic != nil {
		vk.Violation(t, c, "C03/engine-panic", "%v\n%s", st.Panic, s.history())
	}
	reply := s.r.Outs(st)
	c.Eval()
	// answering a request reads the history, it does not rewrite it (a second request for the
	// same numbers must find the same messages)
	if storedAfter := snapshot(); len(storedAfter) != len(storedBefore) {
		vk.Violation(t, c, "C03/history-changed-by-replay", "%d stored messages before the ResendRequest, %d after it\n%s", len(storedBefore), len(storedAfter), s.history())
	} else {
		for i := range storedBefore {
			if !bytes.Equal(storedBefore[i], storedAfter[i]) {
				vk.Violation(t, c, "C03/history-changed-by-replay", "stored message changed while the ResendRequest was answered:\n before %s\n after  %s\n%s", vk.Show(storedBefore[i]), vk.Show(storedAfter[i]), s.history())
			}
		}
	}
	// ---- the oracle
	inf := (e == 0 && cfg.begin >= "FIX.4.2") || (e == 999999 && cfg.begin <= "FIX.4.2")
	E := e
	if inf || e > last {
		E = last
	}
	mode := fmt.Sprintf("persist=%v/dict=%v", persist, useDict)
	desc := func() string {
		var l []string
		for _, r := range reply {
			l = append(l, vk.Show(r.Raw))
		}
		return fmt.Sprintf("request [%d,%d] last used %d -> expected coverage [%d,%d]; reply:\n   %s\n%s", b, e, last, b, E, strings.Join(l, "\n   "), s.history())
	}
	cover := b
	apps, admins := 0, 0
	for n := b; n <= E; n++ {
		if r := sent[n]; r != nil && r.isApp {
			apps++
		} else {
			admins++
		}
	}
	for i, r := range reply {
		if r.MsgType == "2" && !r.PossDup {
			// the engine may itself ask for a resend when the request came in too high: not part of the reply
			continue
		}
		if !r.PossDup {
			vk.Violation(t, c, "C03/reply-without-possdup/"+mode, "frame %d of the reply has no PossDupFlag=Y\n%s", i, desc())
		}
		fr, err := fixwire.Analyze(r.Raw, nil)
		if err != nil {
			vk.Violation(t, c, "C03/reply-malformed/"+mode, "frame %d: %v\n%s", i, err, desc())
		}
		shape := ""
		if o := sent[r.Seq]; o != nil {
			shape = o.shape
		}
		if err := fr.WellFormed(); err != nil {
			vk.Violation(t, c, "C03/reply-arithmetic/"+mode+"/"+shape, "frame %d: %v\n%s", i, err, desc())
		}
		if fixwire.Count(r.Fields, 10) != 1 || fixwire.Count(r.Fields, 9) != 1 || fixwire.Count(r.Fields, 35) != 1 || fixwire.Count(r.Fields, 34) != 1 {
			vk.Violation(t, c, "C03/reply-duplicate-framing-field/"+mode+"/"+shape, "frame %d repeats a framing field\n%s", i, desc())
		}
		if pm := quickfix.NewMessage(); quickfix.ParseMessage(pm, bytes.NewBuffer(append([]byte(nil), r.Raw...))) != nil {
			vk.Violation(t, c, "C03/reply-does-not-parse/"+mode+"/"+shape, "frame %d does not re-parse\n%s", i, desc())
		}
		if b > E {
			vk.Violation(t, c, "C03/reply-to-empty-range/"+mode, "range [%d,%d] is empty but a reply was sent\n%s", b, E, desc())
		}
		if r.Seq != cover {
			vk.Violation(t, c, "C03/coverage-not-contiguous/"+mode, "frame %d has MsgSeqNum %d, coverage so far ends at %d\n%s", i, r.Seq, cover, desc())
		}
		if r.MsgType == "4" {
			ns, ok := fixwire.GetInt(r.Fields, 36)
			if !ok || fixwire.GetS(r.Fields, 123) != "Y" {
				vk.Violation(t, c, "C03/gapfill-malformed/"+mode, "frame %d is a SequenceReset without GapFillFlag=Y / NewSeqNo\n%s", i, desc())
			}
			if ns <= r.Seq || ns > E+1 {
				vk.Violation(t, c, "C03/gapfill-range/"+mode, "gap fill %d -> %d outside (%d, %d]\n%s", r.Seq, ns, r.Seq, E+1, desc())
			}
			for n := r.Seq; n < ns; n++ {
				if o := sent[n]; o != nil && o.isApp && !refuse[n] && persist {
					vk.Violation(t, c, "C03/application-message-skipped/"+mode, "gap fill %d -> %d skips application message %d which was not refused\n%s", r.Seq, ns, n, desc())
				}
			}
			if ns <= E && persist {
				if o := sent[ns]; o == nil || !o.isApp || refuse[ns] {
					vk.Violation(t, c, "C03/gapfill-not-maximal/"+mode, "gap fill %d -> %d: %d is not a replayed application message (NewSeqNo must be the next number replayed)\n%s", r.Seq, ns, ns, desc())
				}
			}
			cover = ns
			continue
		}
		// a replayed message
		o := sent[r.Seq]
		if o == nil || !o.isApp {
			vk.Violation(t, c, "C03/replayed-non-application-message/"+mode, "frame %d replays number %d which is not an application message\n%s", i, r.Seq, desc())
		}
		if refuse[r.Seq] {
			vk.Violation(t, c, "C03/refused-message-replayed/"+mode, "number %d was refused by the application but replayed\n%s", r.Seq, desc())
		}
		if !persist {
			vk.Violation(t, c, "C03/replay-without-persistence/"+mode, "a message was replayed although persistence is off\n%s", desc())
		}
		if !sameFields(bodyFields(r.Fields), bodyFields(o.fs)) {
			vk.Violation(t, c, "C03/body-differs/"+mode+"/"+o.shape, "number %d: body %v, original %v\n%s", r.Seq, bodyFields(r.Fields), bodyFields(o.fs), desc())
		}
		// what follows the body: a replay carries the original's trailer fields (or, for an engine that
		// does not resend signatures, none of them) in front of its own CheckSum - never a trailer
		// field the original did not have, one twice, or one with another value
		trailer := func(fs []fixwire.Field) []fixwire.Field {
			var out []fixwire.Field
			for _, f := range fs {
				if fixwire.IsTrailerTag(f.Tag) && f.Tag != 10 {
					out = append(out, f)
				}
			}
			return out
		}
		if tr := trailer(r.Fields); len(tr) > 0 && !sameFields(tr, trailer(o.fs)) {
			vk.Violation(t, c, "C03/trailer-differs/"+mode+"/"+o.shape, "number %d: the replay's trailer fields are %v, the original's %v\n%s", r.Seq, tr, trailer(o.fs), desc())
		}
		if got, want := fixwire.GetS(r.Fields, 122), fixwire.GetS(o.fs, 52); got != want {
			vk.Violation(t, c, "C03/origsendingtime/"+mode, "number %d: OrigSendingTime %q, original SendingTime %q\n%s", r.Seq, got, want, desc())
		}
		// header fields other than 43/52/122/9 are the original's
		hdr := func(fs []fixwire.Field) []string {
			var l []string
			for _, f := range fs {
				if fixwire.IsHeaderTag(f.Tag) && f.Tag != 43 && f.Tag != 52 && f.Tag != 122 && f.Tag != 9 {
					l = append(l, f.String())
				}
			}
			sort.Strings(l)
			return l
		}
		if strings.Join(hdr(r.Fields), "|") != strings.Join(hdr(o.fs), "|") {
			vk.Violation(t, c, "C03/header-differs/"+mode, "number %d: header %v, original %v\n%s", r.Seq, hdr(r.Fields), hdr(o.fs), desc())
		}
		cover = r.Seq + 1
	}
	if b <= E && cover != E+1 {
		next := "(none)"
		if o := sent[cover]; o != nil {
			next = vk.Show(o.raw)
		}
		vk.Violation(t, c, "C03/coverage-ends-early-or-late/"+mode, "coverage ends at %d, expected %d; state now %s; original of %d: %s\n%s", cover, E+1, s.r.V.StateName(), cover, next, desc())
	}
	// classes
	c.Class("mode:" + mode)
	c.Class("begin:" + cfg.begin)
	for sh := range shapes {
		c.Class("history-shape:" + sh)
	}
	if len(refuse) > 0 {
		c.Class("with-refusals")
	}
	if b > E {
		c.Class("range:empty")
	}
	if e > last && !inf {
		c.Class("range:clipped-at-end")
	}
	if inf {
		c.Class("range:to-infinity")
	}
	if apps >= 1 && admins >= 1 {
		c.Class("range-with-app-and-admin")
		c.NonTrivial(stats.Hash(strings.Join(s.log, "\n"), b, e, fmt.Sprint(keysOf(refuse))))
		var l []string
		for _, r := range reply {
			l = append(l, vk.Show(r.Raw))
		}
		c.SampleClass(mode, map[string]interface{}{"config": cfg.String(), "request": []int{b, e}, "last_used": last, "refused": keysOf(refuse), "reply": l})
	}
}

func keysOf(m map[int]bool) []int {
	var l []int
	for k := range m {
		l = append(l, k)
	}
	sort.Ints(l)
	return l
}

func TestC03_Rapid(t *testing.T) {
	rapid.Check(t, func(t *rapid.T) {
		vk.Guard(func() { c03Property(t) })
	})
}

// TestReplay_C03_Fixed: plain regression examples of the two repaired defects.
func TestReplay_C03_Fixed(t *testing.T) {
	c := c03()
	vk.Guard(func() {
		// (1) dictionary configured, body ends with a repeating group: the replay has one CheckSum and right arithmetic
		cfg := simCfg{begin: "FIX.4.4", hb: 30, store: "memory", settings: map[string]string{config.DataDictionary: storekit.RepoDir() + "/spec/FIX44.xml"}}
		s := newSim(t, c, cfg)
		defer s.close()
		if !s.logon(0) {
			t.Fatalf("harness: logon failed")
		}
		m := quickfix.NewMessage()
		m.Header.SetString(35, "D")
		m.Body.SetString(11, "id1").SetString(55, "IBM").SetString(54, "1").SetString(60, "20240102-03:04:05").SetString(40, "1")
		g := quickfix.NewRepeatingGroup(453, quickfix.GroupTemplate{quickfix.GroupElement(448), quickfix.GroupElement(447), quickfix.GroupElement(452)})
		g.Add().SetString(448, "P1").SetString(452, "1")
		g.Add().SetString(448, "P2").SetString(452, "3")
		m.Body.SetGroup(g)
		if _, err := s.r.Send(m); err != nil {
			t.Fatalf("harness: %v", err)
		}
		s.r.Flush()
		st := s.r.In(s.p.Frame("2", s.r.T(), []fixwire.Field{fixwire.F(7, "2"), fixwire.F(16, "0")}, peer.Opt{}))
		outs := s.r.Outs(st)
		if len(outs) != 1 {
			vk.Violation(t, c, "C03/coverage-ends-early-or-late/persist=true/dict=true", "expected one replayed message, got %d\n%s", len(outs), s.history())
		}
		fr, err := fixwire.Analyze(outs[0].Raw, nil)
		if err != nil || fr.WellFormed() != nil || fixwire.Count(outs[0].Fields, 10) != 1 {
			vk.Violation(t, c, "C03/reply-duplicate-framing-field/persist=true/dict=true/ends-with-group", "replay is malformed: %s", vk.Show(outs[0].Raw))
		}
	})
	vk.Guard(func() {
		// (2) persistence off, BeginSeqNo beyond the last number used: nothing is sent
		cfg := simCfg{begin: "FIX.4.2", hb: 30, store: "memory", settings: map[string]string{config.PersistMessages: "N"}}
		s := newSim(t, c, cfg)
		defer s.close()
		if !s.logon(0) {
			t.Fatalf("harness: logon failed")
		}
		st := s.r.In(s.p.Frame("2", s.r.T(), []fixwire.Field{fixwire.F(7, "5"), fixwire.F(16, "9")}, peer.Opt{}))
		if outs := s.r.Outs(st); len(outs) != 0 {
			vk.Violation(t, c, "C03/reply-to-empty-range/persist=false/dict=false", "reply to an empty range: %s", vk.Show(outs[0].Raw))
		}
	})
	vk.Guard(func() {
		// (3) numbers skipped through the API (no stored message) at the end of the requested range
		// are covered by the closing gap fill: 1 Logon, 2 Heartbeat, 3 skipped, 4 Heartbeat
		s := newSim(t, c, simCfg{begin: "FIX.4.4", hb: 30, store: "memory", settings: map[string]string{}})
		defer s.close()
		if !s.logon(0) {
			t.Fatalf("harness: logon failed")
		}
		s.r.Timeout(1)
		_ = s.r.Store().SetNextSenderMsgSeqNum(s.r.S() + 1)
		s.r.Timeout(1)
		for _, rng := range [][2]string{{"2", "3"}, {"3", "3"}} {
			st := s.r.In(s.p.Frame("2", s.r.T(), []fixwire.Field{fixwire.F(7, rng[0]), fixwire.F(16, rng[1])}, peer.Opt{}))
			outs := s.r.Outs(st)
			if len(outs) != 1 || outs[0].MsgType != "4" || fixwire.GetS(outs[0].Fields, 36) != "4" || fixwire.GetS(outs[0].Fields, 34) != rng[0] {
				vk.Violation(t, c, "C03/coverage-ends-early-or-late/persist=true/dict=false", "ResendRequest(%s,%s) over a history with a hole at 3 must be answered by one gap fill %s -> 4\n%s", rng[0], rng[1], rng[0], s.history())
			}
		}
	})
	vk.Guard(func() {
		// (4) dictionary configured, the body's last field is a group written with zero entries
		// (453=0): the replayed body still ends with it (defect repaired by /repo a75f66a)
		cfg := simCfg{begin: "FIX.4.4", hb: 30, store: "memory", settings: map[string]string{config.DataDictionary: storekit.RepoDir() + "/spec/FIX44.xml"}}
		s := newSim(t, c, cfg)
		defer s.close()
		if !s.logon(0) {
			t.Fatalf("harness: logon failed")
		}
		m := quickfix.NewMessage()
		m.Header.SetString(35, "D")
		m.Body.SetString(11, "id1").SetString(55, "IBM").SetString(54, "1").SetString(60, "20240102-03:04:05").SetString(40, "1")
		m.Body.SetGroup(quickfix.NewRepeatingGroup(453, quickfix.GroupTemplate{quickfix.GroupElement(448), quickfix.GroupElement(447), quickfix.GroupElement(452)}))
		if _, err := s.r.Send(m); err != nil {
			t.Fatalf("harness: %v", err)
		}
		s.r.Flush()
		st := s.r.In(s.p.Frame("2", s.r.T(), []fixwire.Field{fixwire.F(7, "2"), fixwire.F(16, "0")}, peer.Opt{}))
		outs := s.r.Outs(st)
		if len(outs) != 1 || fixwire.GetS(outs[0].Fields, 453) != "0" {
			vk.Violation(t, c, "C03/body-differs/persist=true/dict=true/ends-with-group", "the replay of a message whose body ends with 453=0 lost that field\n%s", s.history())
		}
	})
}

package codec

// Native coverage-guided fuzz targets (thorough tier only). The semantic oracle is inside the
// target: no panic for C09 (T1-T4), the metamorphic form of C11 ("if it parses, Bytes() is the
// input and every scanned non-duplicate field is retrievable from its section") and C12 ("any
// partition gives the same frames as one generous read").

import (
	"bytes"
	"os"
	"path/filepath"
	"strconv"
	"strings"
	"testing"

	"github.com/quickfixgo/quickfix"

	"verif/fixwire"
)

type fuzzTB struct{ f *testing.T }

func (x fuzzTB) Fatalf(format string, args ...interface{}) { x.f.Fatalf(format, args...) }
func (x fuzzTB) Logf(format string, args ...interface{})   { x.f.Logf(format, args...) }

var fuzzSeeds = []string{
	"8=FIX.4.2\x019=104\x0135=D\x0134=2\x0149=TW\x0152=20140515-19:49:56.659\x0156=ISLD\x0111=100\x0121=1\x0140=1\x0154=1\x0155=TSLA\x0160=00010101-00:00:00.000\x0110=039\x01",
	"8=FIX.4.4\x019=40\x0135=D\x0149=S\x0156=T\x01453=2\x01448=A\x01448=B\x0155=X\x0110=000\x01",
	"8=FIX.4.2\x019=30\x0135=n\x01212=5\x01213=<a\x01b>\x0110=000\x01",
	"8=FIX.4.2\x019=5\x0135=0\x0110=000\x01", "8=\x019=\x0135=\x0110=\x01", "8=FIX.4.2\x019=99999999999999999999\x01", "8=FIX.4.2\x019=-1\x0135=0\x0110=000\x01",
	"8=FIX.4.2\x019=5\x0135=0\x0134=\x0110=000\x01", "8=FIX.4.2\x019=10\x0135=n\x01212=99999\x01213=x\x0110=000\x01", "8=FIX.4.2\x01", "8=FIX.4.2\x019=5\x01",
	// a tag written with a leading zero (the engine reads 08 as 8): once a false alarm of the BodyLength oracle
	"08=\x019=8\x0135=0000\x0110=\x01",
	// bytes after the CheckSum are not part of the message (once a false alarm of the retrieval oracle)
	"8=\x019=5\x0135=0\x0110=\x011=\x01", "8=\x019=5\x0135=0\x0110=\x0110=\x01", "8=\x019=0\x0135=0\x019=5\x0110=\x01", "8=\x019=04\x0135=\x0110=\x01",
	// constants at the boundaries of integer parsing and offset arithmetic, and over-long timestamps
	"8=FIX.4.2\x019=9223372036854775807\x0135=0\x0110=000\x01", "8=FIX.4.2\x019=9223372036854775795\x0135=0\x0110=000\x01", "8=FIX.4.2\x019=2147483647\x0135=0\x0110=000\x01",
	"8=FIX.4.2\x019=40\x0135=n\x01212=9223372036854775807\x01213=<a/>\x0110=000\x01", "8=FIX.4.2\x019=40\x0135=n\x01212=9223372036854775800\x01213=<a/>\x0110=000\x01",
	"8=FIX.4.2\x019=60\x0135=0\x0134=-9223372036854775808\x0152=20160208-22:07:16.9541231234\x0160=20160208-22:07:16.954123123Z\x0110=000\x01",
	"8=FIX.4.4\x019=40\x0135=D\x01453=9223372036854775807\x01448=A\x0110=000\x01", "8=FIX.4.4\x019=40\x0135=D\x01453=4294967296\x01448=A\x0110=000\x01",
}

func addSeeds(f *testing.F, sub string) {
	for _, s := range fuzzSeeds {
		f.Add([]byte(s))
	}
	if dir := os.Getenv("VERIF_CORPUS"); dir != "" {
		files, _ := filepath.Glob(filepath.Join(dir, sub, "*"))
		for _, p := range files {
			if b, err := os.ReadFile(p); err == nil {
				f.Add(b)
			}
		}
	}
}

func FuzzC09_Message(f *testing.F) {
	addSeeds(f, "message")
	f.Fuzz(func(t *testing.T, data []byte) {
		exerciseMessage(fuzzTB{t}, dicts(fuzzTB{t}), data, "", []string{"fuzz"})
	})
}

func FuzzC09_Stream(f *testing.F) {
	addSeeds(f, "stream")
	f.Fuzz(func(t *testing.T, data []byte) {
		if len(data) == 0 {
			return
		}
		size := int(data[0])%17 + 1
		res := runFramer(data[1:], []int{size}, data[0]&0x80 != 0)
		if res.panic != nil {
			t.Fatalf("VIOLATION-SIG C09/stream/panic :: %v", res.panic)
		}
		if res.hang {
			t.Fatalf("VIOLATION-SIG C09/stream/hang :: read bound exceeded")
		}
		// C12 metamorphic relation on the same input
		ref := runFramer(data[1:], nil, false)
		if ok, why := sameFrames(ref, res); !ok {
			t.Fatalf("VIOLATION-SIG C12/partition-dependent/fuzz :: %s", why)
		}
	})
}

func FuzzC09_Settings(f *testing.F) {
	for _, s := range []string{"[DEFAULT]\nBeginString=FIX.4.2\n[SESSION]\nSenderCompID=A\nTargetCompID=B\n", "key=value\n[DEFAULT]\n", "[SESSION]\n", "#c\n\n[default]\nx\n"} {
		f.Add([]byte(s))
	}
	f.Fuzz(func(t *testing.T, data []byte) {
		if p := catch(func() {
			if s, err := quickfix.ParseSettings(bytes.NewReader(data)); err == nil && s != nil {
				_ = s.SessionSettings()
			}
		}); p != nil {
			t.Fatalf("VIOLATION-SIG C09/settings/panic :: %v", p)
		}
	})
}

// FuzzC11_Parse: the metamorphic form of C11.
func FuzzC11_Parse(f *testing.F) {
	addSeeds(f, "message")
	f.Fuzz(func(t *testing.T, data []byte) {
		m := quickfix.NewMessage()
		var err error
		if p := catch(func() { err = quickfix.ParseMessage(m, bytes.NewBuffer(append([]byte(nil), data...))) }); p != nil {
			t.Fatalf("VIOLATION-SIG C09/parse/panic :: %v", p)
		}
		if err != nil {
			return
		}
		if !bytes.Equal(m.Bytes(), data) {
			t.Fatalf("VIOLATION-SIG C11/bytes/changed :: Bytes() differs from the input")
		}
		fs, serr := fixwire.Scan(data, map[int]int{212: 213})
		if serr != nil {
			return // the independent scanner does not accept it: nothing to compare
		}
		count := map[int]int{}
		for _, x := range fs {
			count[x.Tag]++
		}
		// a message that parsed must start 8,9,35 and have a BodyLength that matches
		if len(fs) < 4 || fs[0].Tag != 8 || fs[1].Tag != 9 || fs[2].Tag != 35 {
			t.Fatalf("VIOLATION-SIG C11/corrupt/accepted/leading-order :: accepted %q", data)
		}
		if fr, aerr := fixwire.Analyze(data, map[int]int{212: 213}); aerr == nil && fs[len(fs)-1].Tag == 10 && count[8] == 1 && count[9] == 1 && count[10] == 1 && !strings.Contains(string(data), "\x01212=") {
			// compared as numbers: "04" announces four bytes
			if n, nerr := strconv.Atoi(fr.DeclaredLength); nerr == nil && isDigits(fr.DeclaredLength) && n != fr.ActualLength {
				t.Fatalf("VIOLATION-SIG C11/corrupt/accepted/bodylength :: declared %s actual %d in %q", fr.DeclaredLength, fr.ActualLength, data)
			}
		}
		if fs[len(fs)-1].Tag != 10 || count[10] != 1 {
			// the statement speaks about messages that end with CheckSum; the engine stops reading
			// at the first CheckSum field, what follows is not part of the message
			return
		}
		for _, x := range fs {
			if count[x.Tag] != 1 {
				continue
			}
			fm, name := sectionOf(m, x.Tag)
			got, gerr := fm.GetBytes(quickfix.Tag(x.Tag))
			if gerr != nil || !bytes.Equal(got, x.Value) {
				t.Fatalf("VIOLATION-SIG C11/field/not-in-section/%s/fuzz :: tag %d: %q err %v want %q in %q", name, x.Tag, got, gerr, x.Value, data)
			}
		}
	})
}

func itoa(n int) string { return strconv.Itoa(n) }

#!/usr/bin/env python3
"""tools/mutsweep.py <out.jsonl> <seed> <count> [workers] [file-filter-regex]

Mechanical sensitivity sweep (development aid, not a registered check): draws <count> one-token
mutants of the anchored source files of /repo's HEAD, discards those that do not compile or that the
repository's own test suite already kills, and runs the quick checks of the properties anchored in
the mutated file against each survivor (in a scratch worktree, VERIF_REPO).  One JSON line per
mutant: file, line, operator, before/after, verdict (no-build | killed-by-suite | caught:<ID>:<sig> |
survived).  Survivors are triaged by hand: equivalent, outside every listed property, or a gap.
Scratch worktrees live under /tmp and are removed as soon as a mutant is done.
"""
import json, os, random, re, subprocess, sys, concurrent.futures, shutil

ENV = dict(os.environ, GOFLAGS="-mod=mod", GOPROXY="off", GOSUMDB="off", GOTOOLCHAIN="local")
SESSION = ["C04", "C01", "C02", "C03", "C06", "C07", "C08", "C20", "C05"]
FILES = {
    "session.go": SESSION, "in_session.go": SESSION, "resend_state.go": SESSION, "logon_state.go": SESSION,
    "logout_state.go": SESSION, "session_state.go": SESSION, "pending_timeout.go": SESSION,
    "message.go": ["C11", "C10", "C13", "C09", "C03"], "field_map.go": ["C10", "C11", "C13", "C03"],
    "tag_value.go": ["C11", "C10", "C09"], "repeating_group.go": ["C13", "C10", "C11", "C09"],
    "parser.go": ["C12", "C09"], "validation.go": ["C15", "C06"],
    "fix_int.go": ["C14"], "fix_float.go": ["C14"], "fix_boolean.go": ["C14"], "fix_utc_timestamp.go": ["C14"], "fix_decimal.go": ["C14"],
    "datadictionary/datadictionary.go": ["C19", "C15"], "internal/time_range.go": ["C18"],
    "store/file/file_store.go": ["C16", "C17", "C03"], "store/sql/sql_store.go": ["C16", "C17"], "memory_store.go": ["C16", "C03"],
    "store/file/util.go": ["C16", "C17"], "session_factory.go": ["C07", "C18", "C09", "C20", "C15"],
}
OPS = [
    (r"==", "!="), (r"!=", "=="), (r"<=", "<"), (r">=", ">"), (r"(?<![<\-=!>])<(?![=\-<])", "<="), (r"(?<![>\-=!<])>(?![=>])", ">="),
    (r"&&", "||"), (r"\|\|", "&&"), (r"\+ 1\b", ""), (r"- 1\b", ""), (r"\+ 1\b", "+ 2"), (r"\btrue\b", "false"), (r"\bfalse\b", "true"),
    (r"\+\+", "--"), (r"!(?=[a-zA-Z(])", ""), (r"\+=", "-="),
]
SKIP_LINE = re.compile(r"^\s*(//|import|package|\"|`)|OnEvent|logError|log\.|Errorf|errors\.New|panic\(|verifCrashPoint|verifTimer|func \(.*\) String\(\)")


def candidates(path, rel):
    out = []
    src = open(path).read().split("\n")
    in_block_comment = False
    for i, line in enumerate(src):
        if "/*" in line:
            in_block_comment = True
        if in_block_comment:
            if "*/" in line:
                in_block_comment = False
            continue
        if SKIP_LINE.search(line):
            continue
        code = line.split("//")[0]
        if '"' in code or "`" in code or "'" in code:
            # operators inside literals are not code: only mutate the part before the first quote
            code = re.split(r"[\"`']", code)[0]
        for pat, rep in OPS:
            for m in re.finditer(pat, code):
                out.append(dict(file=rel, line=i + 1, op=pat + "->" + rep, start=m.start(), end=m.end(), rep=rep, before=line.strip()))
        # statement deletion: a bare call or assignment statement on its own line
        if re.match(r"^\s+[A-Za-z_][A-Za-z0-9_.\[\]]*(\(.*\)|\s*[+\-]?=\s*[^=].*)$", code) and not re.match(r"^\s+(return|defer|go|if|for|switch|case|var|err\s*[:=])", code) and ":=" not in code and not code.rstrip().endswith("{") and not code.rstrip().endswith(","):
            out.append(dict(file=rel, line=i + 1, op="delete-statement", start=-1, end=-1, rep="", before=line.strip()))
    return out


def run(cmd, cwd, timeout=900):
    try:
        p = subprocess.run(cmd, cwd=cwd, env=ENV, stdout=subprocess.PIPE, stderr=subprocess.STDOUT, timeout=timeout, text=True)
        return p.returncode, p.stdout
    except subprocess.TimeoutExpired:
        return 124, "timeout"


def evaluate(idx, mut):
    wt = "/tmp/msw-%d-%d" % (os.getpid(), idx)
    subprocess.run(["git", "-C", "/repo", "worktree", "add", "-q", wt, "HEAD"], check=True)
    try:
        p = os.path.join(wt, mut["file"])
        src = open(p).read().split("\n")
        line = src[mut["line"] - 1]
        if mut["op"] == "delete-statement":
            indent = re.match(r"^\s*", line).group(0)
            src[mut["line"] - 1] = indent + "_ = 0"
        else:
            src[mut["line"] - 1] = line[: mut["start"]] + mut["rep"] + line[mut["end"]:]
        mut["after"] = src[mut["line"] - 1].strip()
        open(p, "w").write("\n".join(src))
        rc, out = run(["go", "build", "./..."], wt)
        if rc != 0:
            mut["verdict"] = "no-build"
            return mut
        rc, out = run(["go", "vet", "./" + (os.path.dirname(mut["file"]) or ".")], wt)
        if rc != 0:
            mut["verdict"] = "no-build"  # vet failure (unused variable etc.): not a change anybody would land
            return mut
        rc, out = run(["go", "test", "-count=1", ".", "./internal/...", "./datadictionary/...", "./store/..."], wt, 1200)
        if rc != 0:
            mut["verdict"] = "killed-by-suite"
            return mut
        for pid in FILES[mut["file"]]:
            rc, out = subprocess_check(pid, wt)
            if rc == 1:
                sig = re.findall(r"signature: (\S+)", out)
                mut["verdict"] = "caught:%s:%s" % (pid, sig[0] if sig else "?")
                return mut
            if rc != 0:
                mut.setdefault("inconclusive", []).append(pid)
        mut["verdict"] = "survived"
        return mut
    finally:
        subprocess.run(["git", "-C", "/repo", "worktree", "remove", "--force", wt])
        shutil.rmtree(wt, ignore_errors=True)


def subprocess_check(pid, wt):
    env = dict(ENV, VERIF_REPO=wt, VERIF_SEED="1")
    try:
        p = subprocess.run(["./check", pid, "quick"], cwd="/verif", env=env, stdout=subprocess.PIPE, stderr=subprocess.STDOUT, timeout=3000, text=True)
        d = "/verif/replay/" + pid
        for f in os.listdir(d) if os.path.isdir(d) else []:
            if f.startswith("new-"):
                try:
                    os.remove(os.path.join(d, f))
                except OSError:
                    pass
        return p.returncode, p.stdout
    except subprocess.TimeoutExpired:
        return 124, "timeout"


def main():
    out, seed, count = sys.argv[1], int(sys.argv[2]), int(sys.argv[3])
    workers = int(sys.argv[4]) if len(sys.argv) > 4 else 3
    filt = re.compile(sys.argv[5]) if len(sys.argv) > 5 else None
    allc = []
    for rel in FILES:
        if filt and not filt.search(rel):
            continue
        allc += candidates(os.path.join("/repo", rel), rel)
    rnd = random.Random(seed)
    rnd.shuffle(allc)
    chosen = allc[:count]
    print("candidates: %d, drawing %d" % (len(allc), len(chosen)), flush=True)
    with open(out, "a") as fo, concurrent.futures.ThreadPoolExecutor(workers) as ex:
        futs = [ex.submit(evaluate, i, m) for i, m in enumerate(chosen)]
        for f in concurrent.futures.as_completed(futs):
            try:
                m = f.result()
            except Exception as e:  # noqa
                m = dict(verdict="error", error=str(e))
            fo.write(json.dumps(m) + "\n")
            fo.flush()
            print(m.get("verdict"), m.get("file"), m.get("line"), m.get("op"), flush=True)


if __name__ == "__main__":
    main()

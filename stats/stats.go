// Package stats collects what a check run actually covered: evaluations, the set of
// distinct non-trivial cases (by 64-bit hash of their canonical form), a class histogram,
// sample cases, counts of excluded known findings. One Collector per test process; it is
// written at process exit to the file named by $VERIF_STATS (JSON) and $VERIF_STATS.hashes
// (little-endian uint64s), which the driver merges across shards.
package stats

import (
	"encoding/binary"
	"encoding/json"
	"fmt"
	"hash/fnv"
	"os"
	"sort"
	"sync"
)

type Collector struct {
	mu          sync.Mutex
	Property    string                 `json:"property"`
	Evaluations int64                  `json:"evaluations"`
	Classes     map[string]int64       `json:"classes"`
	Known       map[string]int64       `json:"known_excluded"`
	Samples     []interface{}          `json:"samples"`
	Rule        string                 `json:"rule"`
	Exhaustive  map[string]bool        `json:"exhaustive,omitempty"`
	Extra       map[string]interface{} `json:"extra,omitempty"`
	Assumptions []string               `json:"assumptions,omitempty"`
	hashes      map[uint64]struct{}
	sampleSeen  int64
	maxSamples  int
	perClass    map[string]int
}

var (
	global   *Collector
	globalMu sync.Mutex
)

// Get returns the process-wide collector for a property (created on first use).
func Get(property string) *Collector {
	globalMu.Lock()
	defer globalMu.Unlock()
	if global == nil || global.Property != property {
		global = &Collector{
			Property:   property,
			Classes:    map[string]int64{},
			Known:      map[string]int64{},
			Exhaustive: map[string]bool{},
			Extra:      map[string]interface{}{},
			hashes:     map[uint64]struct{}{},
			maxSamples: 12,
		}
	}
	return global
}

func (c *Collector) SetRule(rule string) { c.mu.Lock(); c.Rule = rule; c.mu.Unlock() }

func (c *Collector) Assume(a ...string) {
	c.mu.Lock()
	c.Assumptions = append(c.Assumptions, a...)
	c.mu.Unlock()
}

func (c *Collector) Eval() { c.mu.Lock(); c.Evaluations++; c.mu.Unlock() }

func (c *Collector) EvalN(n int64) { c.mu.Lock(); c.Evaluations += n; c.mu.Unlock() }

func (c *Collector) Class(name string) { c.mu.Lock(); c.Classes[name]++; c.mu.Unlock() }

func (c *Collector) ClassN(name string, n int64) { c.mu.Lock(); c.Classes[name] += n; c.mu.Unlock() }

func (c *Collector) KnownHit(sig string) { c.mu.Lock(); c.Known[sig]++; c.mu.Unlock() }

func (c *Collector) SetExhaustive(space string, v bool) {
	c.mu.Lock()
	c.Exhaustive[space] = v
	c.mu.Unlock()
}

func (c *Collector) SetExtra(k string, v interface{}) { c.mu.Lock(); c.Extra[k] = v; c.mu.Unlock() }

// NonTrivial records one non-trivial case by the hash of its canonical form.
func (c *Collector) NonTrivial(h uint64) {
	c.mu.Lock()
	c.hashes[h] = struct{}{}
	c.mu.Unlock()
}

// SampleClass keeps at most two samples per class (so the evidence shows the variety of cases).
func (c *Collector) SampleClass(class string, v interface{}) {
	c.mu.Lock()
	defer c.mu.Unlock()
	if c.perClass == nil {
		c.perClass = map[string]int{}
	}
	if c.perClass[class] >= 2 || len(c.Samples) >= 40 {
		return
	}
	c.perClass[class]++
	c.Samples = append(c.Samples, map[string]interface{}{"class": class, "case": v})
}

// Sample keeps the first few cases and then a thinning deterministic selection.
func (c *Collector) Sample(v interface{}) {
	c.mu.Lock()
	defer c.mu.Unlock()
	c.sampleSeen++
	if len(c.Samples) < c.maxSamples/2 {
		c.Samples = append(c.Samples, v)
		return
	}
	// keep samples at exponentially spaced positions: 16, 64, 256, ...
	n := c.sampleSeen
	if n >= 16 && n&(n-1) == 0 && (bitlen(n)%2 == 1) && len(c.Samples) < c.maxSamples {
		c.Samples = append(c.Samples, v)
	}
}

func bitlen(n int64) int {
	l := 0
	for n > 0 {
		l++
		n >>= 1
	}
	return l
}

// Hash hashes the canonical textual form of the parts.
func Hash(parts ...interface{}) uint64 {
	h := fnv.New64a()
	for _, p := range parts {
		switch v := p.(type) {
		case []byte:
			h.Write(v)
		case string:
			h.Write([]byte(v))
		default:
			fmt.Fprintf(h, "%v", v)
		}
		h.Write([]byte{0xff})
	}
	return h.Sum64()
}

// Write stores the collector where the driver expects it. No-op without $VERIF_STATS.
func (c *Collector) Write() {
	path := os.Getenv("VERIF_STATS")
	if path == "" {
		return
	}
	c.mu.Lock()
	defer c.mu.Unlock()
	hs := make([]uint64, 0, len(c.hashes))
	for h := range c.hashes {
		hs = append(hs, h)
	}
	sort.Slice(hs, func(i, j int) bool { return hs[i] < hs[j] })
	buf := make([]byte, 8*len(hs))
	for i, h := range hs {
		binary.LittleEndian.PutUint64(buf[8*i:], h)
	}
	_ = os.WriteFile(path+".hashes", buf, 0o644)
	type out struct {
		*Collector
		Distinct int `json:"distinct_local"`
	}
	b, err := json.MarshalIndent(out{c, len(hs)}, "", " ")
	if err != nil {
		b = []byte(fmt.Sprintf(`{"property":%q,"error":%q}`, c.Property, err.Error()))
	}
	_ = os.WriteFile(path, b, 0o644)
}

// WriteGlobal writes the process-wide collector, if any (call from TestMain).
func WriteGlobal() {
	globalMu.Lock()
	g := global
	globalMu.Unlock()
	if g != nil {
		g.Write()
	}
}

package session

import (
	"os"
	"testing"

	"verif/stats"
)

func TestMain(m *testing.M) {
	rc := m.Run()
	stats.WriteGlobal()
	os.Exit(rc)
}

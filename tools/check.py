#!/usr/bin/env python3
"""Driver for the /verif checks.

  ./check <ID> <quick|thorough>        run the check of one property
  ./check <ID> --replay <file>         re-run one saved failing case
  ./check all <quick|thorough>         run every registered property in turn

Exit 0: the property held on everything explored (listed known findings are printed as
KNOWN-FINDING lines). Exit 1: a violation, with a line `VIOLATION property=<id> replay=<path>`.
Exit 2: inconclusive (tree does not build, time-out, vacuous generator, worker death) - never
reported as a violation.
"""
import glob
import json
import os
import re
import shutil
import subprocess
import sys
import time

VERIF = os.path.dirname(os.path.dirname(os.path.abspath(__file__)))
sys.path.insert(0, os.path.join(VERIF, "tools"))
from registry import PROPS  # noqa: E402

GOENV = dict(GOFLAGS="-mod=mod", GOPROXY="off", GOSUMDB="off", GOTOOLCHAIN="local")


def log(*a):
    print(*a, flush=True)


def goenv():
    e = dict(os.environ)
    e.update(GOENV)
    e.pop("GOWORK", None)
    return e


def scratch_base():
    for d in ("/dev/shm", os.environ.get("TMPDIR") or "/tmp"):
        if os.path.isdir(d) and os.access(d, os.W_OK):
            return d
    return "/tmp"


class Run:
    def __init__(self, pid, tier, seed):
        self.pid = pid
        self.spec = PROPS[pid]
        self.tier = tier
        self.seed = seed
        self.t0 = time.time()
        self.build_dir = os.path.join(VERIF, ".build", "%s-%d" % (pid, os.getpid()))
        self.scratch = os.path.join(scratch_base(), "verif-%s-%d" % (pid, os.getpid()))
        self.repo = os.environ.get("VERIF_REPO", "/repo")
        self.violations = []  # (sig, replay path)
        self.known_lines = []
        self.stats_files = []
        self.inconclusive = None
        self.stage_info = []
        self.collected = {}
        self.notes = []

    # ---------------------------------------------------------------- build
    def build(self):
        os.makedirs(self.build_dir, exist_ok=True)
        os.makedirs(self.scratch, exist_ok=True)
        mod = open(os.path.join(VERIF, "go.mod")).read()
        mod = re.sub(r"(replace github.com/quickfixgo/quickfix => )\S+", r"\g<1>" + self.repo, mod)
        self.modfile = os.path.join(self.build_dir, "go.mod")
        open(self.modfile, "w").write(mod)
        shutil.copy(os.path.join(VERIF, "go.sum"), os.path.join(self.build_dir, "go.sum"))
        self.bins = {}
        pkgs = [self.spec["pkg"]] + [st["pkg"] for st in self.spec["stages"] if st.get("pkg")]
        for i, pkg in enumerate(dict.fromkeys(pkgs)):
            b = os.path.join(self.build_dir, "p%d.test" % i)
            cmd = ["go", "test", "-c", "-tags", "verif", "-modfile", self.modfile, "-o", b, pkg]
            p = subprocess.run(cmd, cwd=VERIF, env=goenv(), capture_output=True, text=True)
            if p.returncode != 0 or not os.path.exists(b):
                log("BUILD FAILED (inconclusive):\n" + p.stdout[-3000:] + p.stderr[-3000:])
                return False
            self.bins[pkg] = b
        self.bin = self.bins[self.spec["pkg"]]
        # -race builds (thorough-tier perturbation stages)
        for st in self.spec["stages"]:
            if st.get("race") and not (st.get("thorough_only") and self.tier != "thorough"):
                pkg = st.get("pkg") or self.spec["pkg"]
                b = os.path.join(self.build_dir, "race.test")
                cmd = ["go", "test", "-c", "-race", "-tags", "verif", "-modfile", self.modfile, "-o", b, pkg]
                p = subprocess.run(cmd, cwd=VERIF, env=goenv(), capture_output=True, text=True)
                if p.returncode == 0 and os.path.exists(b):
                    self.bins[(pkg, "race")] = b
        self.vmerge = os.path.join(VERIF, ".build", "vmerge")
        if not os.path.exists(self.vmerge):
            subprocess.run(["go", "build", "-modfile", self.modfile, "-o", self.vmerge, "./tools/vmerge"], cwd=VERIF, env=goenv())
        return True

    def build_fuzz(self):
        """fuzz-instrumented binary (thorough only)"""
        self.fuzzbin = os.path.join(self.build_dir, "pf.test")
        cmd = ["go", "test", "-c", "-fuzz=Fuzz", "-tags", "verif", "-modfile", self.modfile, "-o", self.fuzzbin, self.spec["pkg"]]
        p = subprocess.run(cmd, cwd=VERIF, env=goenv(), capture_output=True, text=True)
        return p.returncode == 0 and os.path.exists(self.fuzzbin)

    # ---------------------------------------------------------------- running
    def shard_seed(self, i):
        return 1 + (self.seed * 1000003 + i * 7919 + 17) % (2 ** 31 - 2)

    def launch(self, stage, i, n, extra_args, extra_env=None, binary=None):
        cwd = os.path.join(self.scratch, "%s-%d" % (stage["name"], i))
        os.makedirs(cwd, exist_ok=True)
        stats = os.path.join(cwd, "stats.json")
        env = goenv()
        env.update(
            VERIF_TIER=self.tier, VERIF_SEED=str(self.seed), VERIF_SHARD=str(i), VERIF_SHARDS=str(n),
            VERIF_STATS=stats, VERIF_SCRATCH=cwd, VERIF_REPLAY_OUT=os.path.join(cwd, "replay-out"),
            VERIF_KNOWN=os.environ.get("VERIF_KNOWN_OVERRIDE") or os.path.join(VERIF, "KNOWN_FINDINGS.json"), VERIF_DIR=VERIF, VERIF_REPO=self.repo,
            VERIF_PROPERTY=self.pid,
        )
        os.makedirs(env["VERIF_REPLAY_OUT"], exist_ok=True)
        if extra_env:
            env.update(extra_env)
        if binary is None and stage.get("race"):
            binary = self.bins.get((stage.get("pkg") or self.spec["pkg"], "race"))
            env["GORACE"] = "halt_on_error=0"
        if binary is None and stage.get("pkg"):
            binary = self.bins[stage["pkg"]]
        args = [binary or self.bin, "-test.run", stage["run"], "-test.v", "-test.count=1"] + extra_args
        out = open(os.path.join(cwd, "out.log"), "w")
        p = subprocess.Popen(args, cwd=cwd, env=env, stdout=out, stderr=subprocess.STDOUT)
        return dict(p=p, cwd=cwd, stats=stats, out=out, i=i)

    def pick(self, v):
        if isinstance(v, (tuple, list)):
            return v[1] if self.tier == "thorough" else v[0]
        return v

    def run_stage(self, stage):
        kind = stage["kind"]
        if stage.get("thorough_only") and self.tier != "thorough":
            return
        if stage.get("quick_only") and self.tier == "thorough":
            return
        n = self.pick(stage.get("shards", 1))
        timeout = self.pick(stage.get("timeout", (600, 3600)))
        t0 = time.time()
        procs = []
        if kind == "rapid":
            checks = self.pick(stage["checks"])
            shrink = "30s" if self.tier == "quick" else "120s"
            for i in range(n):
                args = ["-rapid.checks=%d" % checks, "-rapid.seed=%d" % self.shard_seed(i), "-rapid.shrinktime=" + shrink,
                        "-rapid.nofailfile=false", "-test.timeout=%ds" % (timeout + 60)]
                procs.append(self.launch(stage, i, n, args))
        elif kind == "plain":
            for i in range(n):
                procs.append(self.launch(stage, i, n, ["-test.timeout=%ds" % (timeout + 60)]))
        elif kind == "fuzz":
            if not getattr(self, "fuzzbin", None):
                if not self.build_fuzz():
                    self.inconclusive = "fuzz build failed"
                    return
            budget = self.pick(stage.get("fuzztime", (0, 60)))
            cache = os.path.join(self.build_dir, "fuzzcache")
            corpus_env = {"VERIF_CORPUS": os.path.join(VERIF, "corpus")}
            args = ["-test.fuzz", stage["run"], "-test.fuzztime=%ds" % budget, "-test.fuzzcachedir=" + cache,
                    "-test.parallel=%d" % (os.cpu_count() or 8), "-test.timeout=%ds" % (timeout + 60)]
            procs.append(self.launch(stage, 0, 1, args, corpus_env, binary=self.fuzzbin))
        else:
            raise SystemExit("unknown stage kind " + kind)

        deadline = t0 + timeout
        for pr in procs:
            remaining = max(1, deadline - time.time())
            try:
                pr["p"].wait(timeout=remaining)
            except subprocess.TimeoutExpired:
                pr["p"].kill()
                pr["p"].wait()
                pr["timed_out"] = True
            pr["out"].close()
        passed = 0
        for pr in procs:
            text = open(os.path.join(pr["cwd"], "out.log"), errors="replace").read()
            rc = pr["p"].returncode
            if os.path.exists(pr["stats"]):
                self.stats_files.append(pr["stats"])
            if pr.get("timed_out"):
                self.inconclusive = "stage %s shard %d timed out after %ds" % (stage["name"], pr["i"], timeout)
                continue
            if kind == "rapid":
                for m in re.finditer(r"\[rapid\] OK, passed (\d+) tests", text):
                    passed += int(m.group(1))
            if (os.environ.get("VERIF_COLLECT") == "1" or os.environ.get("VERIF_ONLY_STAGE")):
                for m in re.finditer(r"COLLECT-BEGIN (\S+)\n(.*?)\nCOLLECT-END", text, re.S):
                    if m.group(1) not in self.collected:
                        self.collected[m.group(1)] = m.group(2)
                        limit = int(os.environ.get("VERIF_COLLECT_CHARS", "1500"))
                        log("COLLECT %s :: %s" % (m.group(1), m.group(2)[:limit]))
            for m in re.finditer(r"KNOWN-REPRO (\S+) (yes|no)(?: (.*))?", text):
                self.known_lines.append((m.group(1), m.group(2), m.group(3) or ""))
            if rc == 0:
                continue
            sigs = re.findall(r"VIOLATION-SIG (\S+) :: (.*)", text)
            if sigs:
                self.save_violation(stage, pr, text, sigs[-1][0])
            elif "panic: test timed out" in text:
                self.inconclusive = "stage %s shard %d: go test deadline" % (stage["name"], pr["i"])
            elif kind == "fuzz" and re.search(r"Failing input written to|failure while testing seed corpus", text):
                self.save_violation(stage, pr, text, "fuzz-crasher")
            elif stage.get("ignore_unclassified"):
                # e.g. data-race reports of the -race perturbation stage: logged, never a verdict
                races = len(re.findall(r"WARNING: DATA RACE", text))
                self.notes.append("stage %s shard %d: exit %s without a property violation (%d data race reports, logged only)" % (stage["name"], pr["i"], rc, races))
            elif re.search(r"^panic: (?!test timed out)", text, re.M) or re.search(r"^fatal error: ", text, re.M):
                # the test process itself died (a panic on an engine goroutine, a fatal runtime error)
                self.save_violation(stage, pr, text, "%s/process-crash" % self.pid)
            elif re.search(r"^(--- FAIL|FAIL|panic:)", text, re.M):
                # a failing test without our signature: still a failure of the check on this tree
                self.save_violation(stage, pr, text, "unclassified-failure")
            else:
                self.inconclusive = "stage %s shard %d exited %s without a verdict" % (stage["name"], pr["i"], rc)
        info = dict(stage=stage["name"], kind=kind, shards=n, wall_s=round(time.time() - t0, 1))
        if kind == "fuzz":
            for pr in procs:
                text = open(os.path.join(pr["cwd"], "out.log"), errors="replace").read()
                ex = re.findall(r"execs: (\d+)", text)
                ni = re.findall(r"new interesting: (\d+) \(total: (\d+)\)", text)
                if ex:
                    info["fuzz_execs"] = int(ex[-1])
                if ni:
                    info["fuzz_corpus_entries"] = int(ni[-1][1])
        if kind == "rapid":
            info["requested_cases"] = checks * n
            info["passed_cases"] = passed
            if passed < checks * n and not self.violations and not self.inconclusive and not stage.get("ignore_unclassified"):
                self.inconclusive = "stage %s: rapid ran %d of %d cases" % (stage["name"], passed, checks * n)
        self.stage_info.append(info)

    def save_violation(self, stage, pr, text, sig):
        rdir = os.path.join(VERIF, "replay", self.pid)
        os.makedirs(rdir, exist_ok=True)
        slug = re.sub(r"[^A-Za-z0-9_.@-]+", "_", sig)[:80]
        test = re.sub(r"[^A-Za-z0-9_]", "", stage["run"])
        m = re.search(r"--- FAIL: (\w+)", text)
        if m:
            test = m.group(1)
        base = os.path.join(rdir, "new-%s--%s" % (test, slug))
        replay = None
        fails = sorted(glob.glob(os.path.join(pr["cwd"], "testdata", "rapid", "*", "*.fail")))
        if fails:
            replay = base + ".fail"
            shutil.copy(fails[-1], replay)
        outs = sorted(glob.glob(os.path.join(pr["cwd"], "replay-out", "*")))
        if outs and not replay:
            # files written by the test itself are named <ReplayTestName>--<slug>.<ext>
            match = [o for o in outs if slug in os.path.basename(o)] or outs
            replay = os.path.join(rdir, "new-" + os.path.basename(match[0]))
            shutil.copy(match[0], replay)
        fz = sorted(glob.glob(os.path.join(pr["cwd"], "testdata", "fuzz", "*", "*")))
        if fz and not replay:
            replay = base + ".fuzz"
            shutil.copy(fz[-1], replay)
        with open(base + ".log", "w") as f:
            f.write(text[-200000:])
        if not replay:
            replay = base + ".log"
        if sig not in [v[0] for v in self.violations]:
            self.violations.append((sig, replay, base + ".log"))

    # ---------------------------------------------------------------- evidence
    def write_evidence(self):
        cov = dict(evaluations=0, distinct_nontrivial=0, rule=self.spec.get("rule", ""), samples=[], classes={},
                   known_excluded={}, stages=self.stage_info)
        assumptions = list(self.spec.get("assumptions", []))
        exhaustive = {}
        hashes = []
        sample_classes = {}
        for sf in self.stats_files:
            try:
                d = json.load(open(sf))
            except Exception:
                continue
            cov["evaluations"] += d.get("evaluations", 0)
            for k, v in (d.get("classes") or {}).items():
                cov["classes"][k] = cov["classes"].get(k, 0) + v
            for k, v in (d.get("known_excluded") or {}).items():
                cov["known_excluded"][k] = cov["known_excluded"].get(k, 0) + v
            for s in (d.get("samples") or []):
                key = s.get("class") if isinstance(s, dict) and "class" in s else None
                if key is not None:
                    if sample_classes.get(key, 0) >= 2:
                        continue
                    sample_classes[key] = sample_classes.get(key, 0) + 1
                if len(cov["samples"]) < 40:
                    cov["samples"].append(s)
            if d.get("rule") and not cov["rule"]:
                cov["rule"] = d["rule"]
            for k, v in (d.get("exhaustive") or {}).items():
                exhaustive[k] = exhaustive.get(k, True) and v
            for a in (d.get("assumptions") or []):
                if a not in assumptions:
                    assumptions.append(a)
            for k, v in (d.get("extra") or {}).items():
                cov.setdefault("extra", {})[k] = v
            if os.path.exists(sf + ".hashes"):
                hashes.append(sf + ".hashes")
        if hashes and os.path.exists(self.vmerge):
            p = subprocess.run([self.vmerge] + hashes, capture_output=True, text=True)
            try:
                cov["distinct_nontrivial"] = int(p.stdout.strip())
            except ValueError:
                pass
        if exhaustive:
            cov["exhaustive_subspaces"] = exhaustive
            cov["exhaustive"] = False  # the whole quantified space is never exhausted; see exhaustive_subspaces
        cov["classes"] = dict(sorted(cov["classes"].items()))
        ev = dict(property_id=self.pid, tier=self.tier, seed=self.seed, level=self.spec["level"], coverage=cov,
                  assumptions=assumptions, wall_s=round(time.time() - self.t0, 2), violations=len(self.violations))
        if self.inconclusive:
            ev["coverage"]["inconclusive"] = self.inconclusive
        if self.notes:
            ev["coverage"]["notes"] = self.notes
        evdir = os.path.join(VERIF, "evidence")
        if os.path.realpath(self.repo) != "/repo" or (os.environ.get("VERIF_COLLECT") == "1" or os.environ.get("VERIF_ONLY_STAGE")):
            # runs against a scratch copy (mutant trials) or triage runs never touch the registered evidence
            evdir = os.path.join(VERIF, ".build", "evidence-scratch")
        os.makedirs(evdir, exist_ok=True)
        path = os.path.join(evdir, self.pid + ".json")
        tmp = path + ".tmp"
        with open(tmp, "w") as f:
            json.dump(ev, f, indent=1, sort_keys=False, default=str)
        os.replace(tmp, path)
        return ev

    def vacuous(self, ev):
        cls = ev["coverage"]["classes"]
        missing = []
        for req in self.spec.get("require", []):
            name, minimum = (req, 1) if isinstance(req, str) else req
            if isinstance(minimum, (tuple, list)):
                minimum = self.pick(minimum)
            if cls.get(name, 0) < minimum:
                missing.append("%s=%d<%d" % (name, cls.get(name, 0), minimum))
        if ev["coverage"]["distinct_nontrivial"] < 2:
            missing.append("distinct_nontrivial<2")
        return missing

    def cleanup(self):
        shutil.rmtree(self.scratch, ignore_errors=True)
        shutil.rmtree(self.build_dir, ignore_errors=True)

    # ---------------------------------------------------------------- main
    def main(self):
        if not self.build():
            self.cleanup()
            return 2
        stages = [dict(name="known", kind="plain", run="^TestKnown_%s" % self.pid, timeout=300),
                  dict(name="replay", kind="plain", run="^TestReplay_%s" % self.pid, timeout=300)]
        # the same two implicit stages for every further package a registered stage lives in
        for pkg in dict.fromkeys(st["pkg"] for st in self.spec["stages"] if st.get("pkg") and st["pkg"] != self.spec["pkg"]):
            stages.append(dict(name="known@" + pkg, kind="plain", run="^TestKnown_%s" % self.pid, timeout=300, pkg=pkg))
            stages.append(dict(name="replay@" + pkg, kind="plain", run="^TestReplay_%s" % self.pid, timeout=300, pkg=pkg))
        stages += self.spec["stages"]
        only = os.environ.get("VERIF_ONLY_STAGE")  # development aid: run one registered stage (evidence goes to the scratch directory)
        if only:
            stages = [st for st in stages if st["name"] == only]
        for st in stages:
            self.run_stage(st)
            if self.violations:
                break
        ev = self.write_evidence()
        rc = 0
        # known findings: print those that still reproduce
        known = json.load(open(os.path.join(VERIF, "KNOWN_FINDINGS.json")))["findings"]
        repro = {sig: (yn, what) for sig, yn, what in self.known_lines}
        excluded = ev["coverage"]["known_excluded"]
        for f in known:
            if f["property"] != self.pid or f["status"] != "open":
                continue
            yn = repro.get(f["signature"], ("?", ""))[0]
            if yn == "yes" or excluded.get(f["signature"], 0) > 0:
                log("KNOWN-FINDING: property=%s %s [%s] (replay test reproduces: %s; excluded in generated tier: %d)" % (
                    self.pid, f["what"], f["signature"], yn, excluded.get(f["signature"], 0)))
            else:
                log("note: listed finding %s did not reproduce in this run (replay: %s)" % (f["signature"], yn))
        if self.violations:
            for sig, rp, lg in self.violations:
                log("VIOLATION property=%s replay=%s" % (self.pid, rp))
                log("  signature: %s" % sig)
                if os.path.exists(lg):
                    tail = [l for l in open(lg, errors="replace").read().splitlines() if "VIOLATION-SIG" in l]
                    for l in tail[-3:]:
                        log("  " + l.strip()[:600])
            rc = 1
        elif self.inconclusive:
            log("INCONCLUSIVE property=%s: %s" % (self.pid, self.inconclusive))
            rc = 2
        else:
            miss = self.vacuous(ev)
            if miss:
                log("INCONCLUSIVE property=%s: vacuous run, classes below minimum: %s" % (self.pid, ", ".join(miss)))
                rc = 2
        c = ev["coverage"]
        log("%s %s seed=%d: evaluations=%d distinct_nontrivial=%d violations=%d wall=%.1fs -> exit %d" % (
            self.pid, self.tier, self.seed, c["evaluations"], c["distinct_nontrivial"], len(self.violations), ev["wall_s"], rc))
        if os.environ.get("VERIF_KEEP") != "1":
            self.cleanup()
        return rc

    def replay(self, path):
        if not self.build():
            self.cleanup()
            return 2
        path = os.path.abspath(path)
        name = os.path.basename(path)
        m = re.match(r"(?:new-)?(\w+?)--", name)
        test = m.group(1) if m else None
        if test is None:
            log("cannot tell the test from the file name; expected <TestName>--<slug>.<ext>")
            return 2
        stage = dict(name="replay1", kind="plain", run="^%s$" % test)
        for pkg, b in self.bins.items():
            lst = subprocess.run([b, "-test.list", "^%s$" % test], capture_output=True, text=True).stdout
            if test in lst:
                stage["pkg"] = pkg
        if path.endswith(".fail"):
            pr = self.launch(stage, 0, 1, ["-rapid.failfile=" + path, "-test.timeout=600s"])
        else:
            pr = self.launch(stage, 0, 1, ["-test.timeout=600s"], {"VERIF_REPLAY": path})
        pr["p"].wait()
        pr["out"].close()
        text = open(os.path.join(pr["cwd"], "out.log"), errors="replace").read()
        log(text[-6000:])
        rc = 0
        if pr["p"].returncode != 0:
            log("VIOLATION property=%s replay=%s" % (self.pid, path))
            rc = 1
        self.cleanup()
        return rc


def main():
    if len(sys.argv) < 3:
        print(__doc__)
        return 2
    pid = sys.argv[1]
    seed = int(os.environ.get("VERIF_SEED", "1") or "1")
    if sys.argv[2] == "--replay":
        return Run(pid, "quick", seed).replay(sys.argv[3])
    tier = sys.argv[2]
    if tier not in ("quick", "thorough"):
        print(__doc__)
        return 2
    os.environ["VERIF_TIER"] = tier
    if pid == "all":
        worst = 0
        for p in sorted(PROPS):
            rc = subprocess.call([sys.executable, os.path.abspath(__file__), p, tier])
            worst = max(worst, rc)
        return worst
    if pid not in PROPS:
        print("unknown property", pid)
        return 2
    return Run(pid, tier, seed).main()


if __name__ == "__main__":
    sys.exit(main())

package sched

// C18, consumer stage: the schedule as the session uses it. A session is built from settings
// (StartTime/EndTime/Weekdays or StartDay/EndDay, TimeZone) and its run-loop schedule check
// (CheckSessionTime) is called with generated instants in increasing order. Oracle: the same
// independent window enumeration as the classification stages. No message is exchanged (every
// inbound message would make the engine look at the real clock).

import (
	"fmt"
	"sort"
	"strings"
	"testing"
	"time"

	"github.com/quickfixgo/quickfix"
	"github.com/quickfixgo/quickfix/config"
	"pgregory.net/rapid"

	"verif/rig"
	"verif/stats"
	"verif/vk"
)

func sameWindow(a, b []window) bool {
	for _, x := range a {
		for _, y := range b {
			if x == y {
				return true
			}
		}
	}
	return false
}

func c18ConsumerProperty(t *rapid.T) {
	c := c18()
	cfg := genCfg(t)
	set := map[string]string{config.StartTime: hms(cfg.s), config.EndTime: hms(cfg.e)}
	if cfg.loc != time.UTC {
		set[config.TimeZone] = cfg.loc.String()
	}
	if cfg.weekly {
		set[config.StartDay], set[config.EndDay] = cfg.dayNames()
	} else if len(cfg.days) > 0 {
		set[config.Weekdays] = cfg.weekdaysText()
	}
	// the schedule's consequences do not depend on the other reset options
	for _, k := range []string{config.ResetOnDisconnect, config.ResetOnLogout, config.ResetOnLogon} {
		if rapid.IntRange(0, 3).Draw(t, k) == 0 {
			set[k] = "Y"
		}
	}
	r, err := rig.New(rig.Config{ID: quickfix.SessionID{BeginString: "FIX.4.2", SenderCompID: "S", TargetCompID: "T"}, Settings: set, Initiator: rapid.Bool().Draw(t, "initiator")})
	if err != nil {
		t.Fatalf("harness: the settings %v were refused: %v", set, err)
	}
	defer r.Close()
	// instants in increasing order over a few weeks
	n := rapid.IntRange(3, 14).Draw(t, "n")
	var times []time.Time
	for i := 0; i < n; i++ {
		times = append(times, genInstant(t, cfg))
	}
	sort.Slice(times, func(i, j int) bool { return times[i].Before(times[j]) })
	now := times[0]
	r.SetVirtualClock(func() time.Time { return now })
	var log []string
	created := now
	for _, at := range times {
		now = at
		if cfg.nearEdge(at) || cfg.nearEdge(created) || !cfg.cleanWindows(at) || !cfg.cleanWindows(created) {
			// the statement leaves the one-second edges (and edges moved by a zone transition) open: let
			// the engine act, take over its verdict, do not judge
			st := r.CheckSessionTime(at)
			for _, e := range r.Entries(st) {
				if e.Kind == "store.Reset" {
					created = at
				}
			}
			c.Class("consumer:instant-near-an-edge(not-judged)")
			continue
		}
		inNow, inCreated := cfg.locate(at), cfg.locate(created)
		st := r.CheckSessionTime(at)
		if st.Panic != nil {
			vk.Violation(t, c, "C18/consumer/panic", "%v", st.Panic)
		}
		resets := 0
		for _, e := range r.Entries(st) {
			if e.Kind == "store.Reset" {
				resets++
			}
		}
		state := r.V.StateName()
		log = append(log, fmt.Sprintf("%s: in window %v, state %s, resets %d (creation %s)", at.In(cfg.loc).Format("Mon 2006-01-02 15:04:05 MST"), len(inNow) > 0, state, resets, created.In(cfg.loc).Format("Mon 2006-01-02 15:04:05")))
		desc := func() string { return fmt.Sprintf("config %s (settings %v)\n  %s", cfg, set, strings.Join(log, "\n  ")) }
		c.Eval()
		switch {
		case len(inNow) == 0:
			c.Class("consumer:outside-schedule")
			if state != "notSessionTime" {
				vk.Violation(t, c, "C18/consumer/active-outside-schedule", "the instant is outside every window but the session state is %s\n%s", state, desc())
			}
			if _, ok := r.Connect(); ok {
				vk.Violation(t, c, "C18/consumer/connection-accepted-outside-schedule", "a connection was accepted outside the schedule\n%s", desc())
			}
		default:
			c.Class("consumer:inside-schedule")
			if state == "notSessionTime" {
				vk.Violation(t, c, "C18/consumer/inactive-inside-schedule", "the instant is inside a window but the session state is notSessionTime\n%s", desc())
			}
			same := len(inCreated) > 0 && sameWindow(inNow, inCreated)
			if same && resets > 0 {
				vk.Violation(t, c, "C18/consumer/reset-within-one-window", "the store was created in the same window and was reset anyway\n%s", desc())
			}
			if !same && resets == 0 {
				vk.Violation(t, c, "C18/consumer/no-reset-in-a-new-window", "the store was created in an earlier window (or outside any) and was not reset\n%s", desc())
			}
			if !same {
				c.Class("consumer:reset-on-new-window")
			}
			if _, ok := r.Connect(); !ok {
				vk.Violation(t, c, "C18/consumer/connection-refused-inside-schedule", "a connection was refused inside the schedule\n%s", desc())
			}
			r.Disconnect()
		}
		if resets > 0 {
			created = at
		}
		c.NonTrivial(stats.Hash("consumer", cfg.String(), at.Unix(), created.Unix()))
	}
	c.SampleClass("consumer", map[string]interface{}{"config": cfg.String(), "steps": log})
}

func TestC18_Consumer(t *testing.T) {
	rapid.Check(t, func(t *rapid.T) {
		vk.Guard(func() { c18ConsumerProperty(t) })
	})
}

package specxml

import (
	"testing"
)

func TestShippedSpecsLoad(t *testing.T) {
	for _, f := range []string{"FIX40", "FIX41", "FIX42", "FIX43", "FIX44", "FIX50", "FIX50SP1", "FIX50SP2", "FIXT11"} {
		s, err := ParseFile("/repo/spec/" + f + ".xml")
		if err != nil {
			t.Fatal(err)
		}
		groups := 0
		for _, m := range s.Messages {
			ms, err := s.Expand(m.Members, true)
			if err != nil {
				t.Fatalf("%s %s: %v", f, m.Name, err)
			}
			var walk func([]*Member)
			walk = func(l []*Member) {
				for _, x := range l {
					if x.IsGroup {
						groups++
						walk(x.Members)
					}
				}
			}
			walk(ms)
		}
		if _, err := s.Expand(s.Header, true); err != nil {
			t.Fatal(err)
		}
		t.Logf("%s: %s %d messages %d components %d fields %d groups(with nesting)", f, s.BeginString(), len(s.Messages), len(s.Components), len(s.Fields), groups)
	}
	s, _ := ParseFile("/repo/spec/FIX44.xml")
	for _, m := range s.Messages {
		if m.MsgType == "D" {
			ms, _ := s.Expand(m.Members, true)
			req := []int{}
			for _, x := range ms {
				if x.Required {
					req = append(req, x.Tag)
				}
			}
			t.Logf("FIX44 D: %d members, required %v", len(ms), req)
			if len(req) != 6 { // ClOrdID, Side, TransactTime, OrdType, Symbol(Instrument), OrderQtyData is optional
				t.Logf("note: required count %d", len(req))
			}
		}
	}
}

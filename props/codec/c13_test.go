package codec

// C13 - repeating groups survive the trip through the wire.
// (a) free templates written through the API and parsed without a dictionary and with a
//     dictionary generated for the template (rapid);
// (b) every group of every message of every shipped dictionary, populated from the
//     independent specification tree, written both through the API and in specification
//     order by fixwire, parsed with the defining dictionary and without one.

import (
	"bytes"
	"fmt"
	"math/rand"
	"os"
	"sort"
	"strconv"
	"strings"
	"sync"
	"testing"

	"github.com/quickfixgo/quickfix"
	"github.com/quickfixgo/quickfix/datadictionary"
	"pgregory.net/rapid"

	"verif/fixwire"
	"verif/specxml"
	"verif/stats"
	"verif/vk"
)

const c13Rule = "(a) rapid: free group templates (depth<=3, 1-6 members, optional members absent, 0-4 entries) placed first/middle/last among body tags, written with SetGroup+build (a quarter of them set a first time with another population, optionally serialised, then replaced), parsed without dictionary and with a dictionary written for the template (transport dictionary: none / the same / one that lists further header fields); (b) enumeration of (dictionary, message, group path) over all shipped dictionaries, 3 population variants x {API-written, spec-order wire, wire in a generated body order} x {with defining dictionary, without}, the dictionary object having parsed a sibling message (another message type with a group under the same tag) first, templates built as generated message code builds them (nested groups as structs embedding *RepeatingGroup); non-trivial = >=2 entries or a nested group, and >=1 body field after the group; distinct = distinct message bytes"

func c13() *stats.Collector {
	c := stats.Get("C13")
	c.SetRule(c13Rule)
	return c
}

// ---------------------------------------------------------------- (a) free templates

func genFreeTemplate(t *rapid.T, depth int, next *int) *mTmpl {
	n := rapid.IntRange(1, 6).Draw(t, "members")
	tm := &mTmpl{}
	for i := 0; i < n; i++ {
		tag := *next
		*next += rapid.IntRange(1, 3).Draw(t, "gap")
		if i > 0 && depth < 3 && rapid.IntRange(0, 3).Draw(t, "nest") == 0 {
			tm.members = append(tm.members, mMember{tag: tag, nested: genFreeTemplate(t, depth+1, next)})
		} else {
			tm.members = append(tm.members, mMember{tag: tag})
		}
	}
	// template order need not be tag order
	if rapid.Bool().Draw(t, "shuffle") && len(tm.members) > 2 {
		rest := tm.members[1:]
		perm := rapid.Permutation(rest).Draw(t, "perm")
		copy(rest, perm)
	}
	return tm
}

func genFreeGroup(t *rapid.T, tag int, tm *mTmpl) *mGroup {
	g := &mGroup{tag: tag, tmpl: tm}
	n := rapid.IntRange(0, 4).Draw(t, "entries")
	for i := 0; i < n; i++ {
		e := &mEntry{vals: map[int][]byte{}, groups: map[int]*mGroup{}}
		for j, m := range tm.members {
			if j > 0 && rapid.IntRange(0, 2).Draw(t, "absent") == 0 {
				continue
			}
			if m.nested == nil {
				e.vals[m.tag] = []byte(rapid.StringMatching(`[A-Za-z0-9=]{0,6}`).Draw(t, "gv"))
			} else {
				e.groups[m.tag] = genFreeGroup(t, m.tag, m.nested)
			}
		}
		g.entries = append(g.entries, e)
	}
	return g
}

// leafMembers lists the non-group members of a template tree, except each group's delimiter.
func leafMembers(tm *mTmpl, acc []*mMember) []*mMember {
	for i := range tm.members {
		if tm.members[i].nested != nil {
			acc = leafMembers(tm.members[i].nested, acc)
		} else if i > 0 {
			acc = append(acc, &tm.members[i])
		}
	}
	return acc
}

func groupShape(g *mGroup) (entries int, nested bool) {
	entries = len(g.entries)
	for _, e := range g.entries {
		if len(e.groups) > 0 {
			nested = true
		}
	}
	return
}

func c13FreeProperty(t *rapid.T) {
	c := c13()
	// the group's tags live in [base, base+200); other body tags below and above
	base := rapid.SampledFrom([]int{600, 6000, 20000}).Draw(t, "base")
	next := base + 1
	tm := genFreeTemplate(t, 1, &next)
	// a counterparty's custom group may carry a tag from the standard header range as a member (an
	// on-behalf-of or deliver-to id per entry): only the dictionary that defines the group can tell
	// such a member from a header field, so these cases are checked in the with-dictionary half only
	hdrMember := false
	if rapid.IntRange(0, 5).Draw(t, "header-range-member") == 0 {
		leaves := leafMembers(tm, nil)
		hdrTags := rapid.Permutation([]int{115, 128, 50, 57, 116, 129, 142, 143, 144, 145}).Draw(t, "header-range-tags")
		n := rapid.IntRange(1, 2).Draw(t, "header-range-count")
		for i := 0; i < n && i < len(leaves); i++ {
			leaves[rapid.IntRange(0, len(leaves)-1).Draw(t, "leaf")].tag = hdrTags[i]
		}
		hdrMember = true
		c.Class("free:member-tag-from-header-range")
	}
	g := genFreeGroup(t, base, tm)
	// templates as generated message code builds them: nested groups as structs embedding *RepeatingGroup
	wrapNestedItems = rapid.IntRange(0, 2).Draw(t, "template-items-as-generated-code-wraps-them") == 0
	defer func() { wrapNestedItems = false }()
	if wrapNestedItems {
		c.Class("free:nested-template-items-wrapped")
	}
	groupFill.order = rapid.IntRange(0, 2).Draw(t, "group-fill-order")
	groupFill.reuse = rapid.Bool().Draw(t, "group-entry-reused")
	defer func() { groupFill.order, groupFill.reuse = 0, false }()
	if groupFill.reuse {
		c.Class("free:entry-object-reused")
	}
	if groupFill.order != 0 {
		c.Class("free:members-set-out-of-template-order")
	}
	nBefore := rapid.IntRange(0, 3).Draw(t, "before")
	nAfter := rapid.IntRange(0, 3).Draw(t, "after")
	m := quickfix.NewMessage()
	m.Header.SetString(8, "FIX.4.4")
	m.Header.SetString(35, "D")
	m.Header.SetString(49, "S")
	m.Header.SetString(56, "T")
	others := map[int]string{}
	for i := 0; i < nBefore; i++ {
		tag := rapid.IntRange(11, 500).Filter(fixwire.IsBodyTag).Draw(t, "tb")
		others[tag] = rapid.StringMatching(`[a-z]{1,4}`).Draw(t, "vb")
	}
	after := map[int]string{}
	for i := 0; i < nAfter; i++ {
		tag := rapid.IntRange(next+1, next+5000).Filter(fixwire.IsBodyTag).Draw(t, "ta")
		after[tag] = rapid.StringMatching(`[a-z]{1,4}`).Draw(t, "va")
	}
	for k, v := range others {
		m.Body.SetString(quickfix.Tag(k), v)
	}
	for k, v := range after {
		m.Body.SetString(quickfix.Tag(k), v)
	}
	if rapid.IntRange(0, 3).Draw(t, "written-twice") == 0 {
		// the group is set once with another population (and possibly serialised) before the final one replaces it
		m.Body.SetGroup(genFreeGroup(t, base, tm).qf())
		if rapid.Bool().Draw(t, "built-in-between") {
			_ = m.String()
		}
		c.Class("free:group-replaced-before-writing")
	}
	gq := g.qf()
	m.Body.SetGroup(gq)
	if rapid.IntRange(0, 3).Draw(t, "group-object-goes-on-to-another-message") == 0 {
		// the caller keeps the group object, changes it and puts it into the next message before
		// this one is serialised: this message holds what the group was when it was set
		for i := 0; i < gq.Len(); i++ {
			for _, mm := range tm.members {
				if mm.nested == nil && gq.Get(i).Has(quickfix.Tag(mm.tag)) {
					gq.Get(i).SetString(quickfix.Tag(mm.tag), rapid.StringMatching(`[A-Z]{0,6}`).Draw(t, "later-value"))
				}
			}
		}
		if rapid.Bool().Draw(t, "entry-added-later") {
			gq.Add().SetString(quickfix.Tag(tm.members[0].tag), "later")
		}
		next := quickfix.NewMessage()
		next.Header.SetString(8, "FIX.4.4")
		next.Header.SetString(35, "D")
		next.Body.SetGroup(gq)
		_ = next.String()
		c.Class("free:group-object-reused-for-the-next-message")
	}
	raw := []byte(m.String())
	c.Eval()
	pos := "middle"
	switch {
	case nBefore == 0 && nAfter == 0:
		pos = "only"
	case nBefore == 0:
		pos = "first"
	case nAfter == 0:
		pos = "last"
	}
	c.Class("free:position-" + pos)
	entries, nested := groupShape(g)
	if nested {
		c.Class("free:nested")
	}
	if entries == 0 {
		c.Class("free:zero-entries")
	}
	if hdrMember {
		c13FreeWithDictionary(t, c, tm, g, others, after, raw)
		return
	}
	p := quickfix.NewMessage()
	if err := quickfix.ParseMessage(p, bytes.NewBuffer(raw)); err != nil {
		vk.Violation(t, c, "C13/free/parse-error", "%v for %s", err, vk.Show(raw))
	}
	rg := quickfix.NewRepeatingGroup(quickfix.Tag(g.tag), tm.qf())
	if err := p.Body.GetGroup(rg); err != nil {
		vk.Violation(t, c, "C13/free/getgroup-error", "%v for %s", err, vk.Show(raw))
	}
	if err := compareGroup(rg, g); err != nil {
		vk.Violation(t, c, "C13/free/group-differs", "%v in %s", err, vk.Show(raw))
	}
	// the same template object used again (callers keep one template per message type): the nested
	// group objects inside it are first used as readers themselves, then the whole group is read
	// through the template a second time - what an earlier read left in the template's items
	// must not show up
	if nested && rapid.Bool().Draw(t, "template-object-reused") {
		shared := tm.qf()
		first := quickfix.NewRepeatingGroup(quickfix.Tag(g.tag), shared)
		if err := p.Body.GetGroup(first); err == nil {
			for i := 0; i < first.Len(); i++ {
				for _, item := range shared {
					if ng, ok := item.(*quickfix.RepeatingGroup); ok && first.Get(i).Has(ng.Tag()) {
						_ = first.Get(i).GetGroup(ng) // the template's own nested object now holds entries
					}
				}
			}
		}
		again := quickfix.NewRepeatingGroup(quickfix.Tag(g.tag), shared)
		if err := p.Body.GetGroup(again); err != nil {
			vk.Violation(t, c, "C13/free/getgroup-error/template-reused", "%v for %s", err, vk.Show(raw))
		}
		if err := compareGroup(again, g); err != nil {
			vk.Violation(t, c, "C13/free/group-differs/template-reused", "%v in %s", err, vk.Show(raw))
		}
		c.Class("free:template-object-reused")
	}
	for k, v := range after {
		got, err := p.Body.GetString(quickfix.Tag(k))
		if err != nil || got != v {
			vk.Violation(t, c, "C13/free/field-after-group-lost", "tag %d: %q err %v want %q in %s", k, got, err, v, vk.Show(raw))
		}
	}
	// read - amend - write back: the group read from the parsed message gets one more entry and is
	// set into a message again (an application adding an allocation to an order it received); what
	// is then written is the old entries plus the new one, nothing else
	if entries > 0 && rapid.IntRange(0, 2).Draw(t, "read-amend-write") == 0 {
		amended := quickfix.NewRepeatingGroup(quickfix.Tag(g.tag), tm.qf())
		if err := p.Body.GetGroup(amended); err == nil {
			extra := &mEntry{vals: map[int][]byte{tm.members[0].tag: []byte("added")}, groups: map[int]*mGroup{}}
			if tm.members[0].nested == nil {
				amended.Add().SetBytes(quickfix.Tag(tm.members[0].tag), extra.vals[tm.members[0].tag])
				want := &mGroup{tag: g.tag, tmpl: tm, entries: append(append([]*mEntry{}, g.entries...), extra)}
				out := quickfix.NewMessage()
				out.Header.SetString(8, "FIX.4.4")
				out.Header.SetString(35, "D")
				out.Body.SetGroup(amended)
				for k, v := range after {
					out.Body.SetString(quickfix.Tag(k), v)
				}
				raw2 := []byte(out.String())
				p2 := quickfix.NewMessage()
				if err := quickfix.ParseMessage(p2, bytes.NewBuffer(raw2)); err != nil {
					vk.Violation(t, c, "C13/free/amended/parse-error", "%v for %s (amended from %s)", err, vk.Show(raw2), vk.Show(raw))
				}
				back := quickfix.NewRepeatingGroup(quickfix.Tag(g.tag), tm.qf())
				if err := p2.Body.GetGroup(back); err != nil {
					vk.Violation(t, c, "C13/free/amended/getgroup-error", "%v for %s (amended from %s)", err, vk.Show(raw2), vk.Show(raw))
				}
				if err := compareGroup(back, want); err != nil {
					vk.Violation(t, c, "C13/free/amended/group-differs", "%v in %s (amended from %s)", err, vk.Show(raw2), vk.Show(raw))
				}
				if fs, err := fixwire.Scan(raw2, nil); err == nil {
					if got, wantN := len(fs), 4+len(want.flatten())+len(after); got != wantN {
						vk.Violation(t, c, "C13/free/amended/field-count", "%d fields on the wire, the amended group and the %d other fields make %d: %s (amended from %s)", got, len(after), wantN, vk.Show(raw2), vk.Show(raw))
					}
				}
				c.Class("free:read-amend-write")
			}
		}
	}
	c13FreeWithDictionary(t, c, tm, g, others, after, raw)
	for k, v := range others {
		got, err := p.Body.GetString(quickfix.Tag(k))
		if err != nil || got != v {
			vk.Violation(t, c, "C13/free/field-before-group-lost", "tag %d: %q err %v want %q in %s", k, got, err, v, vk.Show(raw))
		}
	}
	if (entries >= 2 || nested) && nAfter > 0 {
		c.NonTrivial(stats.Hash(raw))
		c.SampleClass("free/"+pos, vk.Show(raw))
	}
}

// freeDictionary is the application dictionary a user would write for the generated template: one
// message type whose body has the plain fields and the group, nested groups included.
func freeDictionary(groupTag int, tm *mTmpl, plain []int, headerExtra []int) string {
	fields := map[int]string{8: "STRING", 9: "LENGTH", 35: "STRING", 49: "STRING", 56: "STRING", 10: "STRING"}
	var body strings.Builder
	for _, tag := range plain {
		fields[tag] = "STRING"
		fmt.Fprintf(&body, "<field name='F%d' required='N'/>", tag)
	}
	var grp func(tag int, tm *mTmpl)
	grp = func(tag int, tm *mTmpl) {
		fields[tag] = "NUMINGROUP"
		fmt.Fprintf(&body, "<group name='F%d' required='N'>", tag)
		for _, m := range tm.members {
			if m.nested != nil {
				grp(m.tag, m.nested)
			} else {
				fields[m.tag] = "STRING"
				fmt.Fprintf(&body, "<field name='F%d' required='N'/>", m.tag)
			}
		}
		body.WriteString("</group>")
	}
	grp(groupTag, tm)
	var hdr strings.Builder
	for _, tag := range []int{8, 9, 35, 49, 56} {
		fmt.Fprintf(&hdr, "<field name='F%d' required='Y'/>", tag)
	}
	for _, tag := range headerExtra {
		fields[tag] = "STRING"
		fmt.Fprintf(&hdr, "<field name='F%d' required='N'/>", tag)
	}
	var fl strings.Builder
	tags := make([]int, 0, len(fields))
	for tag := range fields {
		tags = append(tags, tag)
	}
	sort.Ints(tags)
	for _, tag := range tags {
		fmt.Fprintf(&fl, "<field number='%d' name='F%d' type='%s'/>", tag, tag, fields[tag])
	}
	return "<fix type='FIX' major='4' minor='4' servicepack='0'><header>" + hdr.String() + "</header><trailer><field name='F10' required='Y'/></trailer>" +
		"<messages><message name='Gen' msgtype='D' msgcat='app'>" + body.String() + "</message></messages><components/>" +
		"<fields>" + fl.String() + "</fields></fix>"
}

// c13FreeWithDictionary is the other half of the statement for generated templates: the same bytes
// parsed with the dictionary that defines the group (written for the template, as a counterparty's
// custom dictionary would be), read back through the same template.
func c13FreeWithDictionary(t *rapid.T, c *stats.Collector, tm *mTmpl, g *mGroup, others, after map[int]string, raw []byte) {
	var plain []int
	for k := range others {
		plain = append(plain, k)
	}
	for k := range after {
		plain = append(plain, k)
	}
	sort.Ints(plain)
	transport := rapid.SampledFrom([]string{"none", "same", "with-unused-header-fields"}).Draw(t, "transport-dictionary")
	var extra []int
	if transport == "with-unused-header-fields" {
		extra = []int{115, 128, 50, 57}
	}
	text := freeDictionary(g.tag, tm, plain, extra)
	dd, err := datadictionary.ParseSrc(strings.NewReader(text))
	if err != nil {
		t.Fatalf("harness: generated dictionary does not load: %v\n%s", err, text)
	}
	var tdd *datadictionary.DataDictionary
	if transport != "none" {
		tdd = dd
	}
	c.Class("free:dictionary-parse/transport-" + transport)
	p := quickfix.NewMessage()
	if err := quickfix.ParseMessageWithDataDictionary(p, bytes.NewBuffer(raw), tdd, dd); err != nil {
		vk.Violation(t, c, "C13/free-dict/parse-error", "%v for %s (transport dictionary %s)", err, vk.Show(raw), transport)
	}
	rg := quickfix.NewRepeatingGroup(quickfix.Tag(g.tag), tm.qf())
	if err := p.Body.GetGroup(rg); err != nil {
		vk.Violation(t, c, "C13/free-dict/getgroup-error", "%v for %s (transport dictionary %s)", err, vk.Show(raw), transport)
	}
	if err := compareGroup(rg, g); err != nil {
		vk.Violation(t, c, "C13/free-dict/group-differs", "%v in %s (transport dictionary %s)", err, vk.Show(raw), transport)
	}
	for _, set := range []map[int]string{others, after} {
		for k, v := range set {
			got, err := p.Body.GetString(quickfix.Tag(k))
			if err != nil || got != v {
				vk.Violation(t, c, "C13/free-dict/field-outside-group-lost", "tag %d: %q err %v want %q in %s", k, got, err, v, vk.Show(raw))
			}
		}
	}
}

func TestC13_RapidFree(t *testing.T) {
	rapid.Check(t, func(t *rapid.T) {
		vk.Guard(func() { c13FreeProperty(t) })
	})
}

// ---------------------------------------------------------------- (b) every dictionary group

type randChooser struct{ r *rand.Rand }

func (c randChooser) Intn(n int) int {
	if n <= 1 {
		return 0
	}
	return c.r.Intn(n)
}

type c13pair struct {
	dict string
	gp   specxml.GroupPath
}

func allPairs(t fataler) []c13pair {
	var out []c13pair
	d := dicts(t)
	for _, n := range dictNames {
		gps, err := d[n].spec.AllGroups()
		if err != nil {
			t.Fatalf("%v", err)
		}
		for _, gp := range gps {
			out = append(out, c13pair{n, gp})
		}
	}
	return out
}

// c13Siblings: for a dictionary and a top-level group tag, the pairs of other messages that define a
// group under the same tag (the same NumInGroup field used by several message types, usually with
// different members): a session parses all of them through one dictionary object.
var (
	c13SibOnce sync.Once
	c13Sib     map[string][]c13pair
)

func c13Siblings(t fataler, pr c13pair) []c13pair {
	c13SibOnce.Do(func() {
		c13Sib = map[string][]c13pair{}
		for _, p := range allPairs(t) {
			if len(p.gp.Path) == 1 {
				k := p.dict + "/" + strconv.Itoa(p.gp.Path[0])
				c13Sib[k] = append(c13Sib[k], p)
			}
		}
	})
	var out []c13pair
	for _, p := range c13Sib[pr.dict+"/"+strconv.Itoa(pr.gp.Path[0])] {
		if p.gp.Msg.MsgType != pr.gp.Msg.MsgType {
			out = append(out, p)
		}
	}
	return out
}

// c13Generate populates the message of a pair (the group path forced present) from the spec tree.
func c13Generate(t fataler, pr c13pair, variant int, seed int64, extraForce map[int]bool) (items []*specxml.Item, head []fixwire.Field, begin string, transport *datadictionary.DataDictionary) {
	d := dicts(t)
	dp := d[pr.dict]
	members, err := dp.spec.Expand(pr.gp.Msg.Members, true)
	if err != nil {
		t.Fatalf("%v", err)
	}
	force := map[int]bool{}
	for _, tg := range pr.gp.Path {
		force[tg] = true
	}
	for tg := range extraForce {
		force[tg] = true
	}
	ch := randChooser{rand.New(rand.NewSource(seed))}
	opts := specxml.GenOpts{OptionalOneIn: []int{3, 2, 6}[variant%3], MaxEntries: 3, MaxDepth: 4, ForceTags: force}
	items = dp.spec.GenMembers(ch, members, opts, 0, false)
	begin = dp.spec.BeginString()
	if strings.HasPrefix(pr.dict, "FIX50") {
		transport = d["FIXT11"].dd
		begin = "FIXT.1.1"
	}
	head = []fixwire.Field{fixwire.F(35, pr.gp.Msg.MsgType), fixwire.F(49, "S"), fixwire.F(56, "T"), fixwire.F(34, "7"), fixwire.F(52, "20240102-03:04:05")}
	return
}

func qfGroupFromItem(it *specxml.Item) *quickfix.RepeatingGroup {
	rg := quickfix.NewRepeatingGroup(quickfix.Tag(it.Tag), qfTemplate(it.Def.Members))
	for _, e := range it.Entries {
		qe := rg.Add()
		for _, x := range e {
			if x.IsGroup {
				qe.SetGroup(qfGroupFromItem(x))
			} else {
				qe.SetString(quickfix.Tag(x.Tag), x.Value)
			}
		}
	}
	return rg
}

func tagsInTree(it *specxml.Item, set map[int]bool) {
	for _, e := range it.Entries {
		for _, x := range e {
			set[x.Tag] = true
			if x.IsGroup {
				tagsInTree(x, set)
			}
		}
	}
}

func itemShape(it *specxml.Item) (entries int, nested bool) {
	entries = len(it.Entries)
	for _, e := range it.Entries {
		for _, x := range e {
			if x.IsGroup {
				nested = true
			}
		}
	}
	return
}

// checkDictGroup runs one (pair, variant, seed) case; returns the message bytes.
func checkDictGroup(t fataler, pr c13pair, variant int, seed int64) {
	c := c13()
	d := dicts(t)
	dp := d[pr.dict]
	// tags that are members of the group under the same tag in another message type: when this
	// message has one of them as a plain body field, it is the interesting neighbour for the group
	siblings := c13Siblings(t, pr)
	foreignMembers := map[int]bool{}
	for _, sib := range siblings {
		specxml.DefTags(sib.gp.Def, foreignMembers)
	}
	own := map[int]bool{}
	specxml.DefTags(pr.gp.Def, own)
	extra := map[int]bool{}
	if topMembers, err := dp.spec.Expand(pr.gp.Msg.Members, true); err == nil {
		for _, m := range topMembers {
			if !m.IsGroup && foreignMembers[m.Tag] && !own[m.Tag] {
				extra[m.Tag] = true
			}
		}
	}
	items, head, begin, transport := c13Generate(t, pr, variant, seed, extra)
	wrapNestedItems = (seed+int64(variant))%3 == 0
	defer func() { wrapNestedItems = false }()
	if wrapNestedItems && len(pr.gp.Path) > 1 {
		c.Class("dict:nested-template-items-wrapped")
	}
	// two writers: spec-order wire (fixwire) and the quickfix API
	rest := append([]fixwire.Field{}, head...)
	for _, f := range specxml.Flatten(items) {
		rest = append(rest, fixwire.F(f.Tag, f.Value))
	}
	wire := fixwire.Build(begin, rest)
	api := quickfix.NewMessage()
	api.Header.SetString(8, begin)
	for _, f := range head {
		api.Header.SetString(quickfix.Tag(f.Tag), string(f.Value))
	}
	for _, it := range items {
		if it.IsGroup {
			api.Body.SetGroup(qfGroupFromItem(it))
			if len(wire)%4 == 0 {
				// set again (a caller amending the message before sending): the last call wins, once
				api.Body.SetGroup(qfGroupFromItem(it))
			}
		} else {
			api.Body.SetString(quickfix.Tag(it.Tag), it.Value)
		}
	}
	apiBytes := []byte(api.String())
	// third writer: body order is free in FIX - the top-level items in a generated order, with a
	// field that is a group member in a sibling message (if this message has one) right behind the group
	shuffled := append([]*specxml.Item(nil), items...)
	rnd := rand.New(rand.NewSource(seed ^ 0x5bd1e995))
	rnd.Shuffle(len(shuffled), func(i, j int) { shuffled[i], shuffled[j] = shuffled[j], shuffled[i] })
	if len(extra) > 0 {
		var neighbour *specxml.Item
		var rest2 []*specxml.Item
		for _, it := range shuffled {
			if neighbour == nil && !it.IsGroup && extra[it.Tag] {
				neighbour = it
				continue
			}
			rest2 = append(rest2, it)
		}
		if neighbour != nil {
			shuffled = nil
			for _, it := range rest2 {
				shuffled = append(shuffled, it)
				if it.IsGroup && it.Tag == pr.gp.Path[0] {
					shuffled = append(shuffled, neighbour)
				}
			}
			c.Class("dict:field-behind-the-group-is-a-member-of-it-in-another-message")
		}
	}
	restS := append([]fixwire.Field{}, head...)
	for _, f := range specxml.Flatten(shuffled) {
		restS = append(restS, fixwire.F(f.Tag, f.Value))
	}
	wireShuffled := fixwire.Build(begin, restS)
	order := map[string][]*specxml.Item{"wire": items, "wire-shuffled": shuffled}
	// the dictionary object has already been used for another message type that has a group under the
	// same tag (a session parses every message type through one dictionary object)
	if len(siblings) > 0 {
		sib := siblings[int(uint64(seed)%uint64(len(siblings)))]
		// (with every nested group of that sibling group present, so that the parser has seen them)
		nestedTags := map[int]bool{}
		var walk func(m *specxml.Member)
		walk = func(m *specxml.Member) {
			for _, x := range m.Members {
				if x.IsGroup {
					nestedTags[x.Tag] = true
					walk(x)
				}
			}
		}
		walk(sib.gp.Def)
		sItems, sHead, sBegin, sTransport := c13Generate(t, sib, variant, seed+1, nestedTags)
		sRest := append([]fixwire.Field{}, sHead...)
		for _, f := range specxml.Flatten(sItems) {
			sRest = append(sRest, fixwire.F(f.Tag, f.Value))
		}
		warm := quickfix.NewMessage()
		_ = catch(func() {
			_ = quickfix.ParseMessageWithDataDictionary(warm, bytes.NewBuffer(fixwire.Build(sBegin, sRest)), sTransport, dp.dd)
		})
		c.Class("dict:dictionary-object-used-for-a-sibling-message-first")
	}

	for _, w := range []struct {
		name string
		raw  []byte
	}{{"wire", wire}, {"api", apiBytes}, {"wire-shuffled", wireShuffled}} {
		for _, withDict := range []bool{true, false} {
			c.Eval()
			mode := w.name + "/nodict"
			var tdd, add *datadictionary.DataDictionary
			if withDict {
				mode = w.name + "/dict"
				tdd, add = transport, dp.dd
			}
			c.Class("dict:" + mode)
			p := quickfix.NewMessage()
			var perr error
			if pan := catch(func() {
				perr = quickfix.ParseMessageWithDataDictionary(p, bytes.NewBuffer(append([]byte(nil), w.raw...)), tdd, add)
			}); pan != nil {
				c13fail(t, pr, variant, seed, "C13/dict/panic/"+mode, fmt.Sprintf("%v on %s", pan, vk.Show(w.raw)))
			}
			if perr != nil {
				c13fail(t, pr, variant, seed, "C13/dict/parse-error/"+mode, fmt.Sprintf("%v on %s", perr, vk.Show(w.raw)))
			}
			// every top-level group is read back through its template; the one under test decides non-triviality
			seenTarget := false
			for idx, it := range items {
				if !it.IsGroup {
					continue
				}
				rg := quickfix.NewRepeatingGroup(quickfix.Tag(it.Tag), qfTemplate(it.Def.Members))
				if err := p.Body.GetGroup(rg); err != nil {
					c13fail(t, pr, variant, seed, "C13/dict/getgroup-error/"+mode, fmt.Sprintf("group %d: %v in %s", it.Tag, err, vk.Show(w.raw)))
				}
				if err := compareItems(rg, it); err != nil {
					c13fail(t, pr, variant, seed, "C13/dict/group-differs/"+mode, fmt.Sprintf("%v in %s", err, vk.Show(w.raw)))
				}
				if it.Tag != pr.gp.Path[0] {
					continue
				}
				seenTarget = true
				inTree := map[int]bool{}
				tagsInTree(it, inTree)
				// fields following the group (in the generated order for the wire variant; by tag for the API variant)
				following := 0
				seq, pos := items, idx
				if o, ok := order[w.name]; ok {
					seq = o
					for k, x := range seq {
						if x == it {
							pos = k
						}
					}
				}
				for j, other := range seq {
					if other.IsGroup {
						continue
					}
					isAfter := j > pos
					if w.name == "api" {
						isAfter = other.Tag > it.Tag
					}
					if !isAfter || inTree[other.Tag] {
						continue
					}
					following++
					got, gerr := p.Body.GetString(quickfix.Tag(other.Tag))
					if gerr != nil {
						c13fail(t, pr, variant, seed, "C13/dict/field-after-group-lost/"+mode, fmt.Sprintf("tag %d after group %d not in the body of %s", other.Tag, it.Tag, vk.Show(w.raw)))
					}
					if got != other.Value {
						c13fail(t, pr, variant, seed, "C13/dict/field-after-group-value/"+mode, fmt.Sprintf("tag %d: %q want %q in %s", other.Tag, got, other.Value, vk.Show(w.raw)))
					}
				}
				entries, nested := itemShape(it)
				if nested {
					c.Class("dict:nested")
				}
				if following > 0 {
					c.Class("dict:with-following-fields")
				}
				if (entries >= 2 || nested) && following > 0 {
					c.NonTrivial(stats.Hash(w.raw, withDict))
					c.SampleClass("dict/"+pr.dict+"/"+mode, map[string]interface{}{"msgtype": pr.gp.Msg.MsgType, "path": pr.gp.Path, "message": clip(w.raw)})
				}
			}
			if !seenTarget {
				t.Fatalf("harness: forced group %v not generated for %s %s", pr.gp.Path, pr.dict, pr.gp.Msg.Name)
			}
		}
	}
}

func c13fail(t fataler, pr c13pair, variant int, seed int64, sig, detail string) {
	if !vk.IsKnownOpen("C13", sig) {
		path := make([]string, len(pr.gp.Path))
		for i, p := range pr.gp.Path {
			path[i] = strconv.Itoa(p)
		}
		saveReplayInput("TestReplay_C13_Pair", sig, fmt.Sprintf("%s\n%s\n%s\n%d\n%d\n", pr.dict, pr.gp.Msg.MsgType, strings.Join(path, ","), variant, seed))
	}
	vk.Violation(t, c13(), sig, "dict=%s msg=%s path=%v variant=%d seed=%d: %s", pr.dict, pr.gp.Msg.Name, pr.gp.Path, variant, seed, detail)
}

func TestC13_DictGroups(t *testing.T) {
	pairs := allPairs(t)
	shard, shards := vk.Shard()
	c := c13()
	variants := 3
	stride := 1
	// (both tiers: every pair, all three population variants; the populations depend on VERIF_SEED)
	offset := int(vk.Seed() % int64(stride))
	n := 0
	for i, pr := range pairs {
		if i%shards != shard {
			continue
		}
		if (i/shards)%stride != offset%stride {
			continue
		}
		for v := 0; v < variants; v++ {
			seed := vk.Seed()*1000003 + int64(i)*31 + int64(v)
			vk.Guard(func() { checkDictGroup(t, pr, v, seed) })
			n++
		}
	}
	c.ClassN("dict:pairs-total", 0)
	c.SetExtra("dictionary_group_pairs_total", len(pairs))
	c.SetExhaustive(fmt.Sprintf("(dictionary, message, group path) pairs: %d in all shipped dictionaries, 3 population variants each", len(pairs)), true)
}

// TestReplay_C13_Pair re-runs one saved (dictionary, message type, path, variant, seed).
func TestReplay_C13_Pair(t *testing.T) {
	p := os.Getenv("VERIF_REPLAY")
	if p == "" {
		t.Skip("no VERIF_REPLAY")
	}
	b, err := os.ReadFile(p)
	if err != nil {
		t.Fatal(err)
	}
	l := strings.Split(strings.TrimSpace(string(b)), "\n")
	if len(l) < 5 {
		t.Fatal("bad replay file")
	}
	variant, _ := strconv.Atoi(l[3])
	seed, _ := strconv.ParseInt(l[4], 10, 64)
	for _, pr := range allPairs(t) {
		var path []string
		for _, x := range pr.gp.Path {
			path = append(path, strconv.Itoa(x))
		}
		if pr.dict == l[0] && pr.gp.Msg.MsgType == l[1] && strings.Join(path, ",") == l[2] {
			vk.Guard(func() { checkDictGroup(t, pr, variant, seed) })
			return
		}
	}
	t.Fatalf("pair not found: %v", l)
}

// TestReplay_C13_AmendedFixed: regression for the defect repaired by /repo ea148f6 - a group that
// was read (from a built or a parsed message), given one more entry and set into a message again is
// written with every member once.
func TestReplay_C13_AmendedFixed(t *testing.T) {
	c := c13()
	vk.Guard(func() {
		tmpl := func() quickfix.GroupTemplate {
			return quickfix.GroupTemplate{quickfix.GroupElement(79), quickfix.GroupElement(80)}
		}
		m := quickfix.NewMessage()
		m.Header.SetString(8, "FIX.4.4")
		m.Header.SetString(35, "J")
		g := quickfix.NewRepeatingGroup(78, tmpl())
		g.Add().SetString(79, "ACC1").SetString(80, "60")
		m.Body.SetGroup(g)
		m.Body.SetString(100, "XNAS")
		for _, viaWire := range []bool{false, true} {
			src := m
			if viaWire {
				src = quickfix.NewMessage()
				if err := quickfix.ParseMessage(src, bytes.NewBufferString(m.String())); err != nil {
					t.Fatalf("harness: %v", err)
				}
			}
			rg := quickfix.NewRepeatingGroup(78, tmpl())
			if err := src.Body.GetGroup(rg); err != nil {
				t.Fatalf("harness: %v", err)
			}
			rg.Add().SetString(79, "ACC2").SetString(80, "40")
			out := quickfix.NewMessage()
			out.Header.SetString(8, "FIX.4.4")
			out.Header.SetString(35, "J")
			out.Body.SetGroup(rg)
			raw := []byte(out.String())
			want := "78=2\x0179=ACC1\x0180=60\x0179=ACC2\x0180=40\x01"
			if fs, err := fixwire.Scan(raw, nil); err != nil || len(fs) != 9 || !bytes.Contains(raw, []byte(want)) {
				vk.Violation(t, c, "C13/free/amended/field-count", "read (via the wire: %v), one entry added, written: %s", viaWire, vk.Show(raw))
			}
		}
	})
}

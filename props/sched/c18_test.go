package sched

// C18 - session schedules classify instants by the configured windows.
// Oracle: explicit enumeration of the windows on the local calendar of the configured zone
// (DESIGN.md Appendix E), written from the statement; nothing is shared with internal/time_range.go.

import (
	"fmt"
	"os"
	"strings"
	"testing"
	"time"
	_ "time/tzdata"

	"github.com/quickfixgo/quickfix"
	"github.com/quickfixgo/quickfix/config"
	"pgregory.net/rapid"

	"verif/stats"
	"verif/vk"
)

const c18Rule = "configurations (daily start/end incl. overnight, equal and midnight times, all weekday subsets written in any order, with long or short day names and days named more than once; weekly start/end day pairs; five zones incl. DST and a 30-minute-shift zone) built through the constructors and through session settings; instants on grids and rapid-drawn, pairs at offsets of minutes, hours, days, a week; instants within 2 s of a window edge and windows whose edge falls into a zone transition hour are excluded and counted; non-trivial = configuration with an overnight / weekly wrap-around window or a weekday subset, evaluated at an instant whose verdict differs from the plain start<=clock<=end test; distinct = distinct (configuration, instant[s])"

func c18() *stats.Collector {
	c := stats.Get("C18")
	c.SetRule(c18Rule)
	return c
}

// weekdaysText is the Weekdays setting: as drawn, or the plain long names in list order.
func (c schedCfg) weekdaysText() string {
	if len(c.dayTexts) > 0 {
		return strings.Join(c.dayTexts, ",")
	}
	var l []string
	for _, d := range c.days {
		l = append(l, d.String())
	}
	return strings.Join(l, ",")
}

func (c schedCfg) dayNames() (string, string) {
	if c.startDayText != "" {
		return c.startDayText, c.endDayText
	}
	return c.startDay.String(), c.endDay.String()
}

type schedCfg struct {
	weekly           bool
	s, e             int // seconds since local midnight
	days             []time.Weekday
	dayTexts         []string // the Weekdays setting as the operator wrote it: long or short names, a day possibly named more than once
	dayRepeated      bool
	startDayText     string   // StartDay / EndDay as written (long or short name)
	endDayText       string
	startDay, endDay time.Weekday
	loc              *time.Location
}

func (c schedCfg) String() string {
	if c.weekly {
		return fmt.Sprintf("weekly %v %s - %v %s %s", c.startDay, hms(c.s), c.endDay, hms(c.e), c.loc)
	}
	return fmt.Sprintf("daily %s-%s days=%v %s", hms(c.s), hms(c.e), c.days, c.loc)
}

func hms(s int) string { return fmt.Sprintf("%02d:%02d:%02d", s/3600, s/60%60, s%60) }

type civil struct{ y, m, d int }

func civilOf(t time.Time) civil { y, m, d := t.Date(); return civil{y, int(m), d} }
func (c civil) add(days int) civil {
	t := time.Date(c.y, time.Month(c.m), c.d+days, 12, 0, 0, 0, time.UTC)
	return civilOf(t)
}
func (c civil) weekday() time.Weekday {
	return time.Date(c.y, time.Month(c.m), c.d, 12, 0, 0, 0, time.UTC).Weekday()
}
func (c civil) cmp(o civil) int {
	switch {
	case c.y != o.y:
		return sign(c.y - o.y)
	case c.m != o.m:
		return sign(c.m - o.m)
	}
	return sign(c.d - o.d)
}
func sign(x int) int {
	if x < 0 {
		return -1
	}
	if x > 0 {
		return 1
	}
	return 0
}

type wallPoint struct {
	day   civil
	clock int
}

func (a wallPoint) leq(b wallPoint) bool {
	if c := a.day.cmp(b.day); c != 0 {
		return c < 0
	}
	return a.clock <= b.clock
}

type window struct {
	open, close wallPoint
}

func (c schedCfg) hasDay(d time.Weekday) bool {
	if len(c.days) == 0 {
		return true
	}
	for _, x := range c.days {
		if x == d {
			return true
		}
	}
	return false
}

// windowsNear lists every window that could contain an instant whose local date is day.
func (c schedCfg) windowsNear(day civil) []window {
	var out []window
	if !c.weekly {
		for _, D := range []civil{day.add(-1), day} {
			if !c.hasDay(D.weekday()) {
				continue
			}
			w := window{open: wallPoint{D, c.s}}
			if c.s < c.e {
				w.close = wallPoint{D, c.e}
			} else {
				w.close = wallPoint{D.add(1), c.e}
			}
			out = append(out, w)
		}
		return out
	}
	// weekly: the opening dates on or before day, two weeks back
	back := (int(day.weekday()) - int(c.startDay) + 7) % 7
	for _, D := range []civil{day.add(-back - 7), day.add(-back)} {
		span := (int(c.endDay) - int(c.startDay) + 7) % 7
		if span == 0 && c.e <= c.s {
			span = 7
		}
		out = append(out, window{open: wallPoint{D, c.s}, close: wallPoint{D.add(span), c.e}})
	}
	return out
}

// locate returns the windows containing t (by local wall clock).
func (c schedCfg) locate(t time.Time) []window {
	lt := t.In(c.loc)
	h, m, s := lt.Clock()
	p := wallPoint{civilOf(lt), h*3600 + m*60 + s}
	var in []window
	for _, w := range c.windowsNear(p.day) {
		if w.open.leq(p) && p.leq(w.close) {
			in = append(in, w)
		}
	}
	return in
}

// nearEdge: local clock within 2 s of the start or end clock value (edges of every window).
func (c schedCfg) nearEdge(t time.Time) bool {
	lt := t.In(c.loc)
	h, m, s := lt.Clock()
	clk := h*3600 + m*60 + s
	for _, e := range []int{c.s, c.e} {
		d := clk - e
		if d < 0 {
			d = -d
		}
		if d > 43200 {
			d = 86400 - d
		}
		if d <= 2 {
			return true
		}
	}
	return false
}

// cleanEdge: the wall-clock point exists exactly once (no zone transition within an hour of it).
func (c schedCfg) cleanEdge(p wallPoint) bool {
	t := time.Date(p.day.y, time.Month(p.day.m), p.day.d, p.clock/3600, p.clock/60%60, p.clock%60, 0, c.loc)
	h, m, s := t.Clock()
	if h*3600+m*60+s != p.clock {
		return false
	}
	_, off := t.Zone()
	for _, d := range []time.Duration{-90 * time.Minute, -time.Second, time.Second, 90 * time.Minute} {
		if _, o := t.Add(d).Zone(); o != off {
			return false
		}
	}
	return true
}

func (c schedCfg) cleanWindows(t time.Time) bool {
	lt := t.In(c.loc)
	for _, w := range c.windowsNear(civilOf(lt)) {
		if !c.cleanEdge(w.open) || !c.cleanEdge(w.close) {
			return false
		}
	}
	return true
}

// plainVerdict is the naive start<=clock<=end test (used only to classify non-trivial cases).
func (c schedCfg) plainVerdict(t time.Time) bool {
	lt := t.In(c.loc)
	h, m, s := lt.Clock()
	clk := h*3600 + m*60 + s
	return c.s <= clk && clk <= c.e
}

func (c schedCfg) build(viaSettings bool) (*quickfix.VerifTimeRange, error) {
	if !viaSettings {
		if c.weekly {
			return quickfix.VerifWeeklyRange(c.s/3600, c.s/60%60, c.s%60, c.e/3600, c.e/60%60, c.e%60, c.startDay, c.endDay, c.loc)
		}
		return quickfix.VerifDailyRange(c.s/3600, c.s/60%60, c.s%60, c.e/3600, c.e/60%60, c.e%60, c.days, c.loc)
	}
	ss := quickfix.NewSessionSettings()
	ss.Set(config.BeginString, "FIX.4.2")
	ss.Set(config.SenderCompID, "S")
	ss.Set(config.TargetCompID, "T")
	ss.Set(config.StartTime, hms(c.s))
	ss.Set(config.EndTime, hms(c.e))
	if c.loc != time.UTC {
		ss.Set(config.TimeZone, c.loc.String())
	}
	if c.weekly {
		sd, ed := c.dayNames()
		ss.Set(config.StartDay, sd)
		ss.Set(config.EndDay, ed)
	} else if len(c.days) > 0 {
		ss.Set(config.Weekdays, c.weekdaysText())
	}
	v, err := quickfix.VerifNewSession(quickfix.SessionID{BeginString: "FIX.4.2", SenderCompID: "S", TargetCompID: "T"},
		quickfix.NewMemoryStoreFactory(), ss, quickfix.NewNullLogFactory(), nil, false)
	if err != nil {
		return nil, err
	}
	defer v.Close()
	return v.SessionTime(), nil
}

var zoneNames = []string{"UTC", "America/New_York", "Europe/London", "Asia/Kolkata", "Australia/Lord_Howe"}
var zones []*time.Location

func init() {
	for _, n := range zoneNames {
		l, err := time.LoadLocation(n)
		if err != nil {
			panic(err)
		}
		zones = append(zones, l)
	}
}

var clockChoices = []int{0, 1, 3600, 7*3600 + 1800, 9 * 3600, 12 * 3600, 17*3600 + 59, 18 * 3600, 22*3600 + 30*60, 86399, 86398, 2*3600 + 30*60, 1*3600 + 30*60}

type c18ctx struct {
	t   vk.TB
	cfg schedCfg
	tr  *quickfix.VerifTimeRange
	via string
}

func (x *c18ctx) cfgClass() string {
	switch {
	case x.cfg.weekly:
		return "weekly"
	case x.cfg.s >= x.cfg.e && len(x.cfg.days) > 0:
		return "overnight+weekdays"
	case x.cfg.s >= x.cfg.e:
		return "overnight"
	case len(x.cfg.days) > 0:
		return "weekdays"
	}
	return "plain-daily"
}

// checkInstant compares IsInRange with the oracle; returns false if the instant was excluded.
func (x *c18ctx) checkInstant(t time.Time) bool {
	c := c18()
	c.Eval()
	if x.cfg.nearEdge(t) {
		c.Class("excluded:near-edge")
		return false
	}
	if !x.cfg.cleanWindows(t) {
		c.Class("excluded:edge-in-zone-transition")
		return false
	}
	want := len(x.cfg.locate(t)) > 0
	got := x.tr.IsInRange(t)
	if want != x.cfg.plainVerdict(t) && x.cfgClass() != "plain-daily" {
		c.NonTrivial(stats.Hash("in", x.cfg.String(), t.Unix()))
		c.Class("nontrivial:" + x.cfgClass())
		c.SampleClass("inrange/"+x.cfgClass(), map[string]interface{}{"config": x.cfg.String(), "instant": t.In(x.cfg.loc).Format("Mon 2006-01-02 15:04:05 MST"), "in_range": want})
	}
	if got != want {
		vk.Violation(x.t, c, "C18/in-range/"+x.sigClass(t, want), "config %s (%s): IsInRange(%s) = %v, windows say %v", x.cfg, x.via, t.In(x.cfg.loc).Format("Mon 2006-01-02 15:04:05 MST"), got, want)
	}
	return true
}

// sigClass describes where the failing instant sits relative to the windows.
func (x *c18ctx) sigClass(t time.Time, want bool) string {
	lt := t.In(x.cfg.loc)
	cls := x.cfgClass()
	if want {
		ws := x.cfg.locate(t)
		if len(ws) > 0 && ws[0].open.day.cmp(civilOf(lt)) != 0 {
			return cls + "/closed-after-midnight-opened-" + ws[0].open.day.weekday().String()
		}
		return cls + "/reported-closed"
	}
	return cls + "/reported-open"
}

func (x *c18ctx) checkPair(a, b time.Time) {
	c := c18()
	if !x.checkInstant(a) || !x.checkInstant(b) {
		return
	}
	c.Eval()
	wa, wb := x.cfg.locate(a), x.cfg.locate(b)
	want := len(wa) == 1 && len(wb) == 1 && wa[0] == wb[0]
	if len(wa) > 1 || len(wb) > 1 {
		c.Class("excluded:touching-windows")
		return
	}
	got := x.tr.IsInSameRange(a, b)
	rev := x.tr.IsInSameRange(b, a)
	c.Class(fmt.Sprintf("pair:same=%v", want))
	if len(wa) == 1 && len(wb) == 1 && !want {
		c.Class("pair:both-in-range-different-windows")
		c.NonTrivial(stats.Hash("pair", x.cfg.String(), a.Unix(), b.Unix()))
		c.SampleClass("pair-across-boundary/"+x.cfgClass(), map[string]interface{}{"config": x.cfg.String(), "a": a.In(x.cfg.loc).Format("Mon 2006-01-02 15:04:05"), "b": b.In(x.cfg.loc).Format("Mon 2006-01-02 15:04:05")})
	}
	desc := fmt.Sprintf("config %s (%s): a=%s b=%s", x.cfg, x.via, a.In(x.cfg.loc).Format("Mon 2006-01-02 15:04:05 MST"), b.In(x.cfg.loc).Format("Mon 2006-01-02 15:04:05 MST"))
	if got != rev {
		vk.Violation(x.t, c, "C18/same-range/not-symmetric/"+x.cfgClass(), "%s: (a,b)=%v (b,a)=%v", desc, got, rev)
	}
	if got != want {
		kind := "reported-same-across-boundary"
		if want {
			kind = "reported-different-within-window"
		}
		vk.Violation(x.t, c, "C18/same-range/"+kind+"/"+x.cfgClass(), "%s: IsInSameRange = %v, windows say %v", desc, got, want)
	}
}

func genCfg(t *rapid.T) schedCfg {
	cfg := schedCfg{loc: rapid.SampledFrom(zones).Draw(t, "zone")}
	clock := rapid.OneOf(rapid.SampledFrom(clockChoices), rapid.IntRange(0, 86399))
	cfg.s = clock.Draw(t, "start")
	cfg.e = clock.Draw(t, "end")
	if rapid.IntRange(0, 4).Draw(t, "equal") == 0 {
		cfg.e = cfg.s
	}
	if rapid.IntRange(0, 2).Draw(t, "weekly") == 0 {
		cfg.weekly = true
		cfg.startDay = time.Weekday(rapid.IntRange(0, 6).Draw(t, "sd"))
		cfg.endDay = time.Weekday(rapid.IntRange(0, 6).Draw(t, "ed"))
		cfg.startDayText, cfg.endDayText = cfg.startDay.String(), cfg.endDay.String()
		if rapid.Bool().Draw(t, "short-day-names") {
			cfg.startDayText, cfg.endDayText = cfg.startDayText[:3], cfg.endDayText[:3]
		}
		return cfg
	}
	mask := rapid.OneOf(rapid.Just(0), rapid.IntRange(1, 127), rapid.SampledFrom([]int{0b0111110, 0b1000000, 0b0000001, 0b1000001})).Draw(t, "daymask")
	for d := 0; d < 7; d++ {
		if mask&(1<<d) != 0 {
			cfg.days = append(cfg.days, time.Weekday(d))
		}
	}
	// the Weekdays setting is a list in whatever order the operator wrote it (Mon..Fri,Sun; Fri,Mon)
	if len(cfg.days) > 1 && rapid.Bool().Draw(t, "weekday-list-order-as-written") {
		cfg.days = rapid.Permutation(cfg.days).Draw(t, "weekday-list")
	}
	// ... with long or short day names, and a day possibly named twice (Mon,Monday / Tue,Mon,Tue):
	// the days a list names are the days it names, however often
	spell := func(d time.Weekday, label string) string {
		if rapid.IntRange(0, 2).Draw(t, label) == 0 {
			return d.String()[:3]
		}
		return d.String()
	}
	for _, d := range cfg.days {
		cfg.dayTexts = append(cfg.dayTexts, spell(d, "short-name"))
	}
	if len(cfg.days) > 0 && rapid.IntRange(0, 3).Draw(t, "day-named-twice") == 0 {
		for n := rapid.IntRange(1, 2).Draw(t, "repeats"); n > 0; n-- {
			d := rapid.SampledFrom(cfg.days).Draw(t, "repeated-day")
			at := rapid.IntRange(0, len(cfg.dayTexts)).Draw(t, "at")
			cfg.dayTexts = append(cfg.dayTexts[:at], append([]string{spell(d, "short-name")}, cfg.dayTexts[at:]...)...)
		}
		cfg.dayRepeated = true
	}
	return cfg
}

// anchors: ordinary weeks and the weeks of the 2024 DST changes (US 10 Mar / 3 Nov, EU 31 Mar / 27 Oct, Lord Howe 7 Apr / 6 Oct)
var anchors = []time.Time{
	time.Date(2024, 1, 14, 0, 0, 0, 0, time.UTC), time.Date(2024, 3, 7, 0, 0, 0, 0, time.UTC), time.Date(2024, 3, 28, 0, 0, 0, 0, time.UTC),
	time.Date(2024, 4, 4, 0, 0, 0, 0, time.UTC), time.Date(2024, 6, 12, 0, 0, 0, 0, time.UTC), time.Date(2024, 10, 3, 0, 0, 0, 0, time.UTC),
	time.Date(2024, 10, 24, 0, 0, 0, 0, time.UTC), time.Date(2024, 10, 31, 0, 0, 0, 0, time.UTC), time.Date(2025, 12, 28, 0, 0, 0, 0, time.UTC),
	// instants far from today: around and before the Unix epoch, past 2^31 seconds, a century year
	time.Date(1969, 12, 27, 0, 0, 0, 0, time.UTC), time.Date(1965, 6, 10, 0, 0, 0, 0, time.UTC), time.Date(1901, 12, 10, 0, 0, 0, 0, time.UTC),
	time.Date(2038, 1, 15, 0, 0, 0, 0, time.UTC), time.Date(2100, 2, 24, 0, 0, 0, 0, time.UTC),
}

func genInstant(t *rapid.T, cfg schedCfg) time.Time {
	base := rapid.SampledFrom(anchors).Draw(t, "anchor")
	off := rapid.IntRange(0, 8*86400).Draw(t, "offset")
	at := base.Add(time.Duration(off) * time.Second)
	if rapid.Bool().Draw(t, "aim") {
		// aim a few seconds to minutes beside an edge clock value, on a generated day
		day := base.Add(time.Duration(rapid.IntRange(0, 8).Draw(t, "day")) * 24 * time.Hour).In(cfg.loc)
		edge := rapid.SampledFrom([]int{cfg.s, cfg.e}).Draw(t, "edge")
		delta := rapid.SampledFrom([]int{-3600, -61, -5, -3, 3, 5, 61, 3600}).Draw(t, "delta")
		at = time.Date(day.Year(), day.Month(), day.Day(), 0, 0, edge+delta, 0, cfg.loc)
	}
	return at
}

var pairOffsets = []time.Duration{time.Minute, 17 * time.Minute, 8 * time.Hour, -8 * time.Hour, 24 * time.Hour, -24 * time.Hour, 48 * time.Hour, 7 * 24 * time.Hour, -7 * 24 * time.Hour, 13 * time.Hour}

func c18Property(t *rapid.T) {
	c := c18()
	cfg := genCfg(t)
	via := rapid.Bool().Draw(t, "via-settings")
	tr, err := cfg.build(via)
	if err != nil {
		t.Fatalf("harness: cannot build %s: %v", cfg, err)
	}
	x := &c18ctx{t: t, cfg: cfg, tr: tr, via: map[bool]string{true: "settings", false: "constructor"}[via]}
	c.Class("config:" + x.cfgClass())
	c.Class("route:" + x.via)
	if cfg.dayRepeated && !cfg.weekly {
		c.Class("weekday-list-names-a-day-twice")
	}
	c.Class("zone:" + cfg.loc.String())
	n := rapid.IntRange(5, 25).Draw(t, "n")
	var pts []time.Time
	for i := 0; i < n; i++ {
		a := genInstant(t, cfg)
		pts = append(pts, a)
		if rapid.Bool().Draw(t, "pair") {
			b := a.Add(rapid.SampledFrom(pairOffsets).Draw(t, "poff"))
			if rapid.Bool().Draw(t, "free-b") {
				b = genInstant(t, cfg)
			}
			x.checkPair(a, b)
			pts = append(pts, b)
		} else {
			x.checkInstant(a)
		}
	}
	// transitivity on generated triples (independent of the oracle)
	for i := 0; i+2 < len(pts); i += 3 {
		a, b, d := pts[i], pts[i+1], pts[i+2]
		if cfg.nearEdge(a) || cfg.nearEdge(b) || cfg.nearEdge(d) || !cfg.cleanWindows(a) || !cfg.cleanWindows(b) || !cfg.cleanWindows(d) {
			continue
		}
		if tr.IsInSameRange(a, b) && tr.IsInSameRange(b, d) && !tr.IsInSameRange(a, d) {
			vk.Violation(t, c, "C18/same-range/not-transitive/"+x.cfgClass(), "config %s: %v ~ %v ~ %v but not %v ~ %v", cfg, a, b, d, a, d)
		}
		if tr.IsInSameRange(a, b) && !(tr.IsInRange(a) && tr.IsInRange(b)) {
			vk.Violation(t, c, "C18/same-range/not-both-in-range/"+x.cfgClass(), "config %s: %v ~ %v", cfg, a, b)
		}
	}
}

func TestC18_Rapid(t *testing.T) {
	rapid.Check(t, func(t *rapid.T) {
		vk.Guard(func() { c18Property(t) })
	})
}

// TestC18_Grid enumerates a configuration grid x instant grid for IsInRange (thorough: complete grid).
func TestC18_Grid(t *testing.T) {
	c := c18()
	shard, shards := vk.Shard()
	clocks := []int{0, 9 * 3600, 17*3600 + 1800, 22 * 3600, 86399}
	if vk.Thorough() {
		clocks = []int{0, 1, 2*3600 + 30*60, 9 * 3600, 12 * 3600, 17*3600 + 1800, 22 * 3600, 86399}
	}
	var cfgs []schedCfg
	for _, loc := range zones {
		for _, s := range clocks {
			for _, e := range clocks {
				maskStep := 9
				if vk.Thorough() {
					maskStep = 1
				}
				for mask := 0; mask < 128; mask += maskStep {
					cfg := schedCfg{s: s, e: e, loc: loc}
					for d := 0; d < 7; d++ {
						if mask&(1<<d) != 0 {
							cfg.days = append(cfg.days, time.Weekday(d))
						}
					}
					if mask%2 == 1 && len(cfg.days) > 1 {
						// every other list is written week-starts-on-Monday style (Sunday last)
						cfg.days = append(cfg.days[1:], cfg.days[0])
					}
					cfgs = append(cfgs, cfg)
				}
				for sd := 0; sd < 7; sd++ {
					for ed := 0; ed < 7; ed++ {
						cfgs = append(cfgs, schedCfg{weekly: true, s: s, e: e, startDay: time.Weekday(sd), endDay: time.Weekday(ed), loc: loc})
					}
				}
			}
		}
	}
	// instant grid: co-prime step over 9 days from three anchors (one ordinary week, both DST weeks of each zone family)
	step := 9973 * time.Second
	if vk.Thorough() {
		step = 4111 * time.Second
	}
	n := 0
	for i, cfg := range cfgs {
		if i%shards != shard {
			continue
		}
		tr, err := cfg.build(false)
		if err != nil {
			t.Fatalf("harness: %v", err)
		}
		x := &c18ctx{t: t, cfg: cfg, tr: tr, via: "constructor"}
		vk.Guard(func() {
			for _, base := range []time.Time{anchors[0], anchors[1], anchors[3], anchors[7]} {
				for at := base; at.Before(base.Add(9 * 24 * time.Hour)); at = at.Add(step) {
					x.checkInstant(at)
					n++
				}
				for at := base; at.Before(base.Add(9 * 24 * time.Hour)); at = at.Add(37 * step) {
					for _, off := range pairOffsets {
						x.checkPair(at, at.Add(off))
					}
				}
			}
		})
	}
	c.SetExhaustive(fmt.Sprintf("IsInRange on the grid of %d configurations (5 zones x %d^2 start/end clocks x weekday subsets + 49 day pairs) x instants every %v over four 9-day spans", len(cfgs), len(clocks), step), vk.Thorough())
	_ = os.Getenv
}

// TestReplay_C18_Fixed: plain regression example of the repaired weekday wrap-around defect.
func TestReplay_C18_Fixed(t *testing.T) {
	cfg := schedCfg{s: 22 * 3600, e: 6 * 3600, days: []time.Weekday{time.Saturday}, loc: time.UTC}
	tr, err := cfg.build(false)
	if err != nil {
		t.Fatal(err)
	}
	x := &c18ctx{t: t, cfg: cfg, tr: tr, via: "constructor"}
	vk.Guard(func() {
		x.checkInstant(time.Date(2024, 1, 14, 3, 0, 0, 0, time.UTC))  // Sunday 03:00, window opened Saturday 22:00
		x.checkInstant(time.Date(2024, 1, 13, 23, 0, 0, 0, time.UTC)) // Saturday 23:00
		x.checkInstant(time.Date(2024, 1, 15, 3, 0, 0, 0, time.UTC))  // Monday 03:00: closed
		x.checkPair(time.Date(2024, 1, 13, 23, 0, 0, 0, time.UTC), time.Date(2024, 1, 14, 3, 0, 0, 0, time.UTC))
	})
	// the window's end time of day does not exist on the earlier instant's day (spring clock change)
	ny, err := time.LoadLocation("America/New_York")
	if err != nil {
		t.Skip("no tzdata")
	}
	for _, cfg := range []schedCfg{
		{weekly: true, s: 0, e: 2*3600 + 1800, startDay: time.Sunday, endDay: time.Monday, loc: ny},
		{s: 4*3600 + 1800, e: 2*3600 + 1800, days: []time.Weekday{time.Sunday}, loc: ny},
	} {
		tr, err := cfg.build(false)
		if err != nil {
			t.Fatal(err)
		}
		x := &c18ctx{t: t, cfg: cfg, tr: tr, via: "constructor"}
		vk.Guard(func() {
			x.checkPair(time.Date(2024, 3, 10, 1, 28, 59, 0, ny), time.Date(2024, 3, 11, 2, 28, 59, 0, ny))
			x.checkPair(time.Date(2024, 3, 11, 1, 30, 0, 0, ny), time.Date(2024, 3, 10, 17, 30, 0, 0, ny))
		})
	}
}

package codec

// C11 - parsing exposes exactly what is on the wire and rejects mis-framed messages.
// Messages are serialised by the independent fixwire package; quickfix parses them; every
// field is looked up where the FIX tag tables say it belongs.

import (
	"bytes"
	"fmt"
	"os"
	"sort"
	"strconv"
	"strings"
	"sync"
	"testing"

	"github.com/quickfixgo/quickfix"
	"github.com/quickfixgo/quickfix/datadictionary"
	"pgregory.net/rapid"

	"verif/fixwire"
	"verif/specxml"
	"verif/stats"
	"verif/vk"
)

const c11Rule = "fixwire-serialised messages: 8,9,35 first, header tags in any order, unique arbitrary body tags (or a dictionary-conforming body with groups from specxml), optional XMLData with SOH inside, trailer; then single corruptions of BodyLength / leading order; history stage: for the nested groups of the shipped dictionaries, out-of-place probes parsed with a freshly loaded dictionary before and after a conforming message and with the long-lived dictionary; non-trivial = >=8 fields with >=1 body field, or XMLData, or a group parsed under a dictionary, or a corruption; distinct = distinct message bytes"

func c11() *stats.Collector {
	c := stats.Get("C11")
	c.SetRule(c11Rule)
	return c
}

var specDir = "/repo/spec/"

func init() {
	if r := os.Getenv("VERIF_REPO"); r != "" {
		specDir = r + "/spec/"
	}
}

type dictPair struct {
	name string
	spec *specxml.Spec
	dd   *datadictionary.DataDictionary
}

var (
	dictOnce sync.Once
	dictMap  map[string]*dictPair
	dictErr  error
)

var dictNames = []string{"FIX40", "FIX41", "FIX42", "FIX43", "FIX44", "FIX50", "FIX50SP1", "FIX50SP2", "FIXT11"}

// c11CustomHeaderTag is a header field only by virtue of the custom transport dictionary.
const c11CustomHeaderTag = 10030

func dicts(t fataler) map[string]*dictPair {
	dictOnce.Do(func() {
		dictMap = map[string]*dictPair{}
		for _, n := range dictNames {
			sp, err := specxml.ParseFile(specDir + n + ".xml")
			if err != nil {
				dictErr = err
				return
			}
			dd, err := datadictionary.Parse(specDir + n + ".xml")
			if err != nil {
				dictErr = err
				return
			}
			dictMap[n] = &dictPair{n, sp, dd}
		}
		// a counterparty-specific transport dictionary: the shipped FIXT11 plus one user-defined header field
		text, err := os.ReadFile(specDir + "FIXT11.xml")
		if err != nil {
			dictErr = err
			return
		}
		custom := strings.Replace(string(text), "<header>", "<header>\n    <field name='VenueRoutingHint' required='N'/>", 1)
		custom = strings.Replace(custom, "<fields>", fmt.Sprintf("<fields>\n    <field number='%d' name='VenueRoutingHint' type='STRING'/>", c11CustomHeaderTag), 1)
		cdd, err := datadictionary.ParseSrc(strings.NewReader(custom))
		if err != nil {
			dictErr = err
			return
		}
		dictMap["FIXT11+custom-header"] = &dictPair{"FIXT11+custom-header", nil, cdd}
	})
	if dictErr != nil {
		t.Fatalf("cannot load dictionaries: %v", dictErr)
	}
	return dictMap
}

type rapidChooser struct{ t *rapid.T }

func (r rapidChooser) Intn(n int) int {
	if n <= 1 {
		return 0
	}
	return rapid.IntRange(0, n-1).Draw(r.t, "c")
}

// wrappedGroup is how generated message code puts a nested group into a template: a struct that
// embeds *RepeatingGroup (cmd/generate-fix emits exactly this shape). wrapNestedItems switches the
// template builders of this package to it; it is set per case by the group stages.
type wrappedGroup struct{ *quickfix.RepeatingGroup }

var wrapNestedItems bool

func nestedItem(rg *quickfix.RepeatingGroup) quickfix.GroupItem {
	if wrapNestedItems {
		return wrappedGroup{rg}
	}
	return rg
}

func qfTemplate(members []*specxml.Member) quickfix.GroupTemplate {
	var gt quickfix.GroupTemplate
	for _, m := range members {
		if m.IsGroup {
			gt = append(gt, nestedItem(quickfix.NewRepeatingGroup(quickfix.Tag(m.Tag), qfTemplate(m.Members))))
		} else {
			gt = append(gt, quickfix.GroupElement(quickfix.Tag(m.Tag)))
		}
	}
	return gt
}

// compareItems checks a generated group item against the parsed repeating group.
func compareItems(rg *quickfix.RepeatingGroup, it *specxml.Item) error {
	if rg.Len() != len(it.Entries) {
		return fmt.Errorf("group %d: %d entries parsed, %d on the wire", it.Tag, rg.Len(), len(it.Entries))
	}
	for i, entry := range it.Entries {
		qe := rg.Get(i)
		present := map[int]*specxml.Item{}
		for _, x := range entry {
			present[x.Tag] = x
		}
		for _, m := range it.Def.Members {
			x, ok := present[m.Tag]
			if !ok {
				if qe.Has(quickfix.Tag(m.Tag)) {
					return fmt.Errorf("group %d entry %d: tag %d not on the wire in this entry but present", it.Tag, i, m.Tag)
				}
				continue
			}
			if m.IsGroup {
				nrg := quickfix.NewRepeatingGroup(quickfix.Tag(m.Tag), qfTemplate(m.Members))
				if err := qe.GetGroup(nrg); err != nil {
					return fmt.Errorf("group %d entry %d nested %d: %v", it.Tag, i, m.Tag, err)
				}
				if err := compareItems(nrg, x); err != nil {
					return err
				}
				continue
			}
			got, err := qe.GetBytes(quickfix.Tag(m.Tag))
			if err != nil {
				return fmt.Errorf("group %d entry %d: tag %d missing", it.Tag, i, m.Tag)
			}
			if string(got) != x.Value {
				return fmt.Errorf("group %d entry %d tag %d: %q want %q", it.Tag, i, m.Tag, got, x.Value)
			}
		}
	}
	return nil
}

type c11case struct {
	customHeader int    // tag that the (custom) transport dictionary declares as a header field, 0 = none
	reuse        bool   // the Message object has been used for another message before
	mode         string // none | app | fixt
	dict         string
	transport    *datadictionary.DataDictionary
	app          *datadictionary.DataDictionary
	begin        string
	rest         []fixwire.Field // everything after 9= up to before 10=
	items        []*specxml.Item // dictionary-conforming body (modes app/fixt)
	hasXML       bool
	hasGroup     bool
	hops         [][]fixwire.Field // entries of the header group NoHops (627), nil = none
}

// lastHops: the hop entries genHeaderRest put into the header it built last (nil = none).
var lastHops [][]fixwire.Field

func genHeaderRest(t *rapid.T, msgType string, withXML *bool) []fixwire.Field {
	rest := []fixwire.Field{fixwire.F(35, msgType)}
	lastHops = nil
	hopsAt := -1
	if rapid.IntRange(0, 4).Draw(t, "hops") == 0 {
		// the header's own repeating group: NoHops (627) with HopCompID, HopSendingTime, HopRefID
		hopsAt = rapid.IntRange(0, 3).Draw(t, "hopsat")
	}
	pool := append([]int{}, fixwire.HeaderTags()...)
	n := rapid.IntRange(0, len(pool)).Draw(t, "nheader")
	perm := rapid.Permutation(pool).Draw(t, "hperm")
	xmlAt := -1
	if rapid.IntRange(0, 4).Draw(t, "xml") == 0 {
		xmlAt = rapid.IntRange(0, n).Draw(t, "xmlat")
	}
	for i := 0; i <= n; i++ {
		if i == xmlAt {
			data := rapid.SliceOfN(rapid.SampledFrom([]byte{1, '<', 'a', '>', '=', '1', '0', '|', 1, 'x'}), 1, 30).Draw(t, "xmldata")
			rest = append(rest, fixwire.F(212, strconv.Itoa(len(data))), fixwire.Field{Tag: 213, Value: data})
			*withXML = true
		}
		if i == hopsAt || (hopsAt > n && i == n) {
			nh := rapid.IntRange(1, 3).Draw(t, "nhops")
			rest = append(rest, fixwire.F(627, strconv.Itoa(nh)))
			for h := 0; h < nh; h++ {
				e := []fixwire.Field{fixwire.F(628, "HOP"+strconv.Itoa(h))}
				if rapid.Bool().Draw(t, "hoptime") {
					e = append(e, fixwire.F(629, "20240102-03:04:0"+strconv.Itoa(h)))
				}
				if rapid.Bool().Draw(t, "hopref") {
					e = append(e, fixwire.F(630, strconv.Itoa(10+h)))
				}
				rest = append(rest, e...)
				lastHops = append(lastHops, e)
			}
		}
		if i < n {
			rest = append(rest, fixwire.Field{Tag: perm[i], Value: genWireValue(t)})
		}
	}
	return rest
}

func genWireValue(t *rapid.T) []byte {
	switch rapid.IntRange(0, 7).Draw(t, "vk") {
	case 0:
		return []byte{}
	case 1:
		return []byte("a=b")
	case 2:
		return rapid.SliceOfN(rapid.ByteRange(2, 255), 1, 8).Draw(t, "hv")
	default:
		return []byte(rapid.StringMatching(`[A-Za-z0-9.:-]{1,10}`).Draw(t, "v"))
	}
}

func genC11(t *rapid.T, d map[string]*dictPair) *c11case {
	cs := &c11case{}
	cs.mode = rapid.SampledFrom([]string{"none", "none", "app", "app", "fixt"}).Draw(t, "mode")
	switch cs.mode {
	case "none":
		cs.begin = rapid.SampledFrom([]string{"FIX.4.0", "FIX.4.2", "FIX.4.4", "FIXT.1.1", "X"}).Draw(t, "begin")
		mt := rapid.SampledFrom([]string{"D", "8", "0", "A", "AE", "zz"}).Draw(t, "mt")
		cs.rest = genHeaderRest(t, mt, &cs.hasXML)
		cs.hops = lastHops
		nb := rapid.IntRange(0, 12).Draw(t, "nbody")
		seen := map[int]bool{}
		for i := 0; i < nb; i++ {
			tag := genBodyTag(t, "btag")
			if seen[tag] {
				continue
			}
			seen[tag] = true
			cs.rest = append(cs.rest, fixwire.Field{Tag: tag, Value: genWireValue(t)})
		}
	default:
		var app string
		if cs.mode == "app" {
			app = rapid.SampledFrom([]string{"FIX40", "FIX41", "FIX42", "FIX43", "FIX44"}).Draw(t, "dict")
		} else {
			app = rapid.SampledFrom([]string{"FIX50", "FIX50SP1", "FIX50SP2"}).Draw(t, "dict")
			cs.transport = d["FIXT11"].dd
		}
		cs.dict = app
		dp := d[app]
		cs.app = dp.dd
		cs.begin = dp.spec.BeginString()
		if cs.mode == "fixt" {
			cs.begin = "FIXT.1.1"
		}
		md := dp.spec.Messages[rapid.IntRange(0, len(dp.spec.Messages)-1).Draw(t, "msg")]
		members, err := dp.spec.Expand(md.Members, true)
		if err != nil {
			t.Fatalf("expand: %v", err)
		}
		cs.items = dp.spec.GenMembers(rapidChooser{t}, members, specxml.GenOpts{OptionalOneIn: rapid.SampledFrom([]int{2, 4, 8}).Draw(t, "opt"), MaxEntries: 3, MaxDepth: 3}, 0, false)
		var dummy bool
		cs.rest = genHeaderRest(t, md.MsgType, &dummy)
		cs.hops = lastHops
		// XMLData inside dictionary modes is left to mode none (the dictionary header lists 212/213 too, same path)
		cs.hasXML = dummy
		// with the custom transport dictionary its extra header field is carried once: among the
		// header fields, or further down the message - directly after a group or a body field
		place := -2
		if cs.mode == "fixt" && rapid.Bool().Draw(t, "custom-transport-dictionary") {
			cs.transport = d["FIXT11+custom-header"].dd
			cs.customHeader = c11CustomHeaderTag
			place = -1
			if len(cs.items) > 0 && rapid.IntRange(0, 2).Draw(t, "custom-header-in-body-region") != 0 {
				place = rapid.IntRange(0, len(cs.items)-1).Draw(t, "custom-header-after-item")
				var groups []int
				for i, it := range cs.items {
					if it.IsGroup && len(it.Entries) > 0 {
						groups = append(groups, i)
					}
				}
				if len(groups) > 0 && rapid.Bool().Draw(t, "after-a-group") {
					place = groups[rapid.IntRange(0, len(groups)-1).Draw(t, "which-group")]
				}
			}
		}
		if place == -1 {
			cs.rest = append(cs.rest, fixwire.F(c11CustomHeaderTag, "hint"))
		}
		// XMLData with its length (header fields 212/213) may also come further down the message,
		// e.g. directly after a group; the payload may contain SOH and field look-alikes
		xmlAfter := -1
		if !cs.hasXML && len(cs.items) > 0 && rapid.IntRange(0, 3).Draw(t, "xml-in-body-region") == 0 {
			xmlAfter = rapid.IntRange(0, len(cs.items)-1).Draw(t, "xml-after-item")
			for i, it := range cs.items {
				if it.IsGroup && len(it.Entries) > 0 && rapid.Bool().Draw(t, "xml-after-this-group") {
					xmlAfter = i
					break
				}
			}
		}
		for i, it := range cs.items {
			for _, f := range specxml.Flatten([]*specxml.Item{it}) {
				cs.rest = append(cs.rest, fixwire.F(f.Tag, f.Value))
			}
			if it.IsGroup {
				cs.hasGroup = true
			}
			if i == place {
				cs.rest = append(cs.rest, fixwire.F(c11CustomHeaderTag, "hint"))
				if it.IsGroup {
					c11().Class("custom-header-field-right-after-group")
				}
			}
			if i == xmlAfter {
				data := rapid.SliceOfN(rapid.SampledFrom([]byte{1, '<', 'a', '>', '=', '1', '0', '5', '8', 1, 'x'}), 1, 30).Draw(t, "xmldata-late")
				cs.rest = append(cs.rest, fixwire.F(212, strconv.Itoa(len(data))), fixwire.Field{Tag: 213, Value: data})
				cs.hasXML = true
				if it.IsGroup {
					c11().Class("xmldata-right-after-group")
				}
			}
		}
	}
	if rapid.IntRange(0, 3).Draw(t, "sig") == 0 {
		cs.rest = append(cs.rest, fixwire.F(93, "3"), fixwire.F(89, "abc"))
	}
	cs.reuse = rapid.IntRange(0, 2).Draw(t, "reused-message-object") == 0
	// a counterparty may write a tag number with leading zeros ("058=", "0213="): it is still that tag
	if rapid.IntRange(0, 5).Draw(t, "tag-written-with-leading-zeros") == 0 && len(cs.rest) > 1 {
		i := rapid.IntRange(1, len(cs.rest)-1).Draw(t, "zeros-at")
		if cs.hasXML && rapid.Bool().Draw(t, "zeros-on-data-field") {
			for k, f := range cs.rest {
				if f.Tag == 213 {
					i = k
				}
			}
		}
		cs.rest[i].Zeros = rapid.IntRange(1, 2).Draw(t, "zeros")
		c11().Class("tag-written-with-leading-zeros")
	}
	return cs
}

// c11Prior is parsed into the message object first when a case reuses it (as a caller that
// keeps one Message per connection would): nothing of it may show in the second parse.
var c11Prior = fixwire.Build("FIX.4.4", []fixwire.Field{fixwire.F(35, "D"), fixwire.F(49, "OLD"), fixwire.F(56, "OLDT"), fixwire.F(34, "77"), fixwire.F(50, "oldsub"), fixwire.F(115, "oldobo"),
	fixwire.F(52, "20200101-00:00:00.000"), fixwire.F(11, "oldid"), fixwire.F(453, "2"), fixwire.F(448, "P1"), fixwire.F(447, "D"), fixwire.F(448, "P2"), fixwire.F(447, "D"), fixwire.F(55, "OLDSYM"), fixwire.F(58, "old text"), fixwire.F(5001, "u"), fixwire.F(93, "2"), fixwire.F(89, "zz")})

func (cs *c11case) parse(b []byte) (*quickfix.Message, error) {
	m := quickfix.NewMessage()
	if cs.reuse {
		_ = quickfix.ParseMessageWithDataDictionary(m, bytes.NewBuffer(append([]byte(nil), c11Prior...)), cs.transport, cs.app)
		c11().Class("parsed-into-used-message")
	}
	err := quickfix.ParseMessageWithDataDictionary(m, bytes.NewBuffer(b), cs.transport, cs.app)
	return m, err
}

func sectionOf(m *quickfix.Message, tag int) (*quickfix.FieldMap, string) {
	switch {
	case fixwire.IsHeaderTag(tag):
		return &m.Header.FieldMap, "header"
	case fixwire.IsTrailerTag(tag):
		return &m.Trailer.FieldMap, "trailer"
	}
	return &m.Body.FieldMap, "body"
}

func c11Property(t *rapid.T) {
	c := c11()
	d := dicts(t)
	cs := genC11(t, d)
	raw := fixwire.Build(cs.begin, cs.rest)
	c.Eval()
	nontrivial := cs.hasXML || cs.hasGroup || (len(cs.rest) >= 6)
	c.Class("mode:" + cs.mode)
	if cs.hasXML {
		c.Class("with-xmldata")
	}
	if cs.hasGroup {
		c.Class("with-dictionary-group")
	}
	var pan interface{}
	var m *quickfix.Message
	var err error
	pan = catch(func() { m, err = cs.parse(append([]byte(nil), raw...)) })
	if pan != nil {
		vk.Violation(t, c, "C11/parse/panic/"+cs.mode, "%v on %s", pan, vk.Show(raw))
	}
	if err != nil {
		vk.Violation(t, c, "C11/parse/rejects-wellformed/"+cs.mode, "%v on %s", err, vk.Show(raw))
	}
	if !bytes.Equal(m.Bytes(), raw) {
		vk.Violation(t, c, "C11/bytes/changed", "Bytes() differs from input %s", vk.Show(raw))
	}
	scanned, serr := fixwire.Scan(raw, map[int]int{212: 213})
	if serr != nil {
		t.Fatalf("harness: own scanner failed: %v", serr)
	}
	// wire order preserved
	wf := quickfix.VerifWireFields(m)
	for len(wf) > 0 && wf[len(wf)-1].Tag == 0 {
		wf = wf[:len(wf)-1]
	}
	if len(wf) != len(scanned) {
		vk.Violation(t, c, "C11/order/field-count/"+xmlClass(cs), "parsed field list has %d fields, wire has %d: %s", len(wf), len(scanned), vk.Show(raw))
	}
	for i := range wf {
		if int(wf[i].Tag) != scanned[i].Tag || !bytes.Equal(wf[i].Value, scanned[i].Value) {
			vk.Violation(t, c, "C11/order/differs/"+xmlClass(cs), "field %d is %d=%q, wire has %v in %s", i, wf[i].Tag, wf[i].Value, scanned[i], vk.Show(raw))
		}
	}
	// every top-level field retrievable from its section
	groupMember := map[int]bool{}
	var mark func(items []*specxml.Item, top bool)
	mark = func(items []*specxml.Item, top bool) {
		for _, it := range items {
			if !top {
				groupMember[it.Tag] = true
			}
			if it.IsGroup {
				for _, e := range it.Entries {
					mark(e, false)
				}
			}
		}
	}
	mark(cs.items, true)
	topGroup := map[int]*specxml.Item{}
	for _, it := range cs.items {
		if it.IsGroup {
			topGroup[it.Tag] = it
		}
	}
	inGroup := 0
	for _, f := range scanned {
		if inGroup > 0 {
			inGroup--
			continue
		}
		if it, ok := topGroup[f.Tag]; ok {
			inGroup = len(specxml.Flatten([]*specxml.Item{it})) - 1
			rg := quickfix.NewRepeatingGroup(quickfix.Tag(f.Tag), qfTemplate(it.Def.Members))
			if err := m.Body.GetGroup(rg); err != nil {
				vk.Violation(t, c, "C11/group/error/"+cs.mode, "GetGroup(%d): %v in %s", f.Tag, err, vk.Show(raw))
			}
			if err := compareItems(rg, it); err != nil {
				vk.Violation(t, c, "C11/group/differs/"+cs.mode, "%v in %s", err, vk.Show(raw))
			}
			continue
		}
		if cs.hops != nil && (f.Tag == 628 || f.Tag == 629 || f.Tag == 630) {
			continue // members of the header group: read back through the template below
		}
		fm, name := sectionOf(m, f.Tag)
		if cs.customHeader != 0 && f.Tag == cs.customHeader {
			fm, name = &m.Header.FieldMap, "header(by-dictionary)"
		}
		got, gerr := fm.GetBytes(quickfix.Tag(f.Tag))
		if gerr != nil {
			vk.Violation(t, c, "C11/field/not-in-section/"+name+"/"+cs.mode, "tag %d not retrievable from the %s: %s", f.Tag, name, vk.Show(raw))
		}
		if !bytes.Equal(got, f.Value) {
			vk.Violation(t, c, "C11/field/value-differs/"+name+"/"+cs.mode, "tag %d: %q want %q in %s", f.Tag, got, f.Value, vk.Show(raw))
		}
	}
	// the header's repeating group reads back through its template
	if cs.hops != nil {
		c.Class("with-header-group-NoHops")
		rg := quickfix.NewRepeatingGroup(627, quickfix.GroupTemplate{quickfix.GroupElement(628), quickfix.GroupElement(629), quickfix.GroupElement(630)})
		if err := m.Header.GetGroup(rg); err != nil {
			vk.Violation(t, c, "C11/group/error/header-hops/"+cs.mode, "Header.GetGroup(627): %v in %s", err, vk.Show(raw))
		}
		if rg.Len() != len(cs.hops) {
			vk.Violation(t, c, "C11/group/differs/header-hops/"+cs.mode, "%d hops read, %d on the wire: %s", rg.Len(), len(cs.hops), vk.Show(raw))
		}
		for i, e := range cs.hops {
			for _, f := range e {
				if got, err := rg.Get(i).GetBytes(quickfix.Tag(f.Tag)); err != nil || !bytes.Equal(got, f.Value) {
					vk.Violation(t, c, "C11/group/differs/header-hops/"+cs.mode, "hop %d tag %d: %q (err %v), wire has %q: %s", i, f.Tag, got, err, f.Value, vk.Show(raw))
				}
			}
		}
	}
	// ... and exposes nothing else: every tag a section holds is a tag of the wire (whatever was
	// parsed into the object before has gone)
	onWire := map[int]bool{}
	for _, f := range scanned {
		onWire[f.Tag] = true
	}
	for _, sec := range []struct {
		fm   *quickfix.FieldMap
		name string
	}{{&m.Header.FieldMap, "header"}, {&m.Body.FieldMap, "body"}, {&m.Trailer.FieldMap, "trailer"}} {
		for _, tag := range sec.fm.Tags() {
			if !onWire[int(tag)] {
				v, _ := sec.fm.GetBytes(tag)
				vk.Violation(t, c, "C11/field/not-on-the-wire/"+sec.name+"/"+cs.mode, "the %s holds tag %d (%q), which the message does not contain: %s", sec.name, int(tag), v, vk.Show(raw))
			}
		}
	}
	if nontrivial {
		c.NonTrivial(stats.Hash(raw))
		c.SampleClass("wellformed/"+cs.mode+xmlClass(cs), vk.Show(raw))
	}

	// ---- corruptions: each must be rejected
	kind := rapid.SampledFrom([]string{"len+", "len-", "len-alpha", "len-empty", "swap89", "swap935", "omit9", "omit35", "omit8", "dup8", "35-late"}).Draw(t, "corruption")
	body := fixwire.Join(cs.rest)
	mk := func(lead []fixwire.Field, rest []byte) []byte {
		var buf bytes.Buffer
		buf.Write(fixwire.Join(lead))
		buf.Write(rest)
		fmt.Fprintf(&buf, "10=%03d\x01", fixwire.Sum(buf.Bytes()))
		return buf.Bytes()
	}
	f8 := fixwire.F(8, cs.begin)
	f9 := fixwire.F(9, strconv.Itoa(len(body)))
	f35 := cs.rest[0]
	after35 := fixwire.Join(cs.rest[1:])
	var bad []byte
	switch kind {
	case "len+":
		k := rapid.IntRange(1, 30).Draw(t, "k")
		bad = mk([]fixwire.Field{f8, fixwire.F(9, strconv.Itoa(len(body)+k))}, body)
	case "len-":
		k := rapid.IntRange(1, len(body)).Draw(t, "k")
		bad = mk([]fixwire.Field{f8, fixwire.F(9, strconv.Itoa(len(body)-k))}, body)
	case "len-alpha":
		bad = mk([]fixwire.Field{f8, fixwire.F(9, rapid.SampledFrom([]string{"abc", "1x", "-", "+5", "1.0", " 12"}).Draw(t, "alpha"))}, body)
	case "len-empty":
		bad = mk([]fixwire.Field{f8, fixwire.F(9, "")}, body)
	case "swap89":
		bad = mk([]fixwire.Field{f9, f8}, body)
	case "swap935":
		bad = mk([]fixwire.Field{f8, f35, f9}, after35)
	case "omit9":
		bad = mk([]fixwire.Field{f8}, body)
	case "omit35":
		bad = mk([]fixwire.Field{f8, fixwire.F(9, strconv.Itoa(len(after35)))}, after35)
	case "omit8":
		bad = mk([]fixwire.Field{f9}, body)
	case "dup8":
		bad = mk([]fixwire.Field{f8, f8, f9}, body)
	case "35-late":
		if len(cs.rest) < 2 {
			return
		}
		moved := append(append([]fixwire.Field{}, cs.rest[1]), f35)
		moved = append(moved, cs.rest[2:]...)
		bad = mk([]fixwire.Field{f8, f9}, fixwire.Join(moved))
	}
	c.Eval()
	c.Class("corruption:" + kind)
	c.NonTrivial(stats.Hash(bad))
	var berr error
	if pan := catch(func() { _, berr = cs.parse(bad) }); pan != nil {
		vk.Violation(t, c, "C11/corrupt/panic/"+kind, "%v on %s", pan, vk.Show(bad))
	}
	if berr == nil {
		vk.Violation(t, c, "C11/corrupt/accepted/"+kind+xmlClass(cs), "no error for %s", vk.Show(bad))
	}
	c.SampleClass("corruption:"+kind, vk.Show(bad))
}

func xmlClass(cs *c11case) string {
	if cs.hasXML {
		return "+xmldata"
	}
	return ""
}

func TestC11_Rapid(t *testing.T) {
	rapid.Check(t, func(t *rapid.T) {
		vk.Guard(func() { c11Property(t) })
	})
}

var _ = sort.Ints

// TestReplay_C11_Fixed: plain regression examples of the two repaired defects.
func TestReplay_C11_Fixed(t *testing.T) {
	d := dicts(t)
	c := c11()
	vk.Guard(func() {
		// a body field after a nested group must stay in the body (FIX44 NewOrderSingle, PartySubIDs before Symbol)
		raw := fixwire.Build("FIX.4.4", []fixwire.Field{fixwire.F(35, "D"), fixwire.F(49, "A"), fixwire.F(56, "B"), fixwire.F(34, "2"), fixwire.F(52, "20240101-00:00:00"),
			fixwire.F(11, "id"), fixwire.F(453, "1"), fixwire.F(448, "P"), fixwire.F(447, "D"), fixwire.F(452, "1"), fixwire.F(802, "1"), fixwire.F(523, "S"), fixwire.F(803, "1"),
			fixwire.F(55, "IBM"), fixwire.F(54, "1"), fixwire.F(60, "20240101-00:00:00"), fixwire.F(40, "1")})
		m := quickfix.NewMessage()
		if err := quickfix.ParseMessageWithDataDictionary(m, bytes.NewBuffer(raw), nil, d["FIX44"].dd); err != nil {
			vk.Violation(t, c, "C11/parse/rejects-wellformed/app", "%v", err)
		}
		for _, tag := range []quickfix.Tag{55, 54, 60, 40} {
			if !m.Body.Has(tag) {
				vk.Violation(t, c, "C11/field/not-in-section/body/app", "tag %d after nested group not in body: %s", tag, vk.Show(raw))
			}
		}
		// wrong BodyLength with XMLData must be rejected
		bad := []byte("8=FIX.4.0\x019=30\x0135=D\x01212=1\x01213=\x01\x0193=3\x0189=abc\x0110=108\x01")
		if err := quickfix.ParseMessage(quickfix.NewMessage(), bytes.NewBuffer(bad)); err == nil {
			vk.Violation(t, c, "C11/corrupt/accepted/len++xmldata", "no error for %s", vk.Show(bad))
		}
	})
}

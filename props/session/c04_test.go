package session

// C04 - a sequence gap triggers one exact ResendRequest and loses nothing received.
// Closed loop with the simulated counterparty; oracle = light sequencing model kept from
// observable facts only (DESIGN.md Appendix B) + end-state equivalence with the peer's history.

import (
	"fmt"
	"sort"
	"strings"
	"testing"
	"time"

	"github.com/quickfixgo/quickfix/config"
	"pgregory.net/rapid"

	"verif/fixwire"
	"verif/peer"
	"verif/rig"
	"verif/stats"
	"verif/vk"
)

const c04Rule = "closed-loop scenarios with the simulated counterparty: numbered application and admin messages sent with generated losses (also before the Logon), ResendRequests answered by PossDup replays and merged gap fills in generated arrival order (replay first / live first / mixed), chunk sizes {0,1,2,3,5,8}, both end markers, timer events in between; plus two real-time scenarios in which the replay arrives after the kept messages have become older than MaxLatency, message events handled while the connection's writer cannot take a frame; non-trivial = an episode with a live message stashed during recovery, or >=2 chunks, or a gap on the Logon; distinct = distinct scenario history"

func c04() *stats.Collector {
	c := stats.Get("C04")
	c.SetRule(c04Rule)
	return c
}

type episode struct {
	R, C        int
	lastBegin   int
	chunks      int
	stashedLive bool
}

type c04mon struct {
	ep              *episode
	expect          [][2]int // expected ResendRequests (begin, end field) not yet observed
	rrCount         int
	feat            map[string]bool
	kept            map[int]bool // numbers of messages that arrived early and are not yet passed
	optionalRRBegin int
	dropped         map[int]bool // kept messages discarded by the listed finding (range complete, further gap in front of them)
}

func needsTooHighCheck(ctx stepCtx) bool {
	switch ctx.msgType {
	case "5", "2":
		return false
	case "4":
		return fixwire.GetS(ctx.fields, 123) == "Y"
	}
	return true
}

func (m *c04mon) chunkEnd(s *sim, b, R int) int {
	if s.cfg.chunk == 0 || b+s.cfg.chunk-1 >= R {
		return 0
	}
	return b + s.cfg.chunk - 1
}

func (m *c04mon) endField(s *sim, C int) int {
	if C != 0 {
		return C
	}
	return peer.Infinity(s.cfg.begin)
}

// open starts an episode: [T,R] is the gap the request is computed from; the recovery counts
// as complete once the expected number has passed 'until' (for a gap detected on the Logon
// that is the Logon's own number, which has to arrive as a gap fill, otherwise R).
func (m *c04mon) open(s *sim, T, R int, why string) {
	C := m.chunkEnd(s, T, R)
	until := R
	if why == "logon" {
		until = R + 1
	}
	m.ep = &episode{R: until, C: C, lastBegin: T, chunks: 1}
	m.expect = append(m.expect, [2]int{T, m.endField(s, C)})
	m.feat[fmt.Sprintf("chunk-relation:%s", chunkRel(s.cfg.chunk, R-T+1))] = true
	m.feat["episode-opened-by:"+why] = true
}

func (m *c04mon) after(s *sim, st rig.StepResult, ctx stepCtx) {
	c := s.c
	T2 := s.r.T()
	opened := false
	if ctx.kind == "in" && ctx.hasSeq && (ctx.loggedOnBefore || ctx.stateBefore == "logon") {
		n := ctx.seq
		high := needsTooHighCheck(ctx) && n > ctx.tBefore
		if ctx.stateBefore == "logon" && ctx.msgType != "A" {
			high = false
		}
		if high && m.ep == nil && ctx.msgType != "A" {
			// a new request is due for [T, n-1]: it must not cover a message received (kept) earlier
			var again []int
			for k := range m.kept {
				if k >= ctx.tBefore && k < n {
					again = append(again, k)
				}
			}
			if len(again) > 0 {
				sort.Ints(again)
				sig := sigDroppedAfterGap
				for _, k := range again {
					if !m.dropped[k] {
						sig = "C04/kept-message-requested-again"
					}
				}
				if sig == sigDroppedAfterGap {
					ctxClass := "second-gap-from:"
					switch {
					case s.lossDuringRecovery:
						ctxClass += "loss-during-recovery"
					case m.feat["gap-on-logon"]:
						ctxClass += "losses-around-logon"
					default:
						ctxClass += "losses-in-flight"
					}
					c.Class("known-finding-context:" + ctxClass)
				}
				vk.Violation(s.t, c, sig, "message %d opens a new recovery for [%d,%d] although %v had already been received and kept during the previous recovery (they were dropped when it ended)\n%s", n, ctx.tBefore, n-1, again, s.history())
			}
		}
		if high && ctx.msgType != "A" {
			// the early message is kept
			m.kept[n] = true
		}
		if high && m.ep == nil {
			why := "message"
			if ctx.msgType == "A" {
				why = "logon"
				m.feat["gap-on-logon"] = true
			}
			m.open(s, ctx.tBefore, n-1, why)
			opened = true
		} else if high && m.ep != nil && ctx.possDup != "Y" {
			m.feat["live-stashed-during-recovery"] = true
		}
		if strings.HasPrefix(ctx.stateBefore, "pending(resend") {
			m.feat["inbound-while-pending-during-recovery"] = true
		}
	}
	if m.ep != nil && !opened && ctx.kind == "in" {
		gapFill := ctx.msgType == "4" && fixwire.GetS(ctx.fields, 123) == "Y"
		if s.cfg.chunk > 0 && m.ep.C != 0 && (T2 > m.ep.C || (gapFill && T2 == m.ep.C)) && T2 <= m.ep.R {
			m.ep.C = m.chunkEnd(s, T2, m.ep.R)
			m.expect = append(m.expect, [2]int{T2, m.endField(s, m.ep.C)})
			m.ep.lastBegin = T2
			m.ep.chunks++
			if m.ep.chunks >= 2 {
				m.feat["two-or-more-chunks"] = true
			}
		}
	}
	if m.ep != nil && T2 > m.ep.R {
		m.ep = nil
	}
	lowest := 0
	for n := range m.kept {
		if n < T2 {
			delete(m.kept, n)
		} else if lowest == 0 || n < lowest {
			lowest = n
		}
	}
	if !s.r.V.IsConnected() {
		// the connection ended: an episode (and what was kept for it) does not survive it
		m.ep = nil
		m.expect = nil
		m.kept = map[int]bool{}
		m.dropped = map[int]bool{}
		lowest = 0
	}
	if m.ep == nil && m.kept[T2] && s.r.V.IsLoggedOn() && s.r.V.IsConnected() {
		sig := "C04/kept-message-not-delivered"
		if m.dropped[T2] {
			sig = sigDroppedAfterGap
		}
		if sig == sigDroppedAfterGap {
			c.Class(fmt.Sprintf("known-finding-context:next-in-sequence-after-drop(loss-during-recovery=%v,gap-on-logon=%v)", s.lossDuringRecovery, m.feat["gap-on-logon"]))
		}
		vk.Violation(s.t, c, sig, "the requested range is complete, message %d was received early and is next in sequence, but it was not delivered (kept: %v)\n%s", T2, keys(m.kept), s.history())
	}
	if m.ep == nil && lowest > T2 && s.r.V.IsLoggedOn() {
		// The requested range is complete but kept messages wait behind a further gap. An engine
		// that stays in recovery for them is followed (it may request the further gap now); one
		// that falls back to normal operation has dropped them - harmless while the replay still
		// in flight brings them again, a violation once they are requested again (checked when
		// the next episode opens).
		m.feat["kept-messages-behind-further-gap"] = true
		if st := s.r.V.StateName(); st == "resend" || st == "pending(resend)" {
			m.ep = &episode{R: lowest - 1, C: 0, lastBegin: T2, chunks: 1}
			m.optionalRRBegin = T2
		} else {
			// the listed finding: these kept messages have just been discarded with the resend state
			for n := range m.kept {
				m.dropped[n] = true
			}
		}
	}
	for _, e := range s.r.Outs(st) {
		if e.MsgType != "2" {
			continue
		}
		b, _ := fixwire.GetInt(e.Fields, 7)
		en, _ := fixwire.GetInt(e.Fields, 16)
		m.rrCount++
		if len(m.expect) == 0 && m.optionalRRBegin != 0 && b == m.optionalRRBegin {
			m.optionalRRBegin = 0 // requesting the further gap at that moment is acceptable
			continue
		}
		if len(m.expect) == 0 {
			cls := "normal"
			if strings.HasPrefix(ctx.stateBefore, "pending(") {
				cls = "test-request-pending"
			} else if s.cfg.chunk > 0 {
				cls = "chunked"
			}
			vk.Violation(s.t, c, "C04/unexpected-resend-request/"+cls, "ResendRequest(%d,%d) although none is due (state before %s, T before %d after %d, step %s seq %d)\n%s", b, en, ctx.stateBefore, ctx.tBefore, T2, ctx.msgType, ctx.seq, s.history())
		}
		want := m.expect[0]
		m.expect = m.expect[1:]
		if b != want[0] || en != want[1] {
			vk.Violation(s.t, c, "C04/wrong-resend-request-range", "ResendRequest(%d,%d), expected (%d,%d)\n%s", b, en, want[0], want[1], s.history())
		}
	}
}

const sigDroppedAfterGap = "C04/kept-message-dropped/after-further-gap"

func keys(m map[int]bool) []int {
	var l []int
	for k := range m {
		l = append(l, k)
	}
	sort.Ints(l)
	return l
}

func chunkRel(chunk, gap int) string {
	switch {
	case chunk == 0:
		return "none"
	case chunk < gap:
		return "smaller-than-gap"
	}
	return "covers-gap"
}

func (m *c04mon) macro(s *sim) {
	if len(m.expect) > 0 && s.r.V.IsConnected() {
		vk.Violation(s.t, s.c, "C04/missing-resend-request", "expected ResendRequest %v was not sent\n%s", m.expect, s.history())
	}
	m.expect = nil
	if s.r.V.IsLoggedOn() {
		st := s.r.V.StateName()
		inRecovery := st == "resend" || st == "pending(resend)"
		if inRecovery != (m.ep != nil) {
			vk.Violation(s.t, s.c, "C04/state-vs-model", "engine state %s, model episode open=%v (T=%d)\n%s", st, m.ep != nil, s.r.T(), s.history())
		}
	}
}

func c04Property(t *rapid.T) {
	c := c04()
	cfg := genSimCfg(t)
	drawExtras(t, c, &cfg)
	draw789(t, c, &cfg)
	s := newSim(t, c, cfg)
	if rapid.IntRange(0, 2).Draw(t, "writer-sometimes-busy") == 0 {
		s.busyWriter = func() bool { return rapid.IntRange(0, 2).Draw(t, "writer-busy") == 0 }
	}
	defer s.close()
	mon := &c04mon{feat: map[string]bool{}, kept: map[int]bool{}, dropped: map[int]bool{}}
	s.after = append(s.after, mon.after)
	s.afterMacro = append(s.afterMacro, mon.macro)
	loseBefore := rapid.SampledFrom([]int{0, 0, 0, 1, 2, 4}).Draw(t, "lost-before-logon")
	if !s.logon(loseBefore) {
		t.Fatalf("harness: logon failed\n%s", s.history())
	}
	// a live message lost while a recovery is in progress opens a second gap behind kept
	// messages; that region is explored, but rarely, so that most scenarios go on behind it
	// (the same holds before the engine has noticed the first gap: while an earlier loss has not
	// been repaired yet, a separate later loss puts kept messages behind a second gap)
	lossOutstanding := false
	lossCoin := func(t *rapid.T) bool {
		if lossOutstanding && s.r.T() >= s.p.NextOut && len(s.link) == 0 {
			lossOutstanding = false
		}
		if mon.ep != nil || len(s.pendingReplays) > 0 || lossOutstanding {
			// (rapid's integer ranges favour small values, so a rare event is drawn as a run of fair coins: 2^-7)
			rare := true
			for i := 0; i < 7 && rare; i++ {
				rare = rapid.Bool().Draw(t, "lost-during-recovery")
			}
			if rare {
				s.lossDuringRecovery = true
				return true
			}
			return false
		}
		if rapid.IntRange(0, 3).Draw(t, "lost") == 0 {
			lossOutstanding = true
			return true
		}
		return false
	}
	s.p.Overfill = rapid.Bool().Draw(t, "peer-overfills-gapfill")
	relogon := func() {
		if !s.r.V.IsConnected() {
			s.link, s.pendingReplays = nil, nil
			if !s.logon(rapid.SampledFrom([]int{0, 0, 1, 3}).Draw(t, "lost-before-relogon")) {
				t.Fatalf("harness: re-logon failed\n%s", s.history())
			}
			mon.feat["reconnect"] = true
		}
	}
	t.Repeat(map[string]func(*rapid.T){
		"peerApp": func(t *rapid.T) {
			s.peerLive("D", lossCoin(t))
		},
		"peerAdmin": func(t *rapid.T) {
			s.peerLive(rapid.SampledFrom([]string{"0", "1", "2"}).Draw(t, "type"), lossCoin(t))
		},
		"burstLoss": func(t *rapid.T) {
			if mon.ep != nil || len(s.pendingReplays) > 0 || lossOutstanding {
				t.Skip("recovery in progress")
			}
			lossOutstanding = true
			n := rapid.IntRange(1, 12).Draw(t, "n")
			for i := 0; i < n; i++ {
				s.peerLive(rapid.SampledFrom([]string{"D", "D", "0"}).Draw(t, "type"), true)
			}
		},
		"deliver": func(t *rapid.T) {
			if !s.pumpOne() {
				t.Skip("nothing in flight")
			}
			relogon()
		},
		"peerReplays": func(t *rapid.T) {
			if !s.peerReplay(rapid.SampledFrom([]int{1, 1, 2, 1 << 30}).Draw(t, "replays")) {
				t.Skip("no replay owed")
			}
		},
		"peerTimer": func(t *rapid.T) {
			s.timer(0)
			relogon()
		},
		"heartbeatTimer": func(t *rapid.T) { s.timer(1) },
		"engineSend":     func(t *rapid.T) { s.engineSend(); s.flush() },
	})
	// stabilise: losses stop, everything in flight is delivered and answered
	relogon()
	s.peerLive("D", false) // one final live message reveals any trailing gap
	if !s.settle(4000) {
		vk.Violation(t, c, "C04/recovery-does-not-terminate", "still exchanging after 4000 deliveries\n%s", s.history())
	}
	if !s.r.V.IsConnected() {
		relogon()
		s.settle(4000)
	}
	// a trailing gap is only revealed by the next message: let the counterparty send heartbeats
	for i := 0; i < 4 && s.r.V.IsConnected() && s.r.T() != s.p.NextOut; i++ {
		s.peerLive("0", false)
		s.settle(4000)
	}
	got, want := clOrdIDs(s.fromApp), peerAppIDs(s.p)
	if strings.Join(got, ",") != strings.Join(want, ",") {
		kind := "delivered-differs"
		switch {
		case len(got) < len(want):
			kind = "messages-lost"
		case len(got) > len(want):
			kind = "messages-duplicated"
		}
		vk.Violation(t, c, "C04/end-state/"+kind, "application received %v\npeer sent %v\n%s", got, want, s.history())
	}
	if s.r.T() != s.p.NextOut {
		vk.Violation(t, c, "C04/end-state/expected-number", "expecting %d, peer's next is %d\n%s", s.r.T(), s.p.NextOut, s.history())
	}
	if st := s.r.V.StateName(); st != "inSession" && st != "pending(inSession)" {
		vk.Violation(t, c, "C04/end-state/not-normal", "state %s after recovery\n%s", st, s.history())
	}
	c.Eval()
	c.Class("role:" + map[bool]string{true: "initiator", false: "acceptor"}[cfg.initiator])
	c.Class("begin:" + cfg.begin)
	for k := range mon.feat {
		c.Class("scenario-with:" + k)
	}
	if mon.feat["live-stashed-during-recovery"] || mon.feat["two-or-more-chunks"] || mon.feat["gap-on-logon"] {
		c.NonTrivial(stats.Hash(strings.Join(s.log, "\n")))
		c.SampleClass(fmt.Sprintf("chunk=%d", cfg.chunk), map[string]interface{}{"config": cfg.String(), "resend_requests": s.rrSeen, "delivered": len(got), "history_tail": tail(s.log, 25)})
	}
}

func tail(l []string, n int) []string {
	if len(l) > n {
		return l[len(l)-n:]
	}
	return l
}

func TestC04_Rapid(t *testing.T) {
	rapid.Check(t, func(t *rapid.T) {
		vk.Guard(func() { c04Property(t) })
	})
}

// ---- plain regression examples (bypass the library)

type recTB struct{ sigs map[string]bool }
type recAbort struct{}

func (recAbort) IsVerifAbort()               {}
func (r *recTB) Logf(string, ...interface{}) {}
func (r *recTB) Fatalf(format string, args ...interface{}) {
	msg := fmt.Sprintf(format, args...)
	if strings.HasPrefix(msg, "VIOLATION-SIG ") {
		r.sigs[strings.Fields(msg)[1]] = true
	} else {
		r.sigs["harness:"+msg] = true
	}
	panic(recAbort{})
}

// scriptedC04 runs a fixed scenario under the C04 monitors and the end-state check.
func scriptedC04(t vk.TB, cfg simCfg, loseBefore int, overfill bool, script func(s *sim)) {
	c := c04()
	s := newSim(t, c, cfg)
	defer s.close()
	mon := &c04mon{feat: map[string]bool{}, kept: map[int]bool{}, dropped: map[int]bool{}}
	s.after = append(s.after, mon.after)
	s.afterMacro = append(s.afterMacro, mon.macro)
	s.p.Overfill = overfill
	if !s.logon(loseBefore) {
		t.Fatalf("harness: logon failed\n%s", s.history())
	}
	script(s)
	s.peerLive("D", false)
	if !s.settle(4000) {
		vk.Violation(t, c, "C04/recovery-does-not-terminate", "%s", s.history())
	}
	for i := 0; i < 4 && s.r.V.IsConnected() && s.r.T() != s.p.NextOut; i++ {
		s.peerLive("0", false)
		s.settle(4000)
	}
	got, want := clOrdIDs(s.fromApp), peerAppIDs(s.p)
	if strings.Join(got, ",") != strings.Join(want, ",") {
		vk.Violation(t, c, "C04/end-state/messages-lost", "application received %v\npeer sent %v\n%s", got, want, s.history())
	}
	if st := s.r.V.StateName(); st != "inSession" && st != "pending(inSession)" {
		vk.Violation(t, c, "C04/end-state/not-normal", "state %s\n%s", st, s.history())
	}
}

func TestReplay_C04_Fixed(t *testing.T) {
	base := simCfg{begin: "FIX.4.2", store: "memory", hb: 30}
	// (1) too-high message while a TestRequest is pending during recovery: no second ResendRequest, stash kept
	vk.Guard(func() {
		scriptedC04(t, base, 0, false, func(s *sim) {
			s.peerLive("D", true)
			s.peerLive("D", false)
			s.pumpOne() // 3 arrives: ResendRequest(2,0)
			s.timer(0)  // TestRequest -> pending(resend); the peer's Heartbeat answer is queued
			s.pumpOne() // Heartbeat (too high) arrives in the pending state
			s.peerLive("D", false)
		})
	})
	// (2) gap detected on the Logon, then an early message: it must be kept
	vk.Guard(func() {
		scriptedC04(t, simCfg{begin: "FIX.4.0", store: "memory", hb: 30}, 2, false, func(s *sim) {
			s.peerLive("D", false)
			s.pumpOne()
			s.peerLive("0", false)
			s.pumpOne()
		})
	})
	// (3) chunked recovery, the peer's last gap fill also covers trailing admin messages
	vk.Guard(func() {
		scriptedC04(t, simCfg{begin: "FIX.4.4", store: "memory", hb: 30, chunk: 2}, 0, true, func(s *sim) {
			s.peerLive("D", true)
			s.peerLive("D", true)
			s.peerLive("0", true)
			s.peerLive("0", true)
			s.peerLive("0", true)
			s.peerLive("0", true)
			s.peerLive("D", false)
			s.pumpOne()
		})
	})
}

// TestKnown_C04: does the listed open finding still reproduce?
func TestKnown_C04(t *testing.T) {
	rec := &recTB{sigs: map[string]bool{}}
	vk.Guard(func() {
		scriptedC04(rec, simCfg{begin: "FIX.4.2", store: "memory", hb: 30}, 0, false, func(s *sim) {
			s.peerLive("D", true)  // 2 lost
			s.peerLive("D", false) // 3 -> ResendRequest(2,0), kept
			s.pumpOne()
			s.peerLive("D", true)  // 4 lost: a second gap
			s.peerLive("D", false) // 5 kept
			s.pumpOne()
			s.peerReplay(1)
			s.pumpOne() // replay of 2: range complete, 3 delivered from the stash, 5 still kept behind the gap at 4
		})
	})
	sig := sigDroppedAfterGap
	yn := "no"
	if rec.sigs[sig] || c04().Known[sig] > 0 {
		yn = "yes"
	}
	fmt.Printf("KNOWN-REPRO %s %s\n", sig, yn)
}

// TestC04_SlowRecovery: a kept message is delivered when the gap before it has been filled however
// long that took - also when the message, fresh on arrival, is older than MaxLatency by then (the
// replay it waited for is exempt from the staleness check, and so is what was kept meanwhile).
// Real time: MaxLatency 2 s, the replay arrives 2.4 s after the early message. A stall of the
// machine around the early message's arrival would make that message stale on arrival, which is a
// different case: such a run is discarded, not judged.
func TestC04_SlowRecovery(t *testing.T) {
	c := c04()
	shard, _ := vk.Shard()
	if shard != 0 {
		return
	}
	for _, chunk := range []int{0, 2} {
		rec := &recTB{sigs: map[string]bool{}}
		stalled := false
		var hist string
		began := time.Now()
		vk.Guard(func() {
			cfg := simCfg{begin: "FIX.4.4", store: "memory", hb: 30, chunk: chunk, settings: map[string]string{config.MaxLatency: "2"}}
			scriptedC04(rec, cfg, 0, false, func(s *sim) {
				t0 := time.Now()
				s.peerLive("D", true)  // 2 lost
				s.peerLive("D", false) // 3: arrives fresh, kept; ResendRequest
				s.pumpOne()
				s.peerLive("D", false) // 4: kept too
				s.pumpOne()
				if time.Since(t0) > 700*time.Millisecond {
					stalled = true
				}
				time.Sleep(2400 * time.Millisecond)
				t1 := time.Now()
				// the counterparty answers only now (its replay carries the SendingTime of this moment)
				s.pendingReplays = nil
				if len(s.rrSeen) == 0 {
					stalled = true // harness: no ResendRequest seen; nothing to judge
					return
				}
				rr := s.rrSeen[len(s.rrSeen)-1]
				for _, f := range s.p.Replay(rr[0], rr[1]) {
					s.link = append(s.link, f)
				}
				for s.pumpOne() {
				}
				if time.Since(t1) > 1500*time.Millisecond {
					stalled = true
				}
				hist = s.history()
			})
		})
		// (the whole scenario is one 2.4 s wait plus a few synchronous steps, the closing live
		// message of the scripted run included)
		if time.Since(began) > 3600*time.Millisecond {
			stalled = true
		}
		c.Eval()
		c.Class(fmt.Sprintf("slow-recovery:chunk=%d", chunk))
		switch {
		case stalled:
			c.Class("slow-recovery-discarded:machine-stalled")
		case len(rec.sigs) > 0:
			var sigs []string
			for k := range rec.sigs {
				sigs = append(sigs, k)
			}
			sort.Strings(sigs)
			vk.Guard(func() {
				vk.Violation(t, c, "C04/slow-recovery/"+strings.TrimPrefix(sigs[0], "C04/"), "recovery that takes longer than MaxLatency (2 s): %v\n%s", sigs, hist)
			})
		default:
			c.NonTrivial(stats.Hash("slow-recovery", chunk))
		}
	}
}

package specxml

// Conforming-message generator driven by the independent specification tree. Random choices
// come from a Chooser (backed by rapid draws in the property tests, so shrinking and replay work).

import (
	"fmt"
	"strconv"
	"strings"
)

type Chooser interface {
	Intn(n int) int // uniform in [0,n)
}

// Item is one generated field or group.
type Item struct {
	Tag     int
	Value   string
	IsGroup bool
	Entries [][]*Item
	Def     *Member
}

type GenOpts struct {
	OptionalOneIn int // an optional member is included with probability 1/OptionalOneIn (0 = never)
	MaxEntries    int // entries per group: 1..MaxEntries
	MaxDepth      int // optional groups deeper than this are not populated
	ForceTags     map[int]bool
	EmptyOneIn    int // a non-enumerated group is written with zero entries with probability 1/EmptyOneIn (0 = never)
}

// ValueFor returns a value conforming to the declared FIX type (or a declared enum value).
func ValueFor(m *Member, ch Chooser) string {
	if len(m.Enums) > 0 {
		return m.Enums[ch.Intn(len(m.Enums))]
	}
	digits := func(max int) string { return strconv.Itoa(1 + ch.Intn(max)) }
	alnum := func(n int) string {
		const a = "ABCDEFGHJKLMNPQRSTUVWXYZabcdefghijkmnpqrstuvwxyz0123456789"
		l := 1 + ch.Intn(n)
		var sb strings.Builder
		for i := 0; i < l; i++ {
			sb.WriteByte(a[ch.Intn(len(a))])
		}
		return sb.String()
	}
	switch m.Type {
	case "CHAR":
		return string("ABCXYZ0123456789abc"[ch.Intn(19)])
	case "INT":
		if ch.Intn(6) == 0 {
			return "-" + digits(500)
		}
		return strconv.Itoa(ch.Intn(10000))
	case "LENGTH", "SEQNUM", "NUMINGROUP":
		return digits(9999)
	case "DAYOFMONTH":
		return digits(31)
	case "PRICE", "QTY", "AMT", "FLOAT", "PERCENTAGE", "PRICEOFFSET", "QUANTITY":
		s := strconv.Itoa(ch.Intn(100000))
		if ch.Intn(2) == 0 {
			s += "." + fmt.Sprintf("%02d", ch.Intn(100))
		}
		if (m.Type == "PRICEOFFSET" || m.Type == "FLOAT") && ch.Intn(5) == 0 {
			s = "-" + s
		}
		return s
	case "BOOLEAN":
		return string("YN"[ch.Intn(2)])
	case "UTCTIMESTAMP", "TIME":
		base := fmt.Sprintf("20%02d%02d%02d-%02d:%02d:%02d", ch.Intn(40), 1+ch.Intn(12), 1+ch.Intn(28), ch.Intn(24), ch.Intn(60), ch.Intn(60))
		if ch.Intn(2) == 0 {
			base += fmt.Sprintf(".%03d", ch.Intn(1000))
		}
		return base
	case "UTCDATE", "UTCDATEONLY", "DATE", "LOCALMKTDATE":
		return fmt.Sprintf("20%02d%02d%02d", ch.Intn(40), 1+ch.Intn(12), 1+ch.Intn(28))
	case "UTCTIMEONLY":
		return fmt.Sprintf("%02d:%02d:%02d", ch.Intn(24), ch.Intn(60), ch.Intn(60))
	case "TZTIMEONLY":
		return fmt.Sprintf("%02d:%02dZ", ch.Intn(24), ch.Intn(60))
	case "TZTIMESTAMP":
		return fmt.Sprintf("20%02d%02d%02d-%02d:%02d:%02dZ", ch.Intn(40), 1+ch.Intn(12), 1+ch.Intn(28), ch.Intn(24), ch.Intn(60), ch.Intn(60))
	case "MONTHYEAR":
		return fmt.Sprintf("20%02d%02d", ch.Intn(40), 1+ch.Intn(12))
	case "CURRENCY":
		return []string{"USD", "EUR", "JPY", "GBP"}[ch.Intn(4)]
	case "EXCHANGE":
		return []string{"XNYS", "XLON", "N", "O"}[ch.Intn(4)]
	case "COUNTRY":
		return []string{"US", "DE", "JP"}[ch.Intn(3)]
	case "LANGUAGE":
		return "en"
	case "DATA", "XMLDATA":
		return alnum(12)
	}
	return alnum(8)
}

// GenMembers generates conforming content for a member list (message body, header remainder,
// or one group entry): required members always, optional ones by coin, groups with 1..MaxEntries
// entries whose first member (the delimiter) is always present, members in declaration order,
// every LENGTH field that precedes a DATA field consistent with it.
func (s *Spec) GenMembers(ch Chooser, members []*Member, o GenOpts, depth int, entryOfGroup bool) []*Item {
	var out []*Item
	include := make([]bool, len(members))
	for i, m := range members {
		switch {
		case m.Required, o.ForceTags[m.Tag], entryOfGroup && i == 0:
			include[i] = true
		case m.IsGroup && depth >= o.MaxDepth:
			include[i] = false
		default:
			include[i] = o.OptionalOneIn > 0 && ch.Intn(o.OptionalOneIn) == 0
		}
	}
	// conditionally required: once any field of an optional component is present, the fields
	// required within that component are present too
	for changed := true; changed; {
		changed = false
		present := map[string]bool{}
		for i, m := range members {
			if include[i] && m.OptComp != "" {
				present[m.OptComp] = true
			}
		}
		for i, m := range members {
			if !include[i] && m.ReqInComp && present[m.OptComp] && !(m.IsGroup && depth >= o.MaxDepth+2) {
				include[i] = true
				changed = true
			}
		}
	}
	// DATA needs its LENGTH (the member right before it) and vice versa
	for i, m := range members {
		if (m.Type == "DATA" || m.Type == "XMLDATA") && i > 0 && members[i-1].Type == "LENGTH" {
			both := include[i] || include[i-1]
			if entryOfGroup && i-1 == 0 {
				both = true
			}
			include[i], include[i-1] = both, both
		}
	}
	for i, m := range members {
		if !include[i] {
			continue
		}
		if m.IsGroup {
			n := 1 + ch.Intn(o.MaxEntries)
			if len(m.Enums) > 0 {
				// an enumerated count field: the number of entries must be one of the declared values
				var allowed []int
				for _, e := range m.Enums {
					if v, err := strconv.Atoi(e); err == nil && v >= 1 && v <= 4 {
						allowed = append(allowed, v)
					}
				}
				if len(allowed) == 0 {
					continue
				}
				n = allowed[ch.Intn(len(allowed))]
			}
			if o.EmptyOneIn > 0 && len(m.Enums) == 0 && ch.Intn(o.EmptyOneIn) == 0 {
				n = 0
			}
			it := &Item{Tag: m.Tag, IsGroup: true, Def: m, Value: strconv.Itoa(n)}
			for e := 0; e < n; e++ {
				it.Entries = append(it.Entries, s.GenMembers(ch, m.Members, o, depth+1, true))
			}
			out = append(out, it)
			continue
		}
		out = append(out, &Item{Tag: m.Tag, Value: ValueFor(m, ch), Def: m})
	}
	// A scalar whose tag is also defined inside a group of the same level would be ambiguous on the
	// wire (by position it reads as a member of that group): leave such scalars out.
	var groupTags map[int]bool
	for _, it := range out {
		if it.IsGroup {
			if groupTags == nil {
				groupTags = map[int]bool{}
			}
			DefTags(it.Def, groupTags)
		}
	}
	if groupTags != nil {
		kept := out[:0]
		for _, it := range out {
			if !it.IsGroup && groupTags[it.Tag] {
				continue
			}
			kept = append(kept, it)
		}
		out = kept
	}
	// fix up LENGTH/DATA pairs
	for i, it := range out {
		if it.Def != nil && (it.Def.Type == "DATA" || it.Def.Type == "XMLDATA") && i > 0 && out[i-1].Def != nil && out[i-1].Def.Type == "LENGTH" {
			out[i-1].Value = strconv.Itoa(len(it.Value))
		}
	}
	return out
}

// FlatField is a (tag, value) pair of the flattened item tree.
type FlatField struct {
	Tag   int
	Value string
}

func Flatten(items []*Item) []FlatField {
	var out []FlatField
	for _, it := range items {
		out = append(out, FlatField{it.Tag, it.Value})
		if it.IsGroup {
			for _, e := range it.Entries {
				out = append(out, Flatten(e)...)
			}
		}
	}
	return out
}

// GroupPath identifies one group definition inside a message: the tags from the top-level
// group down to the group itself.
type GroupPath struct {
	Msg  *MsgDecl
	Path []int
	Def  *Member
}

// AllGroups enumerates every group (at every nesting depth) of every message.
func (s *Spec) AllGroups() ([]GroupPath, error) {
	var out []GroupPath
	for _, m := range s.Messages {
		ms, err := s.Expand(m.Members, true)
		if err != nil {
			return nil, err
		}
		var walk func(l []*Member, path []int)
		walk = func(l []*Member, path []int) {
			for _, x := range l {
				if x.IsGroup {
					p := append(append([]int{}, path...), x.Tag)
					out = append(out, GroupPath{Msg: m, Path: p, Def: x})
					walk(x.Members, p)
				}
			}
		}
		walk(ms, nil)
	}
	return out, nil
}

// DefTags collects every tag defined inside a group definition, at any depth.
func DefTags(m *Member, set map[int]bool) {
	for _, x := range m.Members {
		set[x.Tag] = true
		if x.IsGroup {
			DefTags(x, set)
		}
	}
}

package session

// C02, sequential stage - numbering and persistence across epochs. One goroutine, so the order of
// saves and transmissions is the order of the trace. The history crosses connections, store
// resets (configured, negotiated by the counterparty, or asked for by the application, which
// sets ResetSeqNumFlag on its outgoing Logon in ToAdmin) and restarts on a file store.

import (
	"bytes"
	"fmt"
	"os"
	"strconv"
	"strings"
	"testing"

	"github.com/quickfixgo/quickfix"
	"github.com/quickfixgo/quickfix/config"
	"pgregory.net/rapid"

	"verif/fixwire"
	"verif/peer"
	"verif/rig"
	"verif/stats"
	"verif/storekit"
	"verif/vk"
)

type c02Epochs struct {
	pendingTx     map[int]string // application messages numbered inside the current logged-on period and not yet seen on the wire
	inPeriod      bool           // between the OnLogon and the OnLogout notification
	sendInOnLogon bool           // the application sends an order from inside OnLogon
	nSent         int
	t             *rapid.T
	c             *stats.Collector
	r             *rig.Rig
	p             *peer.Peer
	cfg           rig.Config
	persist       bool
	storeKind     string
	next          int            // model: next unused outbound number
	saved         map[int][]byte // model: bytes saved in the current epoch
	lastFirst     int            // highest first-time number transmitted in the current epoch
	rehanded      bool           // an operator moved the counter back in this epoch: numbers are handed out a second time
	log           []string
	feat          map[string]bool
	appFlag       bool // the application sets 141=Y on the next outgoing Logon
	declineEvery  int  // the application declines sends whose id ends in a multiple of this digit (0 = none)
}

func (e *c02Epochs) logf(format string, a ...interface{}) {
	e.log = append(e.log, fmt.Sprintf(format, a...))
}

func (e *c02Epochs) history() string {
	return fmt.Sprintf("%s %s store=%s persist=%v settings=%v\nhistory:\n  %s\n-- trace tail:\n%s", e.cfg.ID.BeginString, map[bool]string{true: "initiator", false: "acceptor"}[e.cfg.Initiator], e.storeKind, e.persist, e.cfg.Settings, strings.Join(tail(e.log, 40), "\n  "), e.r.TraceString(30))
}

func (e *c02Epochs) open() {
	r, err := rig.New(e.cfg)
	if err != nil {
		e.t.Fatalf("harness: %v", err)
	}
	r.RecordSaves = true
	r.EditAdmin = func(m *quickfix.Message) {
		if mt, _ := m.Header.GetString(35); mt == "A" && e.appFlag {
			m.Body.SetBool(141, true)
			e.feat["application-set-reset-flag"] = true
		}
	}
	r.OnLogonDo = func() {
		if !e.sendInOnLogon {
			return
		}
		e.nSent++
		m := quickfix.NewMessage()
		m.Header.SetString(35, "D")
		m.Body.SetString(11, "L"+strconv.Itoa(e.nSent)+"x1") // (never declined: the id ends in 1)
		if err := r.V.Send(m); err == nil {
			e.feat["sent-from-OnLogon"] = true
		}
	}
	r.RefuseSend = func(_ string, m *quickfix.Message) bool {
		id, _ := m.Body.GetString(11)
		return e.declineEvery != 0 && len(id) > 0 && int(id[len(id)-1]-'0')%e.declineEvery == 0
	}
	e.r = r
	e.next = r.S()
	if e.saved == nil {
		e.saved = map[int][]byte{}
	}
	// (a restart on the file store continues the epoch: what was saved before stays saved)
}

// wholeEpoch: every number handed out in the current epoch still answers with the bytes saved
// under it (later saves, refreshes and restarts do not disturb earlier messages).
func (e *c02Epochs) wholeEpoch(when string) {
	if !e.persist || len(e.saved) == 0 || e.rehanded {
		return
	}
	got, err := e.r.Store().GetMessages(1, e.next-1)
	if err != nil {
		vk.Violation(e.t, e.c, "C02/epoch-not-retrievable/"+e.storeKind, "%s: GetMessages(1,%d): %v\n%s", when, e.next-1, err, e.history())
	}
	byNum := map[int][]byte{}
	for _, b := range got {
		fs, _ := fixwire.Scan(b, map[int]int{212: 213})
		if n, ok := fixwire.GetInt(fs, 34); ok {
			byNum[n] = b
		}
	}
	for n, want := range e.saved {
		if have, ok := byNum[n]; !ok || !bytes.Equal(have, want) {
			vk.Violation(e.t, e.c, "C02/epoch-not-retrievable/"+e.storeKind, "%s: number %d was saved as %s, the store now answers %s (present %v)\n%s", when, n, vk.Show(want), vk.Show(have), ok, e.history())
		}
	}
}

// after checks one step's trace entries against the model.
func (e *c02Epochs) after(st rig.StepResult, what string) {
	if st.Panic != nil {
		vk.Violation(e.t, e.c, "C02/engine-panic", "panic during %s: %v\n%s", what, st.Panic, e.history())
	}
	var sentThisEpoch []rig.Entry
	for _, en := range e.r.Entries(st) {
		switch en.Kind {
		case "store.Reset":
			if e.next > 1 {
				e.feat["reset-at-non-initial-number"] = true
			}
			e.next, e.saved, e.lastFirst, e.rehanded = 1, map[int][]byte{}, 0, false
			sentThisEpoch = nil
			e.logf("  store reset")
		case "store.SetNextSender":
			e.next = en.Value
		case "OnLogon":
			e.inPeriod, e.pendingTx = true, map[int]string{}
		case "OnLogout", "closed":
			e.inPeriod, e.pendingTx = false, map[int]string{}
		case "store.Save", "store.IncrSender":
			if e.inPeriod && en.Kind == "store.Save" {
				if fs, _ := fixwire.Scan(en.Raw, nil); !fixwire.IsAdminMsgType(fixwire.GetS(fs, 35)) {
					e.pendingTx[en.Seq] = fixwire.GetS(fs, 11)
				}
			}
			if en.Seq != e.next {
				vk.Violation(e.t, e.c, "C02/numbers-not-consecutive", "during %s number %d was handed out, the next unused number is %d\n%s", what, en.Seq, e.next, e.history())
			}
			if en.Kind == "store.Save" {
				e.saved[en.Seq] = en.Raw
			}
			e.next = en.Seq + 1
		case "out":
			if en.PossDup {
				continue
			}
			e.logf("  first-time %s %d", en.MsgType, en.Seq)
			delete(e.pendingTx, en.Seq)
			// numbers go out in increasing order, so a frame that leaves while a lower number handed
			// out in this logged-on period is still waiting has overtaken it for good: that number
			// can no longer be transmitted for the first time
			if e.inPeriod {
				for n, id := range e.pendingTx {
					if n < en.Seq {
						vk.Violation(e.t, e.c, "C02/assigned-number-overtaken", "during %s frame %d (%s) was transmitted while number %d (application message %s, handed out earlier in the same logged-on period) had not been\n%s", what, en.Seq, en.MsgType, n, id, e.history())
					}
				}
			}
			if en.Seq <= e.lastFirst {
				vk.Violation(e.t, e.c, "C02/first-time-frames-out-of-order", "during %s frame %d after %d\n%s", what, en.Seq, e.lastFirst, e.history())
			}
			e.lastFirst = en.Seq
			if e.persist {
				sv, ok := e.saved[en.Seq]
				switch {
				case !ok:
					vk.Violation(e.t, e.c, "C02/sent-but-not-persisted/"+e.storeKind, "during %s frame %d (%s) was transmitted without a preceding save under that number\n%s", what, en.Seq, en.MsgType, e.history())
				case !bytes.Equal(sv, en.Raw):
					vk.Violation(e.t, e.c, "C02/persisted-bytes-differ/"+e.storeKind, "frame %d: wire %s, saved %s\n%s", en.Seq, vk.Show(en.Raw), vk.Show(sv), e.history())
				}
				sentThisEpoch = append(sentThisEpoch, en)
			}
		}
	}
	// while the session stays logged on every number handed out to an application message is
	// transmitted: once the send queue has been flushed nothing numbered in this period is outstanding
	if e.inPeriod && e.r.V.IsLoggedOn() && e.r.V.QueuedToSend() == 0 && what != "send" {
		for n, id := range e.pendingTx {
			vk.Violation(e.t, e.c, "C02/assigned-number-never-transmitted", "after %s number %d (application message %s, numbered after the logon notification) has not been transmitted although the session is logged on and its send queue is empty\n%s", what, n, id, e.history())
		}
	}
	if S := e.r.S(); S != e.next {
		vk.Violation(e.t, e.c, "C02/next-number-not-one-past-highest", "after %s the store says next %d, one past the highest number handed out is %d\n%s", what, S, e.next, e.history())
	}
	// the store itself answers with the transmitted bytes
	for _, en := range sentThisEpoch {
		if e.rehanded {
			// what a store answers for a number used twice without a reset in between is nobody's
			// promise (the stores differ); the counter clauses above stay judged
			break
		}
		got, err := e.r.Store().GetMessages(en.Seq, en.Seq)
		if err != nil || len(got) != 1 || !bytes.Equal(got[0], en.Raw) {
			vk.Violation(e.t, e.c, "C02/sent-bytes-not-retrievable/"+e.storeKind, "after %s the store returns %d messages (err %v) for number %d, transmitted %s\n%s", what, len(got), err, en.Seq, vk.Show(en.Raw), e.history())
		}
	}
}

func (e *c02Epochs) peerSend(msgType string, body []fixwire.Field, what string) {
	e.p.NextOut = e.r.T() // a faithful counterparty
	_, f := e.p.Next(msgType, body)
	e.logf("%s", what)
	e.after(e.r.In(f), what)
}

func c02EpochsProperty(t *rapid.T) {
	c := c02()
	e := &c02Epochs{t: t, c: c, feat: map[string]bool{}}
	begin := rapid.SampledFrom(allBegins).Draw(t, "begin")
	initiator := rapid.Bool().Draw(t, "initiator")
	id := quickfix.SessionID{BeginString: begin, SenderCompID: "ENG", TargetCompID: "PEER"}
	e.cfg = rig.Config{ID: id, Initiator: initiator, HeartBt: 30, Settings: map[string]string{}}
	e.storeKind = rapid.SampledFrom([]string{"memory", "file"}).Draw(t, "store")
	dir := ""
	if e.storeKind == "file" {
		dir = vk.Scratch("c02e-")
		defer os.RemoveAll(dir)
		e.cfg.Factory = storekit.FileFactory(dir, false, id)
	}
	e.persist = rapid.IntRange(0, 5).Draw(t, "persist") > 0
	if !e.persist {
		e.cfg.Settings[config.PersistMessages] = "N"
	}
	for _, k := range []string{config.ResetOnLogon, config.ResetOnLogout, config.ResetOnDisconnect, config.RefreshOnLogon} {
		if rapid.IntRange(0, 4).Draw(t, k) == 0 {
			e.cfg.Settings[k] = "Y"
		}
	}
	e.p = peer.New(begin, "PEER", "ENG")
	e.declineEvery = rapid.SampledFrom([]int{0, 0, 3, 4}).Draw(t, "decline-every")
	e.open()
	defer func() { e.r.Close() }()
	n := 0
	t.Repeat(map[string]func(*rapid.T){
		"connect-logon": func(t *rapid.T) {
			if e.r.V.IsConnected() {
				return
			}
			e.appFlag = rapid.IntRange(0, 2).Draw(t, "application-sets-reset-flag") == 0
			e.sendInOnLogon = rapid.IntRange(0, 2).Draw(t, "application-sends-from-OnLogon") == 0
			peerFlag := rapid.IntRange(0, 4).Draw(t, "peer-sets-reset-flag") == 0
			before := e.r.S()
			st, ok := e.r.Connect()
			e.logf("connect (application flag %v, next out %d)", e.appFlag, before)
			e.after(st, "connect")
			if !ok {
				return
			}
			if before > 1 {
				e.feat["logon-at-non-initial-number"] = true
			}
			if initiator {
				flag := false
				for _, o := range e.r.Outs(st) {
					if o.MsgType == "A" && fixwire.GetS(o.Fields, 141) == "Y" {
						flag = true
					}
				}
				e.peerSend("A", e.p.LogonBody(30, flag), fmt.Sprintf("peer answers the Logon (flag %v)", flag))
			} else {
				e.peerSend("A", e.p.LogonBody(30, peerFlag), fmt.Sprintf("peer sends Logon (flag %v)", peerFlag))
			}
			e.appFlag = false
		},
		"send": func(t *rapid.T) {
			n++
			m := quickfix.NewMessage()
			m.Header.SetString(35, "D")
			m.Body.SetString(11, "o"+strconv.Itoa(n))
			st, err := e.r.Send(m)
			e.logf("send o%d -> %v (state %s)", n, err, e.r.V.StateName())
			e.after(st, "send")
			// the run loop usually gets to the queue at once, but other events may come first
			if rapid.IntRange(0, 3).Draw(t, "other-events-first") == 0 {
				e.feat["send-left-in-the-queue"] = true
				return
			}
			st, took := e.r.Flush()
			if took {
				e.after(st, "flush")
			}
		},
		"flush": func(t *rapid.T) {
			st, took := e.r.Flush()
			if took {
				e.logf("run loop flushes the send queue")
				e.after(st, "flush")
			}
		},
		"peer-sends-a-used-number": func(t *rapid.T) {
			// a message numbered below the expected number without PossDupFlag: the engine itself
			// starts the logout (whatever is queued was accepted while logged on and goes out first)
			if !e.r.V.IsLoggedOn() || e.r.T() < 2 {
				return
			}
			f := e.p.Frame("0", e.r.T()-1, nil, peer.Opt{})
			e.logf("peer sends a Heartbeat numbered %d (expected %d)", e.r.T()-1, e.r.T())
			e.feat["engine-initiated-logout"] = true
			e.after(e.r.In(f), "too-low message")
		},
		"testrequest": func(t *rapid.T) {
			if !e.r.V.IsLoggedOn() {
				return
			}
			e.peerSend("1", []fixwire.Field{fixwire.F(112, "t"+strconv.Itoa(len(e.log)))}, "peer sends TestRequest")
		},
		"resendrequest": func(t *rapid.T) {
			if !e.r.V.IsLoggedOn() || e.r.S() < 2 {
				return
			}
			b := rapid.IntRange(1, e.r.S()-1).Draw(t, "begin")
			e.peerSend("2", []fixwire.Field{fixwire.F(7, strconv.Itoa(b)), fixwire.F(16, "0")}, fmt.Sprintf("peer sends ResendRequest(%d,0)", b))
			e.feat["replay"] = true
		},
		"heartbeat-tick": func(t *rapid.T) {
			if !e.r.V.IsConnected() {
				return
			}
			e.logf("heartbeat tick")
			e.after(e.r.Timeout(1), "heartbeat tick")
		},
		"logout-timeout": func(t *rapid.T) {
			// the engine has sent its Logout and nobody answers: the wait times out. The numbers
			// handed out so far stay handed out
			if e.r.V.StateName() != "logout" {
				return
			}
			e.logf("logout timeout")
			e.feat["logout-timeout"] = true
			e.after(e.r.Timeout(3), "logout timeout")
		},
		"peer-logout": func(t *rapid.T) {
			if !e.r.V.IsLoggedOn() {
				return
			}
			e.peerSend("5", nil, "peer sends Logout")
		},
		"disconnect": func(t *rapid.T) {
			if !e.r.V.IsConnected() {
				return
			}
			e.logf("disconnect")
			e.after(e.r.Disconnect(), "disconnect")
		},
		"operator-moves-the-counter": func(t *rapid.T) {
			// quickfix.SetNextSenderMsgSeqNum while the session is down: the numbers from n on are handed
			// out again from n (what was saved above n-1 is superseded), and everything that reads the
			// counter later - the next Logon, a refresh, a restart - continues from there
			if e.r.V.IsConnected() {
				return
			}
			n := rapid.IntRange(1, e.next+2).Draw(t, "n")
			e.logf("operator sets the next outbound number to %d (was %d)", n, e.next)
			e.feat["operator-moved-the-counter"] = true
			if n < e.next {
				e.feat["operator-moved-the-counter-back"] = true
				e.rehanded = true
			}
			e.after(e.r.Operator(func(st quickfix.MessageStore) { _ = st.SetNextSenderMsgSeqNum(n) }), "operator sets the counter")
			for k := range e.saved {
				if k >= n {
					delete(e.saved, k)
				}
			}
			if e.lastFirst >= n {
				e.lastFirst = n - 1
			}
			if e.r.S() != n {
				vk.Violation(t, c, "C02/next-number-not-one-past-highest", "the operator set the next number to %d, the store says %d\n%s", n, e.r.S(), e.history())
			}
		},
		"restart": func(t *rapid.T) {
			if e.storeKind != "file" {
				return
			}
			if e.r.V.IsConnected() {
				e.after(e.r.Disconnect(), "disconnect")
			}
			want := e.next
			e.r.Close()
			e.open()
			e.logf("restart on the file store (next out %d)", e.r.S())
			e.feat["restart"] = true
			e.wholeEpoch("after a restart")
			if e.r.S() != want {
				vk.Violation(t, c, "C02/next-number-not-one-past-highest", "after a restart the store says next %d, one past the highest number handed out is %d\n%s", e.r.S(), want, e.history())
			}
		},
	})
	e.wholeEpoch("at the end of the history")
	c.Eval()
	c.Class("epochs:store:" + e.storeKind)
	for k := range e.feat {
		c.Class("epochs:" + k)
	}
	if e.feat["reset-at-non-initial-number"] && e.feat["application-set-reset-flag"] {
		c.Class("epochs:application-reset-at-non-initial-number")
	}
	if e.feat["logon-at-non-initial-number"] || e.feat["reset-at-non-initial-number"] {
		c.NonTrivial(stats.Hash("epochs|" + e.history()))
		c.SampleClass("epochs-"+e.storeKind, map[string]interface{}{"begin": begin, "initiator": initiator, "persist": e.persist, "settings": fmt.Sprint(e.cfg.Settings), "features": fmt.Sprint(e.feat), "history_tail": tail(e.log, 12)})
	}
}

func TestC02_Epochs(t *testing.T) {
	rapid.Check(t, func(t *rapid.T) {
		vk.Guard(func() { c02EpochsProperty(t) })
	})
}

package session

// C06, acceptor route (thorough only, real TCP): an acceptor that serves several sessions picks
// the session a connection belongs to from the identity fields of its first message. The Logon
// establishes exactly the session whose identity it mirrors - CompIDs and, where the sessions use
// them, SubIDs and LocationIDs - and no session when no configured session mirrors it.

import (
	"fmt"
	"net"
	"sort"
	"strconv"
	"strings"
	"sync"
	"testing"
	"time"

	"github.com/quickfixgo/quickfix"
	"github.com/quickfixgo/quickfix/config"

	"verif/fixwire"
	"verif/stats"
	"verif/storekit"
	"verif/vk"
)

type lookupApp struct {
	mu     sync.Mutex
	logons []string
}

func (a *lookupApp) OnCreate(quickfix.SessionID) {}
func (a *lookupApp) OnLogon(id quickfix.SessionID) {
	a.mu.Lock()
	a.logons = append(a.logons, id.String())
	a.mu.Unlock()
}
func (a *lookupApp) OnLogout(quickfix.SessionID)                       {}
func (a *lookupApp) ToAdmin(*quickfix.Message, quickfix.SessionID)     {}
func (a *lookupApp) ToApp(*quickfix.Message, quickfix.SessionID) error { return nil }
func (a *lookupApp) FromAdmin(*quickfix.Message, quickfix.SessionID) quickfix.MessageRejectError {
	return nil
}
func (a *lookupApp) FromApp(*quickfix.Message, quickfix.SessionID) quickfix.MessageRejectError {
	return nil
}

func TestC06_AcceptorLookup(t *testing.T) {
	if !vk.Thorough() {
		t.Skip("thorough tier only")
	}
	c := stats.Get("C06")
	shard, shards := vk.Shard()
	tag := strconv.FormatInt(time.Now().UnixNano()%1000000, 10)
	acc, ini := "ACC"+tag, "INI"+tag
	// the candidate sessions: with and without a SubID / LocationID on either side
	var all []quickfix.SessionID
	for _, ss := range []string{"", "DESK"} {
		for _, ts := range []string{"", "TRD"} {
			all = append(all, quickfix.SessionID{BeginString: "FIX.4.2", SenderCompID: acc, TargetCompID: ini, SenderSubID: ss, TargetSubID: ts})
		}
	}
	all = append(all, quickfix.SessionID{BeginString: "FIX.4.2", SenderCompID: acc, TargetCompID: ini, SenderLocationID: "NY"},
		quickfix.SessionID{BeginString: "FIX.4.2", SenderCompID: acc, TargetCompID: ini, TargetLocationID: "LDN"})
	run := 0
	for mask := 1; mask < 1<<len(all); mask += 5 { // a spread of subsets of the candidates
		run++
		if run%shards != shard {
			continue
		}
		var ids []quickfix.SessionID
		for i, id := range all {
			if mask&(1<<i) != 0 {
				ids = append(ids, id)
			}
		}
		vk.Guard(func() { acceptorLookupRun(t, c, ids, acc, ini) })
	}
}

func acceptorLookupRun(t *testing.T, c *stats.Collector, ids []quickfix.SessionID, acc, ini string) {
	port := freePort()
	app := &lookupApp{}
	a, err := quickfix.NewAcceptor(app, quickfix.NewMemoryStoreFactory(), storekit.Settings(map[string]string{config.SocketAcceptPort: strconv.Itoa(port), config.ResetOnLogon: "Y"}, ids...), quickfix.NewNullLogFactory())
	if err != nil {
		c.Class("acceptor-lookup-inconclusive:setup")
		return
	}
	if err := a.Start(); err != nil {
		c.Class("acceptor-lookup-inconclusive:start")
		return
	}
	defer stopBounded(a.Stop)
	configured := map[string]bool{}
	for _, id := range ids {
		configured[id.String()] = true
	}
	// Logon shapes: which optional identity fields the counterparty writes (its own Sender* are the session's Target*)
	type shape struct{ sSub, tSub, sLoc, tLoc string }
	shapes := []shape{{}, {tSub: "DESK"}, {sSub: "TRD"}, {sSub: "TRD", tSub: "DESK"}, {tLoc: "NY"}, {sLoc: "LDN"}, {tSub: "OTHER"}, {sSub: "TRD", tLoc: "NY"}}
	for _, sh := range shapes {
		want := quickfix.SessionID{BeginString: "FIX.4.2", SenderCompID: acc, TargetCompID: ini, SenderSubID: sh.tSub, TargetSubID: sh.sSub, SenderLocationID: sh.tLoc, TargetLocationID: sh.sLoc}
		app.mu.Lock()
		app.logons = nil
		app.mu.Unlock()
		fields := []fixwire.Field{fixwire.F(35, "A"), fixwire.F(49, ini), fixwire.F(56, acc)}
		add := func(tag int, v string) {
			if v != "" {
				fields = append(fields, fixwire.F(tag, v))
			}
		}
		add(50, sh.sSub)
		add(57, sh.tSub)
		add(142, sh.sLoc)
		add(143, sh.tLoc)
		fields = append(fields, fixwire.F(34, "1"), fixwire.F(52, time.Now().UTC().Format("20060102-15:04:05.000")), fixwire.F(98, "0"), fixwire.F(108, "30"), fixwire.F(141, "Y"))
		raw := fixwire.Build("FIX.4.2", fields)
		began := time.Now()
		conn, err := net.DialTimeout("tcp", "127.0.0.1:"+strconv.Itoa(port), 5*time.Second)
		if err != nil {
			c.Class("acceptor-lookup-inconclusive:dial")
			continue
		}
		_, _ = conn.Write(raw)
		_ = conn.SetReadDeadline(time.Now().Add(1500 * time.Millisecond))
		buf := make([]byte, 4096)
		n, _ := conn.Read(buf)
		answered := n > 0 && strings.Contains(string(buf[:n]), "\x0135=A\x01")
		conn.Close()
		time.Sleep(30 * time.Millisecond)
		app.mu.Lock()
		got := append([]string(nil), app.logons...)
		app.mu.Unlock()
		sort.Strings(got)
		c.Eval()
		c.Class("acceptor-lookup")
		c.NonTrivial(stats.Hash("acceptor-lookup", fmt.Sprint(len(ids)), fmt.Sprint(sh), fmt.Sprint(configured[want.String()])))
		detail := fmt.Sprintf("configured %v; Logon %s; logged on %v, Logon answer %v", keysOfBool(configured, acc, ini), vk.Show(raw), got, answered)
		if time.Since(began) > 4*time.Second {
			c.Class("acceptor-lookup-inconclusive:machine-stalled")
			continue
		}
		switch {
		case configured[want.String()] && !(len(got) == 1 && got[0] == want.String()):
			vk.Violation(t, c, "C06/acceptor-lookup/wrong-or-no-session", "the Logon mirrors the configured session %s\n%s", want.String(), detail)
		case !configured[want.String()] && len(got) > 0:
			vk.Violation(t, c, "C06/acceptor-lookup/foreign-identity-established-a-session", "no configured session mirrors the Logon (it would be %s)\n%s", want.String(), detail)
		}
		c.SampleClass("acceptor-lookup", detail)
	}
}

func keysOfBool(m map[string]bool, acc, ini string) []string {
	var out []string
	for k := range m {
		out = append(out, strings.NewReplacer(acc, "ACC", ini, "INI").Replace(k))
	}
	sort.Strings(out)
	return out
}

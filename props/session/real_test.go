package session

// Real-loop layers (thorough tier only): the code the simulations bypass.
//  * C20: the real run loop with real timers (HeartBtInt 1 s), the harness as counterparty over
//    channels; coarse wall-clock bounds. Timers never fire early: a lower bound that is undercut
//    is a violation; an upper bound that is exceeded is retried and then reported as
//    inconclusive (class, not verdict) - the machine may simply be busy.
//  * C05: real Initiator and Acceptor on localhost through a cutting TCP proxy.
// Neither carries a verdict alone; they add initiator.go / acceptor.go / connection.go / parser.go
// / event_timer.go to what the rapid simulations decide.

import (
	"bytes"
	"fmt"
	"io"
	"net"
	"strconv"
	"strings"
	"sync"
	"testing"
	"time"

	"github.com/quickfixgo/quickfix"
	"github.com/quickfixgo/quickfix/config"

	"verif/fixwire"
	"verif/peer"
	"verif/stats"
	"verif/storekit"
	"verif/vk"
)

// ---------------------------------------------------------------- C20 on the real run loop

type timedFrame struct {
	at time.Duration
	fs []fixwire.Field
}

type realApp struct {
	mu      sync.Mutex
	logons  int
	logouts []time.Duration
	t0      time.Time
	recv    []string
	// slowHeartbeat: ToAdmin takes this long for every outgoing Heartbeat (a slow application
	// callback keeps the run loop busy while keep-alive timers expire)
	slowHeartbeat time.Duration
	// slowFromApp: every FromApp takes this long (a slow consumer: received messages queue up
	// inside the engine); read under mu
	slowFromApp time.Duration
	// slowLogon: ToAdmin takes this long for every outgoing Logon (the application looks up
	// credentials): the Logon is being prepared while other goroutines keep submitting; read under mu
	slowLogon time.Duration
}

func (a *realApp) OnCreate(quickfix.SessionID) {}
func (a *realApp) OnLogon(quickfix.SessionID) {
	a.mu.Lock()
	a.logons++
	a.mu.Unlock()
}
func (a *realApp) OnLogout(quickfix.SessionID) {
	a.mu.Lock()
	a.logouts = append(a.logouts, time.Since(a.t0))
	a.mu.Unlock()
}
func (a *realApp) ToAdmin(m *quickfix.Message, _ quickfix.SessionID) {
	a.mu.Lock()
	slowLogon := a.slowLogon
	a.mu.Unlock()
	if slowLogon > 0 {
		if mt, _ := m.Header.GetString(35); mt == "A" {
			time.Sleep(slowLogon)
		}
	}
	if a.slowHeartbeat > 0 {
		if mt, _ := m.Header.GetString(35); mt == "0" {
			time.Sleep(a.slowHeartbeat)
		}
	}
}
func (a *realApp) ToApp(*quickfix.Message, quickfix.SessionID) error { return nil }
func (a *realApp) FromAdmin(*quickfix.Message, quickfix.SessionID) quickfix.MessageRejectError {
	return nil
}
func (a *realApp) FromApp(m *quickfix.Message, _ quickfix.SessionID) quickfix.MessageRejectError {
	id, _ := m.Body.GetString(11)
	a.mu.Lock()
	a.recv = append(a.recv, id)
	slow := a.slowFromApp
	a.mu.Unlock()
	if slow > 0 {
		time.Sleep(slow)
	}
	return nil
}

// realTimerRun plays one scenario against a session on its real run loop. Returns a list of
// violated lower bounds (violations) and exceeded upper bounds (inconclusive).
func realTimerRun(t *testing.T, scenario string) (violations, late []string, detail string) {
	id := quickfix.SessionID{BeginString: "FIX.4.2", SenderCompID: "ENG", TargetCompID: "PEER", Qualifier: scenario + strconv.FormatInt(time.Now().UnixNano()%100000, 10)}
	ss := quickfix.NewSessionSettings()
	ss.Set(config.BeginString, id.BeginString)
	ss.Set(config.SenderCompID, id.SenderCompID)
	ss.Set(config.TargetCompID, id.TargetCompID)
	app := &realApp{}
	if scenario == "silent-peer-slow-callback" {
		app.slowHeartbeat = 500 * time.Millisecond
	}
	v, err := quickfix.VerifNewSession(id, quickfix.NewMemoryStoreFactory(), ss, quickfix.NewNullLogFactory(), app, false)
	if err != nil {
		t.Fatalf("harness: %v", err)
	}
	go v.RunLoop()
	defer v.StopAsync()
	in := make(chan *bytes.Buffer, 16)
	out := make(chan []byte)
	if err := v.ConnectAsync(in, out); err != nil {
		t.Fatalf("harness: connect: %v", err)
	}
	p := peer.New("FIX.4.2", "PEER", "ENG")
	var mu sync.Mutex
	var frames []timedFrame
	closedAt := time.Duration(-1)
	t0 := time.Now()
	app.t0 = t0
	done := make(chan struct{})
	go func() {
		defer close(done)
		for b := range out {
			fs, _ := fixwire.Scan(b, nil)
			mu.Lock()
			frames = append(frames, timedFrame{time.Since(t0), fs})
			mu.Unlock()
		}
		mu.Lock()
		closedAt = time.Since(t0)
		mu.Unlock()
	}()
	send := func(msgType string, body []fixwire.Field) {
		_, f := p.Next(msgType, body)
		in <- bytes.NewBuffer(f)
	}
	send("A", p.LogonBody(1, false)) // HeartBtInt 1 s, adopted by the acceptor
	hb := time.Second
	logonAt := time.Duration(0)
	// wait for the Logon answer
	for i := 0; i < 300; i++ {
		mu.Lock()
		n := len(frames)
		if n > 0 {
			logonAt = frames[0].at
		}
		mu.Unlock()
		if n > 0 {
			break
		}
		time.Sleep(10 * time.Millisecond)
	}
	count := func(msgType string, from, to time.Duration) (n int, first time.Duration) {
		mu.Lock()
		defer mu.Unlock()
		first = -1
		for _, f := range frames {
			if fixwire.GetS(f.fs, 35) == msgType && f.at >= from && f.at < to {
				if first < 0 {
					first = f.at
				}
				n++
			}
		}
		return
	}
	switch scenario {
	case "silent-peer":
		// nothing is sent: Heartbeat after ~1 s, TestRequest after ~1.2 s, disconnect + OnLogout after ~2.4 s
		time.Sleep(6 * time.Second)
		_, firstHB := count("0", logonAt, time.Hour)
		_, firstTR := count("1", logonAt, time.Hour)
		mu.Lock()
		cl := closedAt
		mu.Unlock()
		detail = fmt.Sprintf("logon answered at %v, first Heartbeat %v, TestRequest %v, connection closed %v, OnLogout at %v", logonAt, firstHB, firstTR, cl, app.logouts)
		if firstTR >= 0 && firstTR-logonAt < time.Duration(0.7*1.2*float64(hb)) {
			violations = append(violations, "test-request-early")
		}
		if firstTR < 0 || firstTR-logonAt > time.Duration(3*1.2*float64(hb))+2*time.Second {
			late = append(late, "test-request-late-or-missing")
		}
		if cl >= 0 && cl-logonAt < time.Duration(0.7*2.4*float64(hb)) {
			violations = append(violations, "disconnect-early")
		}
		if cl < 0 {
			late = append(late, "no-disconnect-within-6s")
		}
		if cl >= 0 && len(app.logouts) != 1 {
			violations = append(violations, fmt.Sprintf("onlogout-%d-times", len(app.logouts)))
		}
		if firstHB >= 0 && firstHB-logonAt < time.Duration(0.7*float64(hb)) {
			violations = append(violations, "heartbeat-early")
		}
	case "silent-peer-slow-callback":
		// as silent-peer, but every Heartbeat keeps the run loop busy for 0.5 s (1.0-1.5 s after
		// the logon), so the peer timer (1.2 s) expires while the loop is not waiting for events.
		// The expiry must still be acted upon. The engine is judged only if this test's own timers
		// ran on time during the window (a control for a stalled machine).
		worst := time.Duration(0)
		stopCtl := make(chan struct{})
		ctlDone := make(chan struct{})
		go func() {
			defer close(ctlDone)
			for {
				select {
				case <-stopCtl:
					return
				default:
				}
				a := time.Now()
				time.Sleep(20 * time.Millisecond)
				if over := time.Since(a) - 20*time.Millisecond; over > worst {
					worst = over
				}
			}
		}()
		deadline := time.Now().Add(15 * time.Second)
		for time.Now().Before(deadline) {
			mu.Lock()
			cl := closedAt
			mu.Unlock()
			if cl >= 0 {
				break
			}
			time.Sleep(50 * time.Millisecond)
		}
		close(stopCtl)
		<-ctlDone
		_, firstTR := count("1", logonAt, time.Hour)
		mu.Lock()
		cl := closedAt
		mu.Unlock()
		detail = fmt.Sprintf("Heartbeat callbacks take 0.5 s; TestRequest at %v, connection closed at %v, OnLogout %v; worst oversleep of the control timer %v", firstTR, cl, app.logouts, worst)
		switch {
		case worst > 500*time.Millisecond:
			late = append(late, "machine-stalled-during-window")
		case firstTR < 0:
			violations = append(violations, "no-test-request-in-15s-although-peer-silent")
		case cl < 0:
			violations = append(violations, "no-disconnect-in-15s-although-peer-silent")
		case len(app.logouts) != 1:
			violations = append(violations, fmt.Sprintf("onlogout-%d-times", len(app.logouts)))
		}
	case "chatty-peer":
		// the peer sends a Heartbeat every 0.4 s for 4 s: no TestRequest, no disconnect, engine Heartbeats keep coming
		for i := 0; i < 10; i++ {
			time.Sleep(400 * time.Millisecond)
			send("0", nil)
		}
		nTR, _ := count("1", logonAt, time.Hour)
		nHB, _ := count("0", logonAt, time.Hour)
		mu.Lock()
		cl := closedAt
		mu.Unlock()
		detail = fmt.Sprintf("engine Heartbeats %d, TestRequests %d, closed %v in 4 s of chatter", nHB, nTR, cl)
		if nTR > 0 {
			violations = append(violations, "test-request-although-peer-is-chatty")
		}
		if cl >= 0 {
			violations = append(violations, "disconnected-although-peer-is-chatty")
		}
		if nHB > 6 {
			violations = append(violations, "heartbeats-faster-than-interval")
		}
		if nHB < 1 {
			late = append(late, "no-engine-heartbeat-in-4s")
		}
	case "answered-test-request":
		// silent until the TestRequest, then answer it: the pending disconnect is cancelled
		var id string
		for i := 0; i < 500 && id == ""; i++ {
			time.Sleep(10 * time.Millisecond)
			mu.Lock()
			for _, f := range frames {
				if fixwire.GetS(f.fs, 35) == "1" {
					id = fixwire.GetS(f.fs, 112)
				}
			}
			mu.Unlock()
		}
		if id == "" {
			late = append(late, "no-test-request-within-5s")
			break
		}
		send("0", []fixwire.Field{fixwire.F(112, id)})
		time.Sleep(900 * time.Millisecond)
		mu.Lock()
		cl := closedAt
		mu.Unlock()
		detail = fmt.Sprintf("TestRequest %q answered; closed %v, OnLogout %v", id, cl, app.logouts)
		if cl >= 0 || len(app.logouts) > 0 {
			violations = append(violations, "disconnected-although-test-request-answered")
		}
	case "peer-test-request":
		send("1", []fixwire.Field{fixwire.F(112, "REAL-LOOP")})
		time.Sleep(300 * time.Millisecond)
		found := 0
		mu.Lock()
		for _, f := range frames {
			if fixwire.GetS(f.fs, 35) == "0" && fixwire.GetS(f.fs, 112) == "REAL-LOOP" {
				found++
			}
		}
		mu.Unlock()
		detail = fmt.Sprintf("Heartbeats echoing the TestReqID: %d", found)
		if found > 1 {
			violations = append(violations, "test-request-answered-twice")
		}
		if found == 0 {
			late = append(late, "test-request-not-answered-within-300ms")
		}
	}
	return
}

// realTimerSecondConnection: an acceptor session object lives through two connections. The first
// Logon announces a long interval (10 s) and the connection is dropped at once; the second Logon
// announces 1 s and the peer stays silent. The keep-alive of the second connection must run on
// the 1 s interval (timers armed for the first connection must not get in the way).
func realTimerSecondConnection(t *testing.T) (violations, late []string, detail string) {
	id := quickfix.SessionID{BeginString: "FIX.4.2", SenderCompID: "ENG", TargetCompID: "PEER", Qualifier: "second" + strconv.FormatInt(time.Now().UnixNano()%100000, 10)}
	ss := quickfix.NewSessionSettings()
	ss.Set(config.BeginString, id.BeginString)
	ss.Set(config.SenderCompID, id.SenderCompID)
	ss.Set(config.TargetCompID, id.TargetCompID)
	app := &realApp{}
	v, err := quickfix.VerifNewSession(id, quickfix.NewMemoryStoreFactory(), ss, quickfix.NewNullLogFactory(), app, false)
	if err != nil {
		t.Fatalf("harness: %v", err)
	}
	go v.RunLoop()
	defer v.StopAsync()
	p := peer.New("FIX.4.2", "PEER", "ENG")
	t0 := time.Now()
	app.t0 = t0
	connect := func() (chan *bytes.Buffer, chan []byte, bool) {
		for i := 0; i < 200; i++ {
			// fresh channels for every attempt: a refused attempt leaves a forwarding goroutine on its inbound channel
			in := make(chan *bytes.Buffer, 16)
			out := make(chan []byte)
			if err := v.ConnectAsync(in, out); err == nil {
				return in, out, true
			}
			close(in)
			time.Sleep(10 * time.Millisecond) // the previous connection is still being torn down
		}
		return nil, nil, false
	}
	// first connection: long interval, dropped immediately after the Logon answer
	in1, out1, ok := connect()
	if !ok {
		return nil, []string{"first-connect-refused"}, ""
	}
	_, f := p.Next("A", p.LogonBody(10, false))
	in1 <- bytes.NewBuffer(f)
	select {
	case <-out1:
	case <-time.After(5 * time.Second):
		return nil, []string{"no-logon-answer-on-first-connection"}, ""
	}
	close(in1)
	go func() {
		for range out1 {
		}
	}()
	// second connection: 1 s interval, silent peer
	in2, out2, ok := connect()
	if !ok {
		return nil, []string{"second-connect-refused"}, ""
	}
	_ = in2
	_, f = p.Next("A", p.LogonBody(1, false))
	start := time.Now()
	in2 <- bytes.NewBuffer(f)
	var mu sync.Mutex
	var types []string
	var at []time.Duration
	closedAt := time.Duration(-1)
	go func() {
		for b := range out2 {
			fs, _ := fixwire.Scan(b, nil)
			mu.Lock()
			types = append(types, fixwire.GetS(fs, 35))
			at = append(at, time.Since(start))
			mu.Unlock()
		}
		mu.Lock()
		closedAt = time.Since(start)
		mu.Unlock()
	}()
	worst := time.Duration(0)
	deadline := time.Now().Add(9 * time.Second) // well below the 10 s of the first connection's interval
	for time.Now().Before(deadline) {
		mu.Lock()
		cl := closedAt
		mu.Unlock()
		if cl >= 0 {
			break
		}
		a := time.Now()
		time.Sleep(50 * time.Millisecond)
		if over := time.Since(a) - 50*time.Millisecond; over > worst {
			worst = over
		}
	}
	mu.Lock()
	defer mu.Unlock()
	detail = fmt.Sprintf("second connection (HeartBtInt 1 s after a first one with 10 s): frames %v at %v, closed at %v, OnLogout %v; worst oversleep of this test's own timer %v", types, at, closedAt, app.logouts, worst)
	hasTR := false
	for _, ty := range types {
		if ty == "1" {
			hasTR = true
		}
	}
	switch {
	case worst > 500*time.Millisecond:
		late = append(late, "machine-stalled-during-window")
	case !hasTR:
		violations = append(violations, "no-test-request-within-9s-on-a-1s-interval")
	case closedAt < 0:
		violations = append(violations, "no-disconnect-within-9s-on-a-1s-interval")
	}
	return
}

func TestC20_RealTimers(t *testing.T) {
	if !vk.Thorough() {
		t.Skip("thorough tier only")
	}
	c := stats.Get("C20")
	shard, shards := vk.Shard()
	scenarios := []string{"silent-peer", "chatty-peer", "answered-test-request", "peer-test-request", "silent-peer-slow-callback", "second-connection-shorter-interval"}
	for i := 0; i < 2*len(scenarios); i++ {
		if i%shards != shard {
			continue
		}
		sc := scenarios[i%len(scenarios)]
		var violations, late []string
		var detail string
		for attempt := 0; attempt < 3; attempt++ {
			if sc == "second-connection-shorter-interval" {
				violations, late, detail = realTimerSecondConnection(t)
			} else {
				violations, late, detail = realTimerRun(t, sc)
			}
			if len(violations) > 0 || len(late) == 0 {
				break
			}
		}
		c.Eval()
		c.Class("real-loop:" + sc)
		c.NonTrivial(stats.Hash("real", sc, i))
		c.SampleClass("real-loop/"+sc, detail)
		for _, l := range late {
			c.Class("real-loop-inconclusive:" + l)
		}
		for _, v := range violations {
			v := v
			vk.Guard(func() { vk.Violation(t, c, "C20/real-loop/"+sc+"/"+v, "%s", detail) })
		}
	}
}

// ---------------------------------------------------------------- C05 over real sockets

type cutProxy struct {
	ln     net.Listener
	target string
	mu     sync.Mutex
	conns  []net.Conn
	closed bool
	// cutAfter > 0: the next connection is reset once that many bytes have been relayed upstream
	// on it (a cut in the middle of a burst); one-shot
	cutAfter int64
}

func (p *cutProxy) armCutAfter(n int64) {
	p.mu.Lock()
	p.cutAfter = n
	p.mu.Unlock()
}

func newCutProxy(target string) (*cutProxy, error) {
	ln, err := net.Listen("tcp", "127.0.0.1:0")
	if err != nil {
		return nil, err
	}
	p := &cutProxy{ln: ln, target: target}
	go func() {
		for {
			c, err := ln.Accept()
			if err != nil {
				return
			}
			u, err := net.Dial("tcp", p.target)
			if err != nil {
				c.Close()
				continue
			}
			p.mu.Lock()
			p.conns = append(p.conns, c, u)
			p.mu.Unlock()
			p.mu.Lock()
			limit := p.cutAfter
			p.cutAfter = 0
			p.mu.Unlock()
			go func() {
				buf := make([]byte, 2048)
				var relayed int64
				for {
					n, err := c.Read(buf)
					if n > 0 {
						if _, werr := u.Write(buf[:n]); werr != nil {
							break
						}
						relayed += int64(n)
						if limit > 0 && relayed >= limit {
							// reset, not a graceful close: the engine's next write fails
							for _, x := range []net.Conn{c, u} {
								if tc, ok := x.(*net.TCPConn); ok {
									_ = tc.SetLinger(0)
								}
							}
							break
						}
					}
					if err != nil {
						break
					}
				}
				u.Close()
				c.Close()
			}()
			go func() { _, _ = io.Copy(c, u); u.Close(); c.Close() }()
		}
	}()
	return p, nil
}

func (p *cutProxy) port() int { return p.ln.Addr().(*net.TCPAddr).Port }

func (p *cutProxy) cut() {
	p.mu.Lock()
	for _, c := range p.conns {
		c.Close()
	}
	p.conns = nil
	p.mu.Unlock()
}

func (p *cutProxy) stop() { p.ln.Close(); p.cut() }

func freePort() int {
	l, err := net.Listen("tcp", "127.0.0.1:0")
	if err != nil {
		return 0
	}
	defer l.Close()
	return l.Addr().(*net.TCPAddr).Port
}

// stopBounded stops an engine but does not wait for it for ever: a wedged engine must not keep
// the verdict (already computed) from being reported.
func stopBounded(stop func()) {
	done := make(chan struct{})
	go func() { stop(); close(done) }()
	select {
	case <-done:
	case <-time.After(10 * time.Second):
	}
}

func socketRun(t *testing.T, run int, file bool) (violation, inconclusive, detail string) {
	tag := strconv.Itoa(run) + "x" + strconv.FormatInt(time.Now().UnixNano()%100000, 10)
	idA := quickfix.SessionID{BeginString: "FIX.4.4", SenderCompID: "SA" + tag, TargetCompID: "SB" + tag}
	idB := quickfix.SessionID{BeginString: "FIX.4.4", SenderCompID: "SB" + tag, TargetCompID: "SA" + tag}
	accPort := freePort()
	proxy, err := newCutProxy("127.0.0.1:" + strconv.Itoa(accPort))
	if err != nil {
		return "", "no-proxy", err.Error()
	}
	defer proxy.stop()
	dirA, dirB := "", ""
	var sfA, sfB quickfix.MessageStoreFactory = quickfix.NewMemoryStoreFactory(), quickfix.NewMemoryStoreFactory()
	if file {
		dirA, dirB = vk.Scratch("c05sockA-"), vk.Scratch("c05sockB-")
		sfA, sfB = storekit.FileFactory(dirA, false, idA), storekit.FileFactory(dirB, false, idB)
	}
	_ = dirA
	_ = dirB
	setA := storekit.Settings(map[string]string{config.SocketConnectHost: "127.0.0.1", config.SocketConnectPort: strconv.Itoa(proxy.port()), config.HeartBtInt: "1", config.ReconnectInterval: "1"}, idA)
	setB := storekit.Settings(map[string]string{config.SocketAcceptPort: strconv.Itoa(accPort)}, idB)
	appA, appB := &realApp{t0: time.Now()}, &realApp{t0: time.Now()}
	acc, err := quickfix.NewAcceptor(appB, sfB, setB, quickfix.NewNullLogFactory())
	if err != nil {
		return "", "acceptor-setup", err.Error()
	}
	if err := acc.Start(); err != nil {
		return "", "acceptor-start", err.Error()
	}
	defer stopBounded(acc.Stop)
	ini, err := quickfix.NewInitiator(appA, sfA, setA, quickfix.NewNullLogFactory())
	if err != nil {
		return "", "initiator-setup", err.Error()
	}
	if err := ini.Start(); err != nil {
		return "", "initiator-start", err.Error()
	}
	defer stopBounded(ini.Stop)
	var accA, accB []string
	sendFrom := func(from quickfix.SessionID, name string, n *int, list *[]string) {
		*n++
		id := name + strconv.Itoa(*n)
		m := quickfix.NewMessage()
		m.Header.SetString(35, "D")
		m.Body.SetString(11, id)
		m.Body.SetString(55, "IBM")
		if quickfix.SendToTarget(m, from) == nil {
			*list = append(*list, id)
		}
	}
	waitLogon := func(d time.Duration) bool {
		deadline := time.Now().Add(d)
		for time.Now().Before(deadline) {
			appA.mu.Lock()
			la := appA.logons
			appA.mu.Unlock()
			appB.mu.Lock()
			lb := appB.logons
			appB.mu.Unlock()
			if la > 0 && lb > 0 {
				return true
			}
			time.Sleep(20 * time.Millisecond)
		}
		return false
	}
	if !waitLogon(8 * time.Second) {
		return "", "no-logon-within-8s", ""
	}
	nA, nB := 0, 0
	// a fixed but varied script: bursts, cuts in the middle of bursts, sends while the link is down
	for round := 0; round < 3; round++ {
		for i := 0; i < 3+run%3; i++ {
			sendFrom(idA, "A", &nA, &accA)
			sendFrom(idB, "B", &nB, &accB)
		}
		time.Sleep(time.Duration(5+7*((run+round)%4)) * time.Millisecond)
		proxy.cut()
		for i := 0; i < 2; i++ {
			sendFrom(idA, "A", &nA, &accA)
			sendFrom(idB, "B", &nB, &accB)
		}
		time.Sleep(time.Duration(1200+200*(round%2)) * time.Millisecond)
	}
	if run%4 == 0 {
		// a large backlog built up while the link is down, and a cut inside the replay burst that
		// follows the reconnect (the writer sees a write error in the middle of a blocking burst)
		proxy.armCutAfter(6000) // the next connection is reset ~6 kB into what A sends on it
		proxy.cut()
		for i := 0; i < 1500; i++ {
			sendFrom(idA, "A", &nA, &accA)
		}
		time.Sleep(2500 * time.Millisecond) // reconnect, Logon, ResendRequest, burst, reset inside it, reconnect
	}
	if run%4 == 2 {
		// the application takes its time over every Logon (ToAdmin) while another goroutine keeps
		// submitting through the reconnect: what is accepted during the handshake is delivered too
		for _, a := range []*realApp{appA, appB} {
			a.mu.Lock()
			a.slowLogon = 250 * time.Millisecond
			a.mu.Unlock()
		}
		proxy.cut()
		for i := 0; i < 40; i++ {
			sendFrom(idA, "A", &nA, &accA)
			sendFrom(idB, "B", &nB, &accB)
			time.Sleep(50 * time.Millisecond)
		}
		for _, a := range []*realApp{appA, appB} {
			a.mu.Lock()
			a.slowLogon = 0
			a.mu.Unlock()
		}
	}
	restarted := ""
	if file && run%4 == 1 || file && run%4 == 3 {
		// an engine is stopped and created again on the same file store while the other side still
		// has a burst in flight towards it and its application consumes slowly: whatever the old
		// engine still processes during its logout must be known to the new one
		setSlow := func(a *realApp, d time.Duration) {
			a.mu.Lock()
			a.slowFromApp = d
			a.mu.Unlock()
		}
		if run%4 == 1 {
			restarted = "initiator"
			setSlow(appA, 15*time.Millisecond)
			for i := 0; i < 30; i++ {
				sendFrom(idB, "B", &nB, &accB)
			}
			time.Sleep(time.Duration(10+20*(run%3)) * time.Millisecond)
			stopBounded(ini.Stop)
			ini2, err := quickfix.NewInitiator(appA, sfA, setA, quickfix.NewNullLogFactory())
			if err != nil {
				return "", "initiator-recreate", err.Error()
			}
			if err := ini2.Start(); err != nil {
				return "", "initiator-restart", err.Error()
			}
			defer stopBounded(ini2.Stop)
			setSlow(appA, 0)
		} else {
			restarted = "acceptor"
			setSlow(appB, 15*time.Millisecond)
			for i := 0; i < 30; i++ {
				sendFrom(idA, "A", &nA, &accA)
			}
			time.Sleep(time.Duration(10+20*(run%3)) * time.Millisecond)
			stopBounded(acc.Stop)
			acc2, err := quickfix.NewAcceptor(appB, sfB, setB, quickfix.NewNullLogFactory())
			if err != nil {
				return "", "acceptor-recreate", err.Error()
			}
			if err := acc2.Start(); err != nil {
				return "", "acceptor-restart", err.Error()
			}
			defer stopBounded(acc2.Stop)
			setSlow(appB, 0)
		}
		for i := 0; i < 3; i++ {
			sendFrom(idA, "A", &nA, &accA)
			sendFrom(idB, "B", &nB, &accB)
		}
	}
	// the link stays up now: wait until both sides have everything (bounded). A control timer
	// tells a wedged engine (no progress although this process runs on time) from a stalled machine.
	deadline := time.Now().Add(40 * time.Second)
	get := func(a *realApp) []string {
		a.mu.Lock()
		defer a.mu.Unlock()
		return append([]string(nil), a.recv...)
	}
	lastProgress, lastCount, worstOversleep, stuck := time.Now(), -1, time.Duration(0), false
	for time.Now().Before(deadline) {
		nb, na := len(get(appB)), len(get(appA))
		if nb >= len(accA) && na >= len(accB) {
			break
		}
		if nb+na != lastCount {
			lastCount, lastProgress = nb+na, time.Now()
		}
		if time.Since(lastProgress) > 15*time.Second {
			stuck = true
			break
		}
		a := time.Now()
		time.Sleep(50 * time.Millisecond)
		if over := time.Since(a) - 50*time.Millisecond; over > worstOversleep {
			worstOversleep = over
		}
	}
	time.Sleep(300 * time.Millisecond)
	gotB, gotA := get(appB), get(appA)
	detail = fmt.Sprintf("A accepted %d, B received %d; B accepted %d, A received %d (file stores: %v; engine restarted on its store under load: %q)", len(accA), len(gotB), len(accB), len(gotA), file, restarted)
	cmp := func(got, want []string, who string) string {
		if strings.Join(got, ",") == strings.Join(want, ",") {
			return ""
		}
		if len(got) < len(want) && strings.HasPrefix(strings.Join(want, ",")+",", strings.Join(got, ",")+",") {
			return "late:" + who // a prefix so far: still catching up when the time budget ended
		}
		return fmt.Sprintf("%s received %v, expected %v", who, got, want)
	}
	for _, r := range []string{cmp(gotB, accA, "B"), cmp(gotA, accB, "A")} {
		switch {
		case r == "":
		case strings.HasPrefix(r, "late:") && stuck && worstOversleep < 500*time.Millisecond:
			violation = fmt.Sprintf("no message delivered for 15 s with the link up although messages are outstanding (%s; this process's own timers were at most %v late)", r, worstOversleep)
		case strings.HasPrefix(r, "late:"):
			inconclusive = "still-catching-up-at-the-deadline"
		default:
			violation = r
		}
	}
	return
}

func TestC05_Sockets(t *testing.T) {
	if !vk.Thorough() {
		t.Skip("thorough tier only")
	}
	c := stats.Get("C05")
	shard, shards := vk.Shard()
	for run := 0; run < 32; run++ {
		if run%shards != shard {
			continue
		}
		v, inc, detail := socketRun(t, run, run%2 == 1)
		c.Eval()
		c.Class("socket-run")
		if run%4 == 2 {
			c.Class("socket-run:submissions-during-a-slow-logon-handshake")
		}
		if strings.Contains(detail, `under load: "initiator"`) {
			c.Class("socket-run:initiator-restarted-on-its-file-store-under-load")
		}
		if strings.Contains(detail, `under load: "acceptor"`) {
			c.Class("socket-run:acceptor-restarted-on-its-file-store-under-load")
		}
		c.NonTrivial(stats.Hash("socket", run))
		c.SampleClass("socket-run", detail)
		if inc != "" {
			c.Class("socket-run-inconclusive:" + inc)
		}
		if v != "" {
			vk.Guard(func() { vk.Violation(t, c, "C05/socket/end-state", "%s\n%s", v, detail) })
		}
	}
}

package session

// C20 - keep-alive: heartbeats, test requests and dead-peer disconnect.
// The harness owns the clock: the engine's two timers are observed through the timer hook (H2),
// virtual time advances under generator control and the rig delivers a timer event exactly when
// a deadline the engine armed is reached (and nothing if the engine did not arm one).

import (
	"fmt"
	"sort"
	"strconv"
	"strings"
	"testing"
	"time"

	"github.com/quickfixgo/quickfix/config"
	"pgregory.net/rapid"

	"verif/fixwire"
	"verif/peer"
	"verif/rig"
	"verif/stats"
	"verif/vk"
)

const c20Rule = "rapid state machine on a virtual clock: 'advance time by a fraction or multiple of HeartBtInt' (timer events delivered at the deadlines the engine armed), inbound messages (in sequence, too high, replays, TestRequests with generated IDs), engine sends, reconnects, in every logged-on state incl. recovering and test-request-pending; HeartBtInt from the Logon (acceptor) or configuration, override on/off, in-session reset Logons announcing another interval; non-trivial = virtual time crosses an armed deadline and an inbound message arrives in a pending state; distinct = distinct history"

func c20() *stats.Collector {
	c := stats.Get("C20")
	c.SetRule(c20Rule)
	return c
}

type vclock struct {
	now            time.Duration
	deadline       map[string]time.Duration // absolute virtual deadlines of the armed timers
	lastOut        time.Duration
	lastIn         time.Duration
	testReqAt      time.Duration
	pendingEndedAt time.Duration // the moment the last pending state was left (time under the exemption does not count as idle)
	hb             time.Duration // the interval the engine must be using
	feat           map[string]bool
	traceSeen      int
	dead           map[string]bool // timers the engine has stopped (EventTimer.Stop is terminal)
	asked          map[string]int  // TestReqIDs received so far (every inbound TestRequest, whatever its number)
	answered       map[string]int  // Heartbeats sent carrying that TestReqID
	resendBefore   struct {
		in                 bool
		stash              []int
		chunkEnd, rangeEnd int
		state              string
	}
}

func (v *vclock) after(s *sim, st rig.StepResult, ctx stepCtx) {
	c := s.c
	for _, e := range s.r.Entries(st) {
		switch e.Kind {
		case "timer-stopped":
			// the engine stopped the timer object for good: nothing it arms later will ever fire
			if v.dead == nil {
				v.dead = map[string]bool{}
			}
			v.dead[e.Timer] = true
			delete(v.deadline, e.Timer)
			s.logf("@%v the engine stopped its %s timer (terminal)", v.now, e.Timer)
		case "timer":
			if v.dead[e.Timer] {
				// armed after Stop: no event will come of it (the deadline is not entered)
				break
			}
			v.deadline[e.Timer] = v.now + e.Dur
			// the engine must arm the intervals the statement names
			if s.r.V.IsLoggedOn() || ctx.loggedOnBefore {
				want := v.hb
				if e.Timer == "peer" {
					want = time.Duration(1.2 * float64(v.hb))
				}
				if v.hb != 0 && e.Dur != want {
					vk.Violation(s.t, c, "C20/timer-armed-with-wrong-interval/"+e.Timer, "%s timer armed with %v, expected %v (HeartBtInt %v)\n%s", e.Timer, e.Dur, want, v.hb, s.history())
				}
			}
		case "out":
			v.lastOut = v.now
		}
	}
	if ctx.kind == "timer" && ctx.loggedOnBefore && v.hb != 0 {
		for _, e := range s.r.Outs(st) {
			if e.MsgType == "1" && v.now-v.lastIn < time.Duration(1.2*float64(v.hb)) {
				vk.Violation(s.t, c, "C20/test-request-before-silence-interval", "TestRequest sent although the last inbound message arrived only %v ago (1.2 x HeartBtInt = %v)\n%s", v.now-v.lastIn, time.Duration(1.2*float64(v.hb)), s.history())
			}
		}
	}
	if ctx.kind == "in" || ctx.kind == "garbage" {
		// (a frame that cannot be parsed is still something received: the counterparty is not silent)
		v.lastIn = v.now
	}
	// (1a) a Heartbeat carries a TestReqID only as the answer to a TestRequest: over the whole
	// history no ID is answered more often than it was asked (periodic Heartbeats carry none)
	if ctx.kind == "in" && ctx.msgType == "1" {
		if id := fixwire.GetS(ctx.fields, 112); id != "" {
			v.asked[id]++
		}
	}
	for _, e := range s.r.Outs(st) {
		if e.MsgType != "0" || e.PossDup {
			continue
		}
		if id := fixwire.GetS(e.Fields, 112); id != "" {
			v.answered[id]++
			if v.answered[id] > v.asked[id] {
				vk.Violation(s.t, c, "C20/heartbeat-carries-unasked-testreqid", "Heartbeat %d carries TestReqID %q which was asked %d time(s) and has now been answered %d time(s) (step: %s %s)\n%s", e.Seq, id, v.asked[id], v.answered[id], ctx.kind, ctx.msgType, s.history())
			}
			v.feat["heartbeat-with-testreqid"] = true
		} else if ctx.kind == "timer" && len(v.asked) > 0 {
			v.feat["plain-heartbeat-after-a-test-request"] = true
		}
	}
	// (1) an in-sequence TestRequest is answered by exactly one Heartbeat with the same TestReqID
	if ctx.kind == "in" && ctx.msgType == "1" && ctx.hasSeq && ctx.seq == ctx.tBefore && ctx.loggedOnBefore && ctx.wellFormed {
		id := fixwire.GetS(ctx.fields, 112)
		n := 0
		for _, e := range s.r.Outs(st) {
			if e.MsgType == "0" {
				n++
				if got := fixwire.GetS(e.Fields, 112); got != id {
					vk.Violation(s.t, c, "C20/heartbeat-wrong-testreqid", "TestRequest %q answered by Heartbeat with TestReqID %q\n%s", id, got, s.history())
				}
			}
		}
		if n != 1 {
			vk.Violation(s.t, c, "C20/test-request-not-answered-once", "in-sequence TestRequest %q answered by %d Heartbeats\n%s", id, n, s.history())
		}
		v.feat["test-request-answered"] = true
	}
	// (5a) sending the TestRequest itself does not disturb a recovery in progress either
	if ctx.kind == "timer" && ctx.stateBefore == "resend" && v.resendBefore.in && s.r.V.IsConnected() {
		in, stash, _, rangeEnd := s.r.V.ResendInfo()
		switch {
		case !in:
			vk.Violation(s.t, c, "C20/recovery-disturbed/by-timer-event", "a timer event in the resend state left state %s: the recovery bookkeeping (range end %d, kept %v) is gone\n%s", s.r.V.StateName(), v.resendBefore.rangeEnd, v.resendBefore.stash, s.history())
		case rangeEnd != v.resendBefore.rangeEnd || len(stash) != len(v.resendBefore.stash):
			vk.Violation(s.t, c, "C20/recovery-disturbed/by-timer-event", "a timer event in the resend state changed the recovery bookkeeping: range end %d -> %d, kept %v -> %v\n%s", v.resendBefore.rangeEnd, rangeEnd, v.resendBefore.stash, stash, s.history())
		}
		v.feat["timer-event-during-recovery"] = true
	}
	// (5) an inbound message in a pending state cancels the pending disconnect without disturbing a recovery
	if ctx.kind == "in" && strings.HasPrefix(ctx.stateBefore, "pending(") && s.r.V.IsConnected() && s.r.V.IsLoggedOn() {
		v.feat["inbound-while-pending"] = true
		stNow := s.r.V.StateName()
		if strings.HasPrefix(stNow, "pending(") {
			vk.Violation(s.t, c, "C20/pending-not-cancelled-by-inbound", "state %s after an inbound message in %s\n%s", stNow, ctx.stateBefore, s.history())
		}
		if ctx.stateBefore == "pending(resend)" {
			v.feat["inbound-while-pending-during-recovery"] = true
			in, stash, _, rangeEnd := s.r.V.ResendInfo()
			// (outside the pending state the resend state itself asks again when a gap fill arrives
			// while the expected number sits exactly at the end of the current chunk - with chunk
			// size 1 that is the case at the start of every chunk; the pending state must not add
			// anything to that, but it is not asked to suppress it)
			sameAsPlainResend := ctx.msgType == "4" && fixwire.GetS(ctx.fields, 123) == "Y" && v.resendBefore.chunkEnd != 0 && v.resendBefore.chunkEnd == ctx.tBefore
			for _, e := range s.r.Outs(st) {
				if e.MsgType == "2" && ctx.hasSeq && ctx.seq > ctx.tBefore && !sameAsPlainResend {
					vk.Violation(s.t, c, "C20/recovery-disturbed/second-resend-request", "a too-high message in pending(resend) triggered another ResendRequest\n%s", s.history())
				}
			}
			if in {
				sort.Ints(stash)
				// every message kept before is still kept, unless it has been passed meanwhile
				T := s.r.T()
				have := map[int]bool{}
				for _, k := range stash {
					have[k] = true
				}
				for _, k := range v.resendBefore.stash {
					if k >= T && !have[k] {
						vk.Violation(s.t, c, "C20/recovery-disturbed/stash-lost", "message %d kept before the inbound message is gone (stash before %v, after %v)\n%s", k, v.resendBefore.stash, stash, s.history())
					}
				}
				if rangeEnd != v.resendBefore.rangeEnd && T <= v.resendBefore.rangeEnd {
					vk.Violation(s.t, c, "C20/recovery-disturbed/range-changed", "resend range end %d -> %d\n%s", v.resendBefore.rangeEnd, rangeEnd, s.history())
				}
			} else if T := s.r.T(); T <= v.resendBefore.rangeEnd {
				vk.Violation(s.t, c, "C20/recovery-disturbed/left-recovery", "state %s although the range up to %d is not complete (expecting %d)\n%s", stNow, v.resendBefore.rangeEnd, T, s.history())
			}
		}
	}
	// remember the recovery bookkeeping for the next step
	v.resendBefore.in, v.resendBefore.stash, v.resendBefore.chunkEnd, v.resendBefore.rangeEnd = s.r.V.ResendInfo()
	if strings.HasPrefix(ctx.stateBefore, "pending(") && !strings.HasPrefix(s.r.V.StateName(), "pending(") {
		v.pendingEndedAt = v.now
	}
	if s.r.V.StateName() == "pending(inSession)" || s.r.V.StateName() == "pending(resend)" {
		if !strings.HasPrefix(ctx.stateBefore, "pending(") {
			v.testReqAt = v.now
		}
	}
}

// advance moves virtual time forward, firing the armed timers at their deadlines.
func (v *vclock) advance(s *sim, d time.Duration) {
	target := v.now + d
	for fired := 0; ; fired++ {
		if fired > 5000 {
			s.t.Fatalf("harness: more than 5000 timer events in one advance of %v (a timer armed with a zero interval?)\n%s", d, s.history())
		}
		next, name := time.Duration(-1), ""
		for _, n := range []string{"heartbeat", "peer"} {
			if dl, ok := v.deadline[n]; ok && dl <= target && (next < 0 || dl < next) {
				next, name = dl, n
			}
		}
		if next < 0 {
			break
		}
		if next > v.now {
			v.now = next
		}
		delete(v.deadline, name)
		v.feat["deadline-crossed:"+name] = true
		s.logf("@%v %s timer fires", v.now, name)
		if name == "heartbeat" {
			s.timer(1)
		} else {
			s.timer(0)
		}
		v.check(s)
	}
	v.now = target
	s.logf("@%v", v.now)
	v.check(s)
}

// check: the timed invariants at the current virtual instant.
func (v *vclock) check(s *sim) {
	c := s.c
	if !s.r.V.IsLoggedOn() || !s.r.V.IsConnected() || v.hb == 0 {
		return
	}
	st := s.r.V.StateName()
	pending := strings.HasPrefix(st, "pending(")
	peerWindow := time.Duration(1.2 * float64(v.hb))
	idleSince := v.lastOut
	if v.pendingEndedAt > idleSince {
		idleSince = v.pendingEndedAt
	}
	if !pending && v.now-idleSince > v.hb {
		vk.Violation(s.t, c, "C20/idle-without-heartbeat", "logged on, nothing sent for %v outside a pending test request (last frame at %v, pending ended at %v, now %v, HeartBtInt %v, state %s)\n%s", v.now-idleSince, v.lastOut, v.pendingEndedAt, v.now, v.hb, st, s.history())
	}
	if !pending && v.now-v.lastIn > peerWindow {
		vk.Violation(s.t, c, "C20/silent-peer-without-test-request", "nothing received for %v (1.2 x HeartBtInt = %v) and no TestRequest pending (state %s)\n%s", v.now-v.lastIn, peerWindow, st, s.history())
	}
	quietSince := v.testReqAt
	if v.lastIn > quietSince {
		quietSince = v.lastIn // (only an unparsable frame leaves the state pending)
	}
	if pending && v.now-quietSince > peerWindow {
		vk.Violation(s.t, c, "C20/dead-peer-not-disconnected", "TestRequest sent %v ago, nothing received for %v, still connected (state %s)\n%s", v.now-v.testReqAt, v.now-quietSince, st, s.history())
	}
}

func c20Property(t *rapid.T) {
	c := c20()
	cfg := genSimCfg(t)
	peerHB := rapid.SampledFrom([]int{1, 5, 30, 60}).Draw(t, "peer-heartbtint")
	cfgHB := rapid.SampledFrom([]int{2, 10, 30, 45}).Draw(t, "configured-heartbtint")
	override := !cfg.initiator && rapid.IntRange(0, 2).Draw(t, "override") == 0
	cfg.settings = map[string]string{}
	cfg.hb = cfgHB
	if override {
		cfg.settings[config.HeartBtIntOverride] = "Y"
		cfg.settings[config.HeartBtInt] = strconv.Itoa(cfgHB)
	}
	drawExtras(t, c, &cfg)
	s := newSim(t, c, cfg)
	defer s.close()
	v := &vclock{deadline: map[string]time.Duration{}, feat: map[string]bool{}, asked: map[string]int{}, answered: map[string]int{}}
	s.after = append(s.after, v.after)
	mon := &c04mon{feat: map[string]bool{}, kept: map[int]bool{}, dropped: map[int]bool{}}
	_ = mon
	wantHB := func() time.Duration {
		if cfg.initiator || override {
			return time.Duration(cfgHB) * time.Second
		}
		return time.Duration(peerHB) * time.Second
	}
	logon := func(lost int) {
		s.link, s.pendingReplays = nil, nil
		if s.p.NextOut < s.r.T() {
			s.p.NextOut = s.r.T()
		}
		if !s.connect() {
			t.Fatalf("harness: connect refused\n%s", s.history())
		}
		for i := 0; i < lost; i++ {
			s.peerLive("D", true)
		}
		// the counterparty may announce a different interval on every Logon
		peerHB = rapid.SampledFrom([]int{1, 5, 30, 60}).Draw(t, "peer-heartbtint-this-logon")
		v.hb = wantHB() // from here on the engine must use this interval
		_, f := s.p.Next("A", s.p.LogonBody(peerHB, false))
		s.deliver(f, true)
		if s.r.V.IsLoggedOn() {
			if got := s.r.V.HeartBtInt(); got != v.hb {
				vk.Violation(t, c, "C20/heartbeat-interval-not-adopted", "engine uses %v, expected %v (Logon announced %ds, configured %ds, override %v, initiator %v)\n%s", got, v.hb, peerHB, cfgHB, override, cfg.initiator, s.history())
			}
		}
	}
	logon(rapid.SampledFrom([]int{0, 0, 2}).Draw(t, "lost-before-logon"))
	relogon := func() {
		if !s.r.V.IsConnected() {
			v.feat["reconnect"] = true
			logon(0)
		}
	}
	t.Repeat(map[string]func(*rapid.T){
		"advance": func(t *rapid.T) {
			f := rapid.SampledFrom([]float64{0.3, 0.5, 0.9, 1.0, 1.1, 1.2, 1.3, 2.5, 3.7}).Draw(t, "intervals")
			v.advance(s, time.Duration(f*float64(v.hb)))
			relogon()
		},
		"peerLive": func(t *rapid.T) {
			s.peerLive(rapid.SampledFrom([]string{"D", "0", "1"}).Draw(t, "type"), rapid.IntRange(0, 5).Draw(t, "lost") == 0)
			s.peerReplay(1 << 30)
			for s.pumpOne() {
			}
			relogon()
		},
		"peerLiveHeld": func(t *rapid.T) {
			// generated but not delivered yet (delivered by a later "deliver")
			s.peerLive(rapid.SampledFrom([]string{"D", "0", "1"}).Draw(t, "type"), false)
		},
		"deliver": func(t *rapid.T) {
			if !s.pumpOne() {
				s.peerReplay(1)
				s.pumpOne()
			}
			relogon()
		},
		"engineSend": func(t *rapid.T) { s.engineSend(); s.flush() },
		"peerResetLogon": func(t *rapid.T) {
			// the counterparty resets the sequence numbers in session (Logon with ResetSeqNumFlag=Y,
			// number 1) and may announce another interval with it: an acceptor that is not configured
			// to override uses the interval announced in the peer's Logon - this one, from now on
			if !s.r.V.IsLoggedOn() || cfg.begin == "FIX.4.0" {
				return
			}
			if inResend, kept, _, _ := s.r.V.ResendInfo(); inResend || len(kept) > 0 {
				// (messages kept from before a reset are a matter of C01/C04, see DESIGN 9a: a kept
				// TestRequest of the old numbering would be answered later and blur this check)
				return
			}
			s.link, s.pendingReplays = nil, nil
			s.p.NextOut = 1
			s.p.History = map[int]*peer.Sent{}
			peerHB = rapid.SampledFrom([]int{1, 5, 30, 60}).Draw(t, "peer-heartbtint-this-logon")
			v.hb = wantHB()
			_, f := s.p.Next("A", s.p.LogonBody(peerHB, true))
			s.logf("peer resets in session, announcing %ds", peerHB)
			s.deliver(f, true)
			v.feat["in-session-reset-logon"] = true
			if s.r.V.IsLoggedOn() {
				if got := s.r.V.HeartBtInt(); got != v.hb {
					vk.Violation(t, c, "C20/heartbeat-interval-not-adopted/in-session-logon", "engine uses %v, expected %v (in-session Logon announced %ds, configured %ds, override %v, initiator %v)\n%s", got, v.hb, peerHB, cfgHB, override, cfg.initiator, s.history())
				}
			}
			relogon()
		},
		"garbage": func(t *rapid.T) {
			// a frame the stream framer hands over but the message parser refuses (MsgType not the
			// third field / BodyLength wrong): no message, but the line is evidently not dead
			if !s.r.V.IsConnected() {
				return
			}
			raw := []byte(rapid.SampledFrom([]string{"8=" + cfg.begin + "\x019=5\x0134=1\x0110=000\x01", "8=" + cfg.begin + "\x019=999\x0135=0\x0134=1\x0110=000\x01"}).Draw(t, "garbage"))
			ctx := s.ctxFor("garbage", raw, false)
			s.logf("garbage in %s (state %s)", vk.Show(raw), ctx.stateBefore)
			st := s.r.In(raw)
			s.observe(st, ctx)
			v.feat["unparsable-frame"] = true
			if strings.HasPrefix(ctx.stateBefore, "pending(") {
				v.feat["unparsable-frame-while-pending"] = true
			}
			relogon()
		},
	})
	c.Eval()
	c.Class("role:" + map[bool]string{true: "initiator", false: "acceptor"}[cfg.initiator])
	c.Class(fmt.Sprintf("override:%v", override))
	for k := range v.feat {
		c.Class("history-with:" + k)
	}
	crossed := v.feat["deadline-crossed:heartbeat"] || v.feat["deadline-crossed:peer"]
	if crossed && v.feat["inbound-while-pending"] {
		c.NonTrivial(stats.Hash(strings.Join(s.log, "\n")))
		c.SampleClass(fmt.Sprintf("hb=%v", v.hb), map[string]interface{}{"config": cfg.String(), "interval": v.hb.String(), "history_tail": tail(s.log, 18)})
	}
}

func TestC20_Rapid(t *testing.T) {
	rapid.Check(t, func(t *rapid.T) {
		vk.Guard(func() { c20Property(t) })
	})
}

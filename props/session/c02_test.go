package session

// C02 - outbound messages are numbered consecutively and persisted before sending.
// Real goroutines submit application messages while the harness' main goroutine plays the run
// loop (engine-generated traffic, replays). The schedule is perturbed under generator control
// (pauses inside the application callbacks and the store, i.e. inside the engine's locks).
// Oracle: invariants over the stamped wire log and the stamped store-save log.

import (
	"bytes"
	"fmt"
	"os"
	"path/filepath"
	"runtime"
	"sort"
	"strconv"
	"strings"
	"sync"
	"sync/atomic"
	"testing"
	"time"

	"github.com/quickfixgo/quickfix"
	"pgregory.net/rapid"

	"verif/fixwire"
	"verif/peer"
	"verif/rig"
	"verif/stats"
	"verif/storekit"
	"verif/vk"
)

const c02Rule = "a logged-on session (memory, file or sqlite store), 2-6 real goroutines each submitting a generated list of application messages through queueForSend, while the main goroutine dispatches a generated list of run-loop events (TestRequests -> Heartbeats, defective messages -> Rejects, ResendRequests -> replays, heartbeat timer events, send-queue flushes); generated pauses (Gosched / 0-200 us) inside ToApp/ToAdmin and inside the store perturb the schedule; the unbuffered outbound channel is drained by one goroutine that stamps every frame, in the sequential stage an operator moving the outbound counter while the session is down; non-trivial = >=2 goroutines with an accepted send each and >=1 engine-generated message or replay overlapping them; distinct = distinct generated plan (schedules themselves are sampled, not enumerated). Sequential stage (epochs): one session (either role, memory or file store, persistence on/off, ResetOnLogon/Logout/Disconnect) driven through connects with a faithful counterparty (its Logon may carry ResetSeqNumFlag), an application that may set ResetSeqNumFlag on its outgoing Logon in ToAdmin, sends in any state, TestRequests, ResendRequests, heartbeat ticks, peer Logouts, disconnects and restarts on the file store; every save and every first-time frame is compared with a counter model; non-trivial there = a Logon or a store reset at a non-initial outbound number"

func c02() *stats.Collector {
	c := stats.Get("C02")
	c.SetRule(c02Rule)
	return c
}

func c02Property(t *rapid.T) {
	c := c02()
	begin := rapid.SampledFrom([]string{"FIX.4.2", "FIX.4.4", "FIXT.1.1", "FIX.4.0"}).Draw(t, "begin")
	storeKind := rapid.SampledFrom([]string{"memory", "memory", "file", "sql"}).Draw(t, "store")
	id := quickfix.SessionID{BeginString: begin, SenderCompID: "ENG", TargetCompID: "PEER"}
	// the optional identity fields are part of the key under which a persistent store files the messages
	if rapid.Bool().Draw(t, "rich-identity") {
		opt := func(label, v string) string {
			if rapid.Bool().Draw(t, label) {
				return v
			}
			return ""
		}
		id.SenderSubID, id.SenderLocationID = opt("sender-sub", "DESK7"), opt("sender-loc", "NY")
		id.TargetSubID, id.TargetLocationID = opt("target-sub", "GW"), opt("target-loc", "LDN")
		id.Qualifier = opt("qualifier", "q1")
		c.Class("identity-with-optional-fields")
	}
	dir := ""
	var factory quickfix.MessageStoreFactory
	switch storeKind {
	case "file":
		dir = vk.Scratch("c02-")
		factory = storekit.FileFactory(dir, false, id)
	case "sql":
		dir = vk.Scratch("c02-")
		db := filepath.Join(dir, "s.db")
		if err := storekit.CreateSQLite(db); err != nil {
			t.Fatalf("harness: %v", err)
		}
		factory = storekit.SQLFactory("sqlite3", db, id)
	}
	if dir != "" {
		defer os.RemoveAll(dir)
	}
	r, err := rig.New(rig.Config{ID: id, Initiator: false, Factory: factory, HeartBt: 30})
	if err != nil {
		t.Fatalf("harness: %v", err)
	}
	defer r.Close()
	r.ExternalDrain = true
	// generated pause plan, consumed by whoever comes next
	plan := rapid.SliceOfN(rapid.SampledFrom([]int{0, 0, 0, 1, 1, 20, 60, 200}), 8, 40).Draw(t, "pause-plan")
	var pauseIdx int64
	pause := func() {
		i := atomic.AddInt64(&pauseIdx, 1)
		switch d := plan[int(i)%len(plan)]; d {
		case 0:
		case 1:
			runtime.Gosched()
		default:
			time.Sleep(time.Duration(d) * time.Microsecond)
		}
	}
	r.InCallback = func(string) { pause() }
	// the application declines a generated subset of its own sends in ToApp: no number is used up
	declineEvery := rapid.SampledFrom([]int{0, 0, 3, 5}).Draw(t, "decline-every")
	r.RefuseSend = func(_ string, m *quickfix.Message) bool {
		if declineEvery == 0 {
			return false
		}
		id, _ := m.Body.GetString(11)
		return len(id) > 0 && int(id[len(id)-1]-'0')%declineEvery == 0 && strings.HasPrefix(id, "g")
	}
	r.StorePause = pause
	p := peer.New(begin, "PEER", "ENG")
	if _, ok := r.Connect(); !ok {
		t.Fatalf("harness: connect refused")
	}
	_, f := p.Next("A", p.LogonBody(30, false))
	r.In(f)
	if !r.V.IsLoggedOn() {
		t.Fatalf("harness: logon failed")
	}
	// a few messages before the concurrent phase so that ResendRequests have something to replay
	pre := rapid.IntRange(0, 6).Draw(t, "pre-sends")
	for i := 0; i < pre; i++ {
		m := quickfix.NewMessage()
		m.Header.SetString(35, "D")
		m.Body.SetString(11, "pre"+strconv.Itoa(i))
		if err := r.V.Send(m); err != nil {
			t.Fatalf("harness: %v", err)
		}
		r.Flush()
	}
	firstConcurrent := r.S()
	G := rapid.IntRange(2, 6).Draw(t, "goroutines")
	per := make([]int, G)
	for g := range per {
		per[g] = rapid.IntRange(1, 8).Draw(t, "sends")
	}
	evKinds := []string{"testrequest", "testrequest", "reject", "resend", "resend", "heartbeat", "flush", "flush", "yield"}
	// in a third of the cases the connection also drops and comes back while the goroutines keep
	// submitting: the Logon answer (and whatever else the session sends on its own) takes its
	// number under the same rules as the application's messages
	withReconnects := rapid.IntRange(0, 2).Draw(t, "with-reconnects") == 0
	if withReconnects {
		evKinds = append(evKinds, "reconnect", "reconnect")
	}
	events := rapid.SliceOfN(rapid.SampledFrom(evKinds), 3, 25).Draw(t, "events")
	reconnected := false
	var wg sync.WaitGroup
	var accepted int64
	start := make(chan struct{})
	for g := 0; g < G; g++ {
		wg.Add(1)
		go func(g int) {
			defer wg.Done()
			<-start
			for i := 0; i < per[g]; i++ {
				m := quickfix.NewMessage()
				m.Header.SetString(35, "D")
				m.Body.SetString(11, fmt.Sprintf("g%d-%d", g, i))
				m.Body.SetString(55, "IBM")
				if err := r.V.Send(m); err == nil {
					atomic.AddInt64(&accepted, 1)
				}
				pause()
			}
		}(g)
	}
	type segment struct {
		from, to int64
		kind     string
	}
	var segs []segment
	var requests []string
	var requestB []int
	close(start)
	engineMsgs := 0
	for _, ev := range events {
		from := r.StampNow()
		switch ev {
		case "testrequest":
			_, f := p.Next("1", []fixwire.Field{fixwire.F(112, "c"+strconv.Itoa(p.NextOut))})
			r.In(f)
			engineMsgs++
		case "reject":
			_, f := p.Next("D", []fixwire.Field{fixwire.F(11, ""), fixwire.F(55, "X")})
			r.In(f)
			engineMsgs++
		case "resend":
			hi := r.S() - 1
			if hi < 1 {
				hi = 1
			}
			b := 1 + int(atomic.LoadInt64(&pauseIdx))%hi
			_, f := p.Next("2", []fixwire.Field{fixwire.F(7, strconv.Itoa(b)), fixwire.F(16, "0")})
			requests = append(requests, fmt.Sprintf("RR(%d,0)@%d..", b, r.StampNow()))
			requestB = append(requestB, b)
			r.In(f)
			requests[len(requests)-1] += strconv.FormatInt(r.StampNow(), 10)
			engineMsgs++
		case "heartbeat":
			r.Timeout(1)
			engineMsgs++
		case "reconnect":
			r.Disconnect()
			// (every connection has its own reader goroutine stamping what it takes off the wire:
			// the old one has taken everything before the new connection exists)
			r.WaitDrained()
			if _, ok := r.Connect(); ok {
				_, f := p.Next("A", p.LogonBody(30, false))
				r.In(f)
			}
			reconnected = true
			engineMsgs++
		case "flush":
			r.Flush()
		case "yield":
			pause()
		}
		segs = append(segs, segment{from, r.StampNow(), ev})
	}
	wg.Wait()
	// the run loop keeps honouring the send-queue event until the queue is empty (a non-blocking
	// write fails while the writer goroutine is busy)
	for i := 0; i < 20000 && r.V.QueuedToSend() > 0; i++ {
		r.V.TakeMessageEvent()
		r.V.SendAppMessages()
		runtime.Gosched()
		if i > 100 {
			time.Sleep(50 * time.Microsecond)
		}
	}
	if !r.V.IsLoggedOn() {
		t.Fatalf("harness: the session left the logged-on state during the case (state %s)", r.V.StateName())
	}
	if reconnected {
		c.Class("threads:reconnect-while-goroutines-submit")
	}
	lastS := r.S()
	r.Disconnect()
	r.WaitDrained()
	wire := r.WireSnapshot()
	saves := r.SavesSnapshot()
	c.Eval()
	describe := func() string {
		var sb strings.Builder
		fmt.Fprintf(&sb, "store %s, %d goroutines x %v sends, events %v\nresend requests: %v\nsaves:", storeKind, G, per, events, requests)
		for _, s := range saves {
			fmt.Fprintf(&sb, " %d@%d", s.Seq, s.Stamp)
		}
		sb.WriteString("\nwire:")
		for _, w := range wire {
			fs, _ := fixwire.Scan(w.Bytes, nil)
			pd := ""
			if fixwire.GetS(fs, 43) == "Y" {
				pd = "PD"
			}
			extra := ""
			if ns := fixwire.GetS(fs, 36); ns != "" {
				extra = "->" + ns
			}
			if b7 := fixwire.GetS(fs, 7); b7 != "" {
				extra = "(" + b7 + "," + fixwire.GetS(fs, 16) + ")"
			}
			fmt.Fprintf(&sb, " %s%d%s%s@%d", fixwire.GetS(fs, 35), w.Seq, pd, extra, w.Stamp)
		}
		return sb.String()
	}
	// (a) numbers handed out form a gap-free run in call order
	for i := 1; i < len(saves); i++ {
		if saves[i].Seq != saves[i-1].Seq+1 {
			vk.Violation(t, c, "C02/numbers-not-consecutive", "save %d follows save %d\n%s", saves[i].Seq, saves[i-1].Seq, describe())
		}
	}
	if len(saves) > 0 && lastS != saves[len(saves)-1].Seq+1 {
		vk.Violation(t, c, "C02/next-number-not-one-past-highest", "store says next %d, highest handed out %d\n%s", lastS, saves[len(saves)-1].Seq, describe())
	}
	saveBySeq := map[int]rig.Stamped{}
	for _, s := range saves {
		saveBySeq[s.Seq] = s
	}
	// (b) first-time transmissions in increasing order, every assigned number transmitted
	lastFirst := 0
	sentFirst := map[int]bool{}
	for _, w := range wire {
		fs, _ := fixwire.Scan(w.Bytes, map[int]int{212: 213})
		if fixwire.GetS(fs, 43) == "Y" {
			continue
		}
		if w.Seq <= lastFirst {
			vk.Violation(t, c, "C02/first-time-frames-out-of-order", "frame %d after %d\n%s", w.Seq, lastFirst, describe())
		}
		lastFirst = w.Seq
		sentFirst[w.Seq] = true
		// (c) persisted, with identical bytes, before it reached the wire
		sv, ok := saveBySeq[w.Seq]
		if !ok {
			if w.Seq >= firstConcurrent {
				vk.Violation(t, c, "C02/sent-but-not-persisted/"+storeKind, "frame %d on the wire without a completed save\n%s", w.Seq, describe())
			}
			continue
		}
		if !bytes.Equal(sv.Bytes, w.Bytes) {
			vk.Violation(t, c, "C02/persisted-bytes-differ/"+storeKind, "frame %d: wire %s, store %s\n%s", w.Seq, vk.Show(w.Bytes), vk.Show(sv.Bytes), describe())
		}
		if sv.Stamp > w.Stamp {
			vk.Violation(t, c, "C02/sent-before-persisted/"+storeKind, "frame %d left at stamp %d, its save completed at %d\n%s", w.Seq, w.Stamp, sv.Stamp, describe())
		}
	}
	for _, s := range saves {
		// (a message accepted while the connection was down is not transmitted for the first time:
		// with reconnects in the plan this clause is left to the sequential stage)
		if !sentFirst[s.Seq] && !reconnected {
			vk.Violation(t, c, "C02/assigned-number-never-transmitted", "number %d was handed out while logged on but never transmitted\n%s", s.Seq, describe())
		}
	}
	if got, err := r.Store().GetMessages(firstConcurrent, lastS); err == nil {
		n := 0
		for _, s := range saves {
			if s.Seq >= firstConcurrent {
				n++
			}
		}
		if len(got) != n {
			vk.Violation(t, c, "C02/store-content/"+storeKind, "store returns %d messages for [%d,%d], %d were saved\n%s", len(got), firstConcurrent, lastS, n, describe())
		}
	}
	// (d) no first-time frame between replayed ones while a ResendRequest is answered. Replays
	// are recognised by content: a PossDup frame continues the current replay when its number is
	// where the previous PossDup frame's coverage ended (and no request starts at that number).
	overlapReplay := false
	requestBegins := map[int]bool{}
	for _, b := range requestB {
		requestBegins[b] = true
	}
	cover, interrupted, inReplay := 0, false, false
	for _, w := range wire {
		fs, _ := fixwire.Scan(w.Bytes, map[int]int{212: 213})
		if fixwire.GetS(fs, 43) != "Y" {
			if inReplay {
				interrupted = true
			}
			continue
		}
		if inReplay && interrupted && w.Seq == cover && !requestBegins[w.Seq] {
			vk.Violation(t, c, "C02/first-time-frame-inside-replay", "PossDup frame %d continues a replay after first-time frames were transmitted in between\n%s", w.Seq, describe())
		}
		if inReplay && interrupted {
			overlapReplay = true
		}
		inReplay, interrupted = true, false
		cover = w.Seq + 1
		if ns, ok := fixwire.GetInt(fs, 36); ok && fixwire.GetS(fs, 35) == "4" {
			cover = ns
		}
	}
	c.Class("store:" + storeKind)
	if overlapReplay {
		c.Class("replay-overlapping-sends")
	}
	if engineMsgs > 0 {
		c.Class("engine-traffic-overlapping-sends")
	}
	if declineEvery != 0 {
		c.Class("application-declines-some-sends")
	}
	if accepted >= 2 && engineMsgs >= 1 {
		keys := append([]string{storeKind, fmt.Sprint(per), fmt.Sprint(events)}, fmt.Sprint(plan))
		sort.Strings(keys[:0])
		c.NonTrivial(stats.Hash(strings.Join(keys, "|")))
		c.SampleClass(storeKind, map[string]interface{}{"goroutines": G, "sends": per, "events": events, "frames": len(wire), "saves": len(saves)})
	}
}

func TestC02_Rapid(t *testing.T) {
	rapid.Check(t, func(t *rapid.T) {
		vk.Guard(func() { c02Property(t) })
	})
}

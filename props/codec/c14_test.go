package codec

// C14 - field value types convert canonically and reject everything else.
// Oracles here are independent grammars and big-number arithmetic; nothing is compared with
// quickfix's own parsing.

import (
	"fmt"
	"math"
	"math/big"
	"os"
	"path/filepath"
	"sort"
	"strings"
	"testing"
	"time"

	"github.com/quagmt/udecimal"
	"github.com/quickfixgo/quickfix"
	"github.com/shopspring/decimal"
	"pgregory.net/rapid"

	"verif/stats"
	"verif/vk"
)

const c14Rule = "strings enumerated exhaustively over a near-miss alphabet up to a length bound (int, float, boolean) or as all 1- and 2-position substitutions/truncations of canonical timestamps, plus rapid-drawn values and long strings; a case is non-trivial when the string is in the type's grammar or becomes so by deleting/substituting at most two characters (accepted texts and near misses), or is a value round trip; distinct = distinct (type, text/value)"

func c14() *stats.Collector {
	c := stats.Get("C14")
	c.SetRule(c14Rule)
	return c
}

type fataler interface {
	Fatalf(string, ...interface{})
	Logf(string, ...interface{})
}

// c14fail routes a violated clause through the known-finding protocol and, for plain
// (non-rapid) enumerations, saves the input as the replay file.
func c14fail(t fataler, typ, clause, class, input, detail string) {
	sig := fmt.Sprintf("C14/%s/%s/%s", typ, clause, class)
	if !vk.IsKnownOpen("C14", sig) {
		saveReplayInput("TestReplay_C14_Input", sig, typ+"\n"+input)
	}
	vk.Violation(t, c14(), sig, "type=%s input=%q: %s", typ, input, detail)
}

func saveReplayInput(test, sig, content string) {
	dir := os.Getenv("VERIF_REPLAY_OUT")
	if dir == "" {
		return
	}
	slug := strings.Map(func(r rune) rune {
		if r >= 'a' && r <= 'z' || r >= 'A' && r <= 'Z' || r >= '0' && r <= '9' || r == '-' || r == '_' {
			return r
		}
		return '_'
	}, sig)
	_ = os.WriteFile(filepath.Join(dir, test+"--"+slug+".txt"), []byte(content), 0o644)
}

func charClass(s string, grammarChars string) string {
	if s == "" {
		return "empty"
	}
	names := map[string]bool{}
	for i := 0; i < len(s); i++ {
		b := s[i]
		if strings.IndexByte(grammarChars, b) >= 0 {
			continue
		}
		switch {
		case b == '+':
			names["plus"] = true
		case b == ' ':
			names["space"] = true
		case b == '.':
			names["dot"] = true
		case b == ',':
			names["comma"] = true
		case b == '-':
			names["minus"] = true
		case b == ':':
			names["colon"] = true
		case b == '_':
			names["underscore"] = true
		case b == 'e' || b == 'E':
			names["exponent"] = true
		case b >= '0' && b <= '9':
			names["digit"] = true
		case b >= 'a' && b <= 'z' || b >= 'A' && b <= 'Z':
			names["letter"] = true
		default:
			names["other"] = true
		}
	}
	if len(names) == 0 {
		return "shape"
	}
	var l []string
	for n := range names {
		l = append(l, n)
	}
	sort.Strings(l)
	return strings.Join(l, "+")
}

func isDigits(s string) bool {
	if s == "" {
		return false
	}
	for i := 0; i < len(s); i++ {
		if s[i] < '0' || s[i] > '9' {
			return false
		}
	}
	return true
}

// ---------------------------------------------------------------- int

func intGrammar(s string) bool { return isDigits(strings.TrimPrefix(s, "-")) }

func nearGrammar(s string, in func(string) bool) bool {
	if in(s) {
		return true
	}
	n := len(s)
	if n > 12 {
		return false
	}
	for i := 0; i < n; i++ {
		if in(s[:i] + s[i+1:]) {
			return true
		}
		for j := i + 1; j < n; j++ {
			if in(s[:i] + s[i+1:j] + s[j+1:]) {
				return true
			}
		}
	}
	return false
}

func checkIntRead(t fataler, s string) {
	c := c14()
	c.Eval()
	if nearGrammar(s, intGrammar) {
		c.NonTrivial(stats.Hash("int", s))
	}
	var f quickfix.FIXInt
	if (stats.Hash("prior", s)>>8)%2 == 0 {
		_ = f.Read([]byte("-77")) // a used receiver
	}
	var err error
	pan := catch(func() { err = f.Read([]byte(s)) })
	if pan != nil {
		c14fail(t, "int", "panic", charClass(s, "0123456789"), s, fmt.Sprint(pan))
		return
	}
	if !intGrammar(s) {
		c.Class("int:must-reject")
		if nearGrammar(s, intGrammar) {
			c.SampleClass("int:near-miss-rejected", s)
		}
		if err == nil {
			c14fail(t, "int", "accepts-nongrammar", charClass(s, "0123456789"), s, fmt.Sprintf("read as %d", int(f)))
		}
		return
	}
	v, _ := new(big.Int).SetString(s, 10)
	if !v.IsInt64() {
		c.Class("int:in-grammar-out-of-range")
		c.SampleClass("int:in-grammar-out-of-range", s)
		if err == nil {
			c14fail(t, "int", "wrong-value", "overflow", s, fmt.Sprintf("read as %d instead of an error", int(f)))
		}
		return
	}
	c.Class("int:must-accept")
	c.SampleClass("int:must-accept", s)
	if err != nil {
		c14fail(t, "int", "rejects-grammar", intShape(s), s, err.Error())
		return
	}
	if int64(f) != v.Int64() {
		c14fail(t, "int", "wrong-value", intShape(s), s, fmt.Sprintf("read as %d", int(f)))
	}
}

func intShape(s string) string {
	switch {
	case strings.HasPrefix(s, "-0") && len(s) > 2, strings.HasPrefix(s, "0") && len(s) > 1:
		return "leading-zero"
	case s == "-9223372036854775808":
		return "min-int"
	case strings.HasPrefix(s, "-"):
		return "negative"
	}
	return "plain"
}

func catch(f func()) (p interface{}) {
	defer func() { p = recover() }()
	f()
	return nil
}

// enumerate all strings over alphabet up to maxLen, sharded by index.
func enumStrings(alphabet string, maxLen int, f func(string)) int64 {
	shard, shards := vk.Shard()
	var idx int64
	buf := make([]byte, 0, maxLen)
	var rec func(depth int)
	rec = func(depth int) {
		if int(idx%int64(shards)) == shard {
			f(string(buf))
		}
		idx++
		if depth == maxLen {
			return
		}
		for i := 0; i < len(alphabet); i++ {
			buf = append(buf, alphabet[i])
			rec(depth + 1)
			buf = buf[:len(buf)-1]
		}
	}
	rec(0)
	return idx
}

// guarded runs one case under the known-finding guard.
func guarded(f func()) { vk.Guard(f) }

func TestC14_EnumInt(t *testing.T) {
	n := enumStrings("019-+ .ea", vk.Scale(6, 7), func(s string) { guarded(func() { checkIntRead(t, s) }) })
	c14().SetExhaustive(fmt.Sprintf("int: all %d strings over {0,1,9,-,+,space,.,e,a} up to length %d", n, vk.Scale(6, 7)), true)
	// boundary strings around the machine range
	for _, s := range []string{"9223372036854775807", "9223372036854775808", "-9223372036854775808", "-9223372036854775809",
		"18446744073709551616", "18446744073709551617", "00000000000000000000000000000007", "-00000000000000000000000000000007",
		"99999999999999999999", "-99999999999999999999", "4294967296", "-4294967297"} {
		guarded(func() { checkIntRead(t, s) })
	}
}

// ---------------------------------------------------------------- float

// strict FIX float grammar: -?digits[.digits*]; ".5" style is left unspecified.
func floatGrammar(s string) bool {
	s = strings.TrimPrefix(s, "-")
	i := strings.IndexByte(s, '.')
	if i < 0 {
		return isDigits(s)
	}
	return isDigits(s[:i]) && (s[i+1:] == "" || isDigits(s[i+1:]))
}

func floatUnspecified(s string) bool {
	s = strings.TrimPrefix(s, "-")
	return strings.HasPrefix(s, ".") && isDigits(s[1:])
}

func exactFloat(s string) (float64, bool) {
	neg := strings.HasPrefix(s, "-")
	s = strings.TrimPrefix(s, "-")
	frac := ""
	if i := strings.IndexByte(s, '.'); i >= 0 {
		s, frac = s[:i], s[i+1:]
	}
	num, _ := new(big.Int).SetString(s+frac, 10)
	den := new(big.Int).Exp(big.NewInt(10), big.NewInt(int64(len(frac))), nil)
	r := new(big.Rat).SetFrac(num, den)
	f, _ := r.Float64()
	if neg {
		f = -f
	}
	return f, !math.IsInf(f, 0)
}

func checkFloatRead(t fataler, s string) {
	c := c14()
	c.Eval()
	if nearGrammar(s, floatGrammar) {
		c.NonTrivial(stats.Hash("float", s))
	}
	var f quickfix.FIXFloat
	var err error
	if (stats.Hash("prior", s)>>8)%2 == 0 {
		_ = f.Read([]byte("-7.25")) // a used receiver
	}
	if pan := catch(func() { err = f.Read([]byte(s)) }); pan != nil {
		c14fail(t, "float", "panic", charClass(s, "0123456789.-"), s, fmt.Sprint(pan))
		return
	}
	switch {
	case floatGrammar(s):
		want, finite := exactFloat(s)
		if !finite {
			c.Class("float:overflow")
			if err == nil && !math.IsInf(float64(f), 0) {
				c14fail(t, "float", "wrong-value", "overflow", s, fmt.Sprintf("read as %v", float64(f)))
			}
			return
		}
		c.Class("float:must-accept")
		c.SampleClass("float:must-accept", s)
		if err != nil {
			c14fail(t, "float", "rejects-grammar", floatShape(s), s, err.Error())
			return
		}
		if float64(f) != want && !(want == 0 && float64(f) == 0) {
			c14fail(t, "float", "wrong-value", floatShape(s), s, fmt.Sprintf("read as %v want %v", float64(f), want))
		}
	case floatUnspecified(s):
		c.Class("float:unspecified")
	default:
		c.Class("float:must-reject")
		if nearGrammar(s, floatGrammar) {
			c.SampleClass("float:near-miss-rejected", s)
		}
		if err == nil {
			c14fail(t, "float", "accepts-nongrammar", charClass(s, "0123456789"), s, fmt.Sprintf("read as %v", float64(f)))
		}
	}
}

func floatShape(s string) string {
	switch {
	case strings.HasSuffix(s, "."):
		return "trailing-dot"
	case strings.HasPrefix(strings.TrimPrefix(s, "-"), "0") && len(strings.TrimPrefix(s, "-")) > 1 && !strings.HasPrefix(strings.TrimPrefix(s, "-"), "0."):
		return "leading-zero"
	case strings.HasPrefix(s, "-"):
		return "negative"
	}
	return "plain"
}

func TestC14_EnumFloat(t *testing.T) {
	n := enumStrings("015.-+eE x_n", vk.Scale(5, 6), func(s string) { guarded(func() { checkFloatRead(t, s) }) })
	c14().SetExhaustive(fmt.Sprintf("float: all %d strings over {0,1,5,.,-,+,e,E,space,x,_,n} up to length %d", n, vk.Scale(5, 6)), true)
	for _, s := range []string{"Inf", "-Inf", "NaN", "nan", "inf", "0x10", "1e5", "1E5", "1_000", "+1.5", " 1.5", "1.5 ", "1..5", "1.5.", "--1", "-", ".", "-.",
		strings.Repeat("9", 400), "-" + strings.Repeat("9", 400), "0." + strings.Repeat("0", 400) + "1", "179769313486231570" + strings.Repeat("0", 291),
		"00023.23", "23.0000", "23.", "-0", "-0.0", "0.1", "123456789012345", "0.000000000000001"} {
		guarded(func() { checkFloatRead(t, s) })
	}
}

// ---------------------------------------------------------------- boolean

func TestC14_EnumBool(t *testing.T) {
	c := c14()
	shard, shards := vk.Shard()
	if shard != 0 && shards > 0 {
		// small space: one shard does all of it
		return
	}
	check := func(s string) {
		guarded(func() {
			c.Eval()
			var f quickfix.FIXBoolean
			var err error
			if pan := catch(func() { err = f.Read([]byte(s)) }); pan != nil {
				c14fail(t, "bool", "panic", "any", s, fmt.Sprint(pan))
			}
			switch s {
			case "Y", "N":
				c.NonTrivial(stats.Hash("bool", s))
				c.Class("bool:must-accept")
				if err != nil || bool(f) != (s == "Y") {
					c14fail(t, "bool", "rejects-grammar", s, s, fmt.Sprint(err))
				}
			default:
				if len(s) <= 1 || strings.ContainsAny(s, "YNyn") {
					c.NonTrivial(stats.Hash("bool", s))
				}
				c.Class("bool:must-reject")
				if err == nil {
					c14fail(t, "bool", "accepts-nongrammar", fmt.Sprintf("len%d", len(s)), s, fmt.Sprint(bool(f)))
				}
			}
		})
	}
	check("")
	for a := 0; a < 256; a++ {
		check(string([]byte{byte(a)}))
		for b := 0; b < 256; b++ {
			check(string([]byte{byte(a), byte(b)}))
		}
	}
	for _, s := range []string{"YES", "NO", "true", "false", "Y ", " Y", "YY", "1", "0"} {
		check(s)
	}
	c.SetExhaustive("boolean: every byte string of length <= 2", true)
	// write -> read
	for _, v := range []bool{true, false} {
		var f quickfix.FIXBoolean
		if err := f.Read(quickfix.FIXBoolean(v).Write()); err != nil || bool(f) != v {
			c14fail(t, "bool", "roundtrip", "value", fmt.Sprint(v), fmt.Sprint(err))
		}
	}
}

// ---------------------------------------------------------------- timestamp

var tsLens = map[int]quickfix.TimestampPrecision{17: quickfix.Seconds, 21: quickfix.Millis, 24: quickfix.Micros, 27: quickfix.Nanos}

func daysIn(y, m int) int {
	switch m {
	case 4, 6, 9, 11:
		return 30
	case 2:
		if y%4 == 0 && (y%100 != 0 || y%400 == 0) {
			return 29
		}
		return 28
	}
	return 31
}

type tsVerdict int

const (
	tsReject tsVerdict = iota
	tsAccept
	tsUnspecified
)

func num(s string) int {
	n := 0
	for i := 0; i < len(s); i++ {
		n = n*10 + int(s[i]-'0')
	}
	return n
}

// tsOracle: FIX UTCTimestamp YYYYMMDD-HH:MM:SS[.sss[sss[sss]]].
func tsOracle(s string) (tsVerdict, time.Time, quickfix.TimestampPrecision) {
	prec, ok := tsLens[len(s)]
	if !ok {
		return tsReject, time.Time{}, 0
	}
	if !(isDigits(s[0:8]) && s[8] == '-' && isDigits(s[9:11]) && s[11] == ':' && isDigits(s[12:14]) && s[14] == ':' && isDigits(s[15:17])) {
		return tsReject, time.Time{}, 0
	}
	ns := 0
	if len(s) > 17 {
		if s[17] != '.' || !isDigits(s[18:]) {
			return tsReject, time.Time{}, 0
		}
		ns = num(s[18:])
		for i := len(s) - 18; i < 9; i++ {
			ns *= 10
		}
	}
	y, mo, d, h, mi, se := num(s[0:4]), num(s[4:6]), num(s[6:8]), num(s[9:11]), num(s[12:14]), num(s[15:17])
	if mo < 1 || mo > 12 || d < 1 || d > daysIn(y, mo) || h > 23 || mi > 59 || se > 60 {
		return tsReject, time.Time{}, 0
	}
	if se == 60 {
		return tsUnspecified, time.Time{}, prec
	}
	return tsAccept, time.Date(y, time.Month(mo), d, h, mi, se, ns, time.UTC), prec
}

func tsNear(s string) bool { return true } // all enumerated timestamp texts are <= 2 edits from canonical by construction

var tsPriors = []string{"", "20000101-00:00:00", "20000101-00:00:00.000000", "20000101-00:00:00.000000000"}

func checkTsRead(t fataler, s string, nontrivial bool) {
	c := c14()
	c.Eval()
	if nontrivial {
		c.NonTrivial(stats.Hash("ts", s))
	}
	var f quickfix.FIXUTCTimestamp
	var err error
	// three quarters of the reads go into a receiver that already holds another value (callers
	// reuse values across messages): the result must not depend on what was there before
	if prior := tsPriors[int(stats.Hash("prior", s)>>8)%len(tsPriors)]; prior != "" {
		_ = f.Read([]byte(prior))
		c.Class("timestamp:read-into-used-receiver")
	}
	if pan := catch(func() { err = f.Read([]byte(s)) }); pan != nil {
		c14fail(t, "timestamp", "panic", charClass(s, "0123456789-:."), s, fmt.Sprint(pan))
		return
	}
	v, want, prec := tsOracle(s)
	switch v {
	case tsAccept:
		c.Class("timestamp:must-accept")
		c.SampleClass("timestamp:must-accept", s)
		if err != nil {
			c14fail(t, "timestamp", "rejects-grammar", fmt.Sprintf("len%d", len(s)), s, err.Error())
			return
		}
		if !f.Time.Equal(want) || f.Precision != prec {
			c14fail(t, "timestamp", "wrong-value", fmt.Sprintf("len%d", len(s)), s, fmt.Sprintf("read as %v prec %d, want %v prec %d", f.Time, f.Precision, want, prec))
			return
		}
		if w := string(f.Write()); w != s {
			c14fail(t, "timestamp", "text-roundtrip", fmt.Sprintf("len%d", len(s)), s, "written back as "+w)
		}
	case tsUnspecified:
		c.Class("timestamp:unspecified(leap-second)")
	default:
		c.Class("timestamp:must-reject")
		c.SampleClass("timestamp:must-reject/"+tsClass(s), s)
		if err == nil {
			c14fail(t, "timestamp", "accepts-nongrammar", tsClass(s), s, fmt.Sprintf("read as %v", f.Time))
		}
	}
}

func tsClass(s string) string {
	if _, ok := tsLens[len(s)]; !ok {
		return "length"
	}
	shape := "00000000-00:00:00.000000000"[:len(s)]
	names := map[string]bool{}
	for i := 0; i < len(s); i++ {
		want := shape[i]
		got := s[i]
		if want == '0' && got >= '0' && got <= '9' || want == got {
			continue
		}
		names[charClass(string(got), "")] = true
	}
	if len(names) == 0 {
		return "calendar-range"
	}
	var l []string
	for n := range names {
		l = append(l, n)
	}
	sort.Strings(l)
	return strings.Join(l, "+")
}

func TestC14_EnumTimestamp(t *testing.T) {
	shard, shards := vk.Shard()
	bases := []string{"20240229-23:59:59", "19991231-00:00:00.000", "20160615-12:30:45.123456", "00010101-01:01:01.000000001", "99991231-23:59:59.999999999", "20231105-07:08:09.500"}
	alpha := "0123456789-:., TZ+"
	var idx int64
	try := func(s string) {
		if int(idx%int64(shards)) == shard {
			guarded(func() { checkTsRead(t, s, true) })
		}
		idx++
	}
	for _, b := range bases {
		try(b)
		bs := []byte(b)
		// single and double substitutions
		for i := 0; i < len(bs); i++ {
			for a := 0; a < len(alpha); a++ {
				m := append([]byte(nil), bs...)
				m[i] = alpha[a]
				try(string(m))
				if !vk.Thorough() && len(bs) > 21 && i%3 != 0 {
					continue // quick tier thins double substitutions on the long forms
				}
				for j := i + 1; j < len(bs); j++ {
					for a2 := 0; a2 < len(alpha); a2++ {
						m2 := append([]byte(nil), m...)
						m2[j] = alpha[a2]
						try(string(m2))
					}
				}
			}
		}
		// truncations and extensions
		for n := 0; n < len(bs); n++ {
			try(string(bs[:n]))
		}
		for _, ext := range []string{"0", "Z", " ", ".", ".0", "00", "000", "+00:00"} {
			try(b + ext)
		}
	}
	// calendar boundaries at every precision
	fracs := []string{"", ".000", ".000000", ".000000000"}
	for _, y := range []int{0, 1, 1900, 1999, 2000, 2023, 2024, 2100, 9999} {
		for mo := 0; mo <= 13; mo++ {
			for _, d := range []int{0, 1, 28, 29, 30, 31, 32} {
				for _, hms := range [][3]int{{0, 0, 0}, {23, 59, 59}, {24, 0, 0}, {0, 60, 0}, {0, 0, 60}, {23, 59, 60}, {12, 0, 61}} {
					for _, fr := range fracs {
						try(fmt.Sprintf("%04d%02d%02d-%02d:%02d:%02d%s", y, mo, d, hms[0], hms[1], hms[2], fr))
					}
				}
			}
		}
	}
	c14().SetExhaustive(fmt.Sprintf("timestamp: %d texts = all 1- and 2-position substitutions over {0-9,-,:,.,comma,space,T,Z,+} of %d canonical texts (quick tier thins doubles on long forms), truncations, extensions, calendar grid", idx, len(bases)), vk.Thorough())
}

// ---------------------------------------------------------------- rapid: values and long strings

func TestC14_Rapid(t *testing.T) {
	c := c14()
	rapid.Check(t, func(t *rapid.T) {
		guarded(func() {
			switch rapid.IntRange(0, 9).Draw(t, "kind") {
			case 0: // int value round trip
				v := rapid.OneOf(rapid.Int64(), rapid.Int64Range(-1000, 1000), rapid.SampledFrom([]int64{math.MaxInt64, math.MinInt64, math.MaxInt64 - 1, math.MinInt64 + 1, 0, -1})).Draw(t, "int")
				c.Eval()
				c.NonTrivial(stats.Hash("intv", v))
				c.Class("int:value-roundtrip")
				w := quickfix.FIXInt(v).Write()
				var f quickfix.FIXInt
				var err error
				if pan := catch(func() { err = f.Read(w) }); pan != nil || err != nil || int64(f) != v {
					c14fail(t, "int", "value-roundtrip", intShape(string(w)), string(w), fmt.Sprintf("read %d err %v panic %v", int64(f), err, pan))
				}
				// canonical text: written text is the canonical form and reads back to itself
				if s := fmt.Sprint(v); string(w) != s {
					c14fail(t, "int", "non-canonical-write", "value", s, string(w))
				}
			case 1: // long digit strings (overflow region), optional sign, optional garbage char
				s := rapid.StringMatching(`-?[0-9]{15,30}`).Draw(t, "digits")
				if rapid.IntRange(0, 5).Draw(t, "garble") == 0 {
					pos := rapid.IntRange(0, len(s)).Draw(t, "pos")
					s = s[:pos] + rapid.SampledFrom([]string{"+", " ", ".", "e", "-", "x", ","}).Draw(t, "g") + s[pos:]
				}
				checkIntRead(t, s)
			case 2: // float value round trip (finite bit patterns)
				bits := rapid.Uint64().Draw(t, "bits")
				v := math.Float64frombits(bits)
				if math.IsNaN(v) || math.IsInf(v, 0) {
					v = float64(int64(bits % 1000000))
				}
				c.Eval()
				c.NonTrivial(stats.Hash("floatv", math.Float64bits(v)))
				c.Class("float:value-roundtrip")
				w := quickfix.FIXFloat(v).Write()
				if !floatGrammar(string(w)) {
					c14fail(t, "float", "non-grammar-write", "value", fmt.Sprint(v), string(w))
				}
				var f quickfix.FIXFloat
				var err error
				if pan := catch(func() { err = f.Read(w) }); pan != nil || err != nil || float64(f) != v {
					c14fail(t, "float", "value-roundtrip", "value", string(w), fmt.Sprintf("read %v err %v panic %v", float64(f), err, pan))
				}
				// text written is canonical: reading and writing again gives the same text
				if w2 := string(f.Write()); w2 != string(w) {
					c14fail(t, "float", "text-roundtrip", "value", string(w), w2)
				}
			case 3: // float texts: decimal strings with up to 15 significant digits, canonical shape
				ip := rapid.StringMatching(`(0|[1-9][0-9]{0,8})`).Draw(t, "ip")
				fp := rapid.StringMatching(`([0-9]{0,5}[1-9])?`).Draw(t, "fp")
				s := ip
				if fp != "" {
					s += "." + fp
				}
				if rapid.Bool().Draw(t, "neg") && strings.Trim(s, "0.") != "" {
					s = "-" + s
				}
				checkFloatRead(t, s)
				var f quickfix.FIXFloat
				if err := f.Read([]byte(s)); err == nil {
					c.Class("float:canonical-text-roundtrip")
					if w := string(f.Write()); w != s {
						c14fail(t, "float", "text-roundtrip", "canonical", s, w)
					}
				}
			case 4: // long / odd float strings
				s := rapid.StringMatching(`-?[0-9]{0,25}\.?[0-9]{0,25}`).Draw(t, "fs")
				if rapid.IntRange(0, 4).Draw(t, "garble") == 0 {
					pos := rapid.IntRange(0, len(s)).Draw(t, "pos")
					s = s[:pos] + rapid.SampledFrom([]string{"+", " ", ".", "e", "E", "-", "x", ",", "_", "p"}).Draw(t, "g") + s[pos:]
				}
				checkFloatRead(t, s)
			case 5, 6: // timestamp value round trip at each precision
				y := rapid.IntRange(0, 9999).Draw(t, "y")
				mo := rapid.IntRange(1, 12).Draw(t, "mo")
				d := rapid.IntRange(1, daysIn(y, mo)).Draw(t, "d")
				ns := rapid.OneOf(rapid.IntRange(0, 999999999), rapid.SampledFrom([]int{0, 999999999, 999999000, 999000000, 1, 999, 1000, 500000000})).Draw(t, "ns")
				tm := time.Date(y, time.Month(mo), d, rapid.IntRange(0, 23).Draw(t, "h"), rapid.IntRange(0, 59).Draw(t, "mi"), rapid.IntRange(0, 59).Draw(t, "s"), ns, time.UTC)
				if rapid.Bool().Draw(t, "zone") && y > 1 && y < 9999 {
					tm = tm.In(time.FixedZone("x", rapid.IntRange(-14*3600, 14*3600).Draw(t, "off")))
				}
				p := rapid.SampledFrom([]quickfix.TimestampPrecision{quickfix.Seconds, quickfix.Millis, quickfix.Micros, quickfix.Nanos}).Draw(t, "prec")
				unit := map[quickfix.TimestampPrecision]time.Duration{quickfix.Seconds: time.Second, quickfix.Millis: time.Millisecond, quickfix.Micros: time.Microsecond, quickfix.Nanos: time.Nanosecond}[p]
				c.Eval()
				c.NonTrivial(stats.Hash("tsv", tm.UnixNano(), y, int(p)))
				c.Class("timestamp:value-roundtrip")
				w := quickfix.FIXUTCTimestamp{Time: tm, Precision: p}.Write()
				c.SampleClass("timestamp:value-roundtrip", fmt.Sprintf("%s prec %d -> %s", tm.Format(time.RFC3339Nano), p, w))
				if v, _, op := tsOracle(string(w)); v != tsAccept || op != p {
					c14fail(t, "timestamp", "non-grammar-write", fmt.Sprintf("prec%d", p), tm.String(), string(w))
				}
				var f quickfix.FIXUTCTimestamp
				var err error
				if prior := rapid.SampledFrom(tsPriors).Draw(t, "prior"); prior != "" {
					_ = f.Read([]byte(prior))
				}
				want := tm.UTC()
				want = want.Add(-time.Duration(want.Nanosecond()) % unit) // truncate the sub-second part to the unit
				if pan := catch(func() { err = f.Read(w) }); pan != nil || err != nil || !f.Time.Equal(want) || f.Precision != p {
					c14fail(t, "timestamp", "value-roundtrip", fmt.Sprintf("prec%d", p), string(w), fmt.Sprintf("read %v prec %d err %v panic %v want %v", f.Time, f.Precision, err, pan, want))
				}
			case 7: // decimal (shopspring): scale semantics and canonical text
				coef := rapid.OneOf(rapid.Int64Range(-1000000, 1000000), rapid.Int64()).Draw(t, "coef")
				exp := rapid.Int32Range(-12, 0).Draw(t, "exp")
				scale := rapid.Int32Range(0, 12).Draw(t, "scale")
				d := decimal.New(coef, exp)
				c.Eval()
				c.NonTrivial(stats.Hash("dec", coef, exp, scale))
				c.Class("decimal:value-roundtrip")
				w := string(quickfix.FIXDecimal{Decimal: d, Scale: scale}.Write())
				c.SampleClass("decimal:value-roundtrip", fmt.Sprintf("%s scale %d -> %s", d, scale, w))
				if !fixedText(w, int(scale)) {
					c14fail(t, "decimal", "non-canonical-write", "scale", d.String(), w)
				}
				var f quickfix.FIXDecimal
				if err := f.Read([]byte(w)); err != nil {
					c14fail(t, "decimal", "value-roundtrip", "error", w, err.Error())
				}
				got, _ := new(big.Rat).SetString(f.Decimal.String())
				orig := new(big.Rat).SetFrac(big.NewInt(coef), new(big.Int).Exp(big.NewInt(10), big.NewInt(int64(-exp)), nil))
				diff := new(big.Rat).Sub(got, orig)
				diff.Abs(diff)
				tol := new(big.Rat).SetFrac(big.NewInt(1), new(big.Int).Exp(big.NewInt(10), big.NewInt(int64(scale)), nil))
				if -exp <= scale && diff.Sign() != 0 {
					c14fail(t, "decimal", "value-roundtrip", "exact", d.String(), fmt.Sprintf("written %s read %s", w, f.Decimal))
				}
				if diff.Cmp(tol) >= 0 {
					c14fail(t, "decimal", "value-roundtrip", "scale-tolerance", d.String(), fmt.Sprintf("written %s read %s", w, f.Decimal))
				}
				// canonical text -> read -> write
				f.Scale = scale
				if w2 := string(f.Write()); w2 != w && !negZero(w) {
					c14fail(t, "decimal", "text-roundtrip", "canonical", w, w2)
				}
			case 8: // udecimal
				coef := rapid.OneOf(rapid.Int64Range(-1000000, 1000000), rapid.Int64Range(-1<<53, 1<<53)).Draw(t, "coef")
				prec := uint8(rapid.IntRange(0, 12).Draw(t, "prec"))
				scale := uint8(rapid.IntRange(0, 12).Draw(t, "scale"))
				d, err := udecimal.NewFromInt64(coef, prec)
				if err != nil {
					return
				}
				c.Eval()
				c.NonTrivial(stats.Hash("udec", coef, prec, scale))
				c.Class("udecimal:value-roundtrip")
				w := string(quickfix.FIXUDecimal{Decimal: d, Scale: scale}.Write())
				if !fixedText(w, int(scale)) {
					c14fail(t, "udecimal", "non-canonical-write", "scale", d.String(), w)
				}
				var f quickfix.FIXUDecimal
				if err := f.Read([]byte(w)); err != nil {
					c14fail(t, "udecimal", "value-roundtrip", "error", w, err.Error())
				}
				got, _ := new(big.Rat).SetString(f.Decimal.String())
				orig := new(big.Rat).SetFrac(big.NewInt(coef), new(big.Int).Exp(big.NewInt(10), big.NewInt(int64(prec)), nil))
				diff := new(big.Rat).Sub(got, orig)
				diff.Abs(diff)
				tol := new(big.Rat).SetFrac(big.NewInt(1), new(big.Int).Exp(big.NewInt(10), big.NewInt(int64(scale)), nil))
				if prec <= scale && diff.Sign() != 0 {
					c14fail(t, "udecimal", "value-roundtrip", "exact", d.String(), fmt.Sprintf("written %s read %s", w, f.Decimal))
				}
				if diff.Cmp(tol) >= 0 {
					c14fail(t, "udecimal", "value-roundtrip", "scale-tolerance", d.String(), fmt.Sprintf("written %s read %s", w, f.Decimal))
				}
				f.Scale = scale
				if w2 := string(f.Write()); w2 != w && !negZero(w) {
					c14fail(t, "udecimal", "text-roundtrip", "canonical", w, w2)
				}
			case 9: // string / bytes identity
				b := rapid.SliceOfN(rapid.Byte(), 0, 64).Draw(t, "bytes")
				c.Eval()
				c.NonTrivial(stats.Hash("bytes", b))
				c.Class("string-bytes:roundtrip")
				var s quickfix.FIXString
				_ = s.Read(b)
				var y quickfix.FIXBytes
				_ = y.Read(b)
				if string(s) != string(b) || string(y) != string(b) || string(quickfix.FIXString(b).Write()) != string(b) || string(quickfix.FIXBytes(b).Write()) != string(b) {
					c14fail(t, "string", "roundtrip", "identity", string(b), "differs")
				}
				// the string read is a value: the caller's buffer is reused for the next message
				// (bytes.Buffer.Reset, a scratch slice refilled) and the string stays what was read
				if len(b) > 0 {
					want := string(append([]byte(nil), b...))
					for i := range b {
						b[i] ^= 0x55
					}
					if string(s) != want || string(s.Write()) != want {
						c14fail(t, "string", "roundtrip", "changed-when-the-source-bytes-were-reused", want, string(s))
					}
					c.Class("string-bytes:source-reused-after-read")
				}
			}
		})
	})
}

func negZero(w string) bool {
	return strings.HasPrefix(w, "-") && strings.Trim(w, "-0.") == ""
}

// fixedText: -?digits[.digits{scale}]
func fixedText(w string, scale int) bool {
	w = strings.TrimPrefix(w, "-")
	i := strings.IndexByte(w, '.')
	if scale == 0 {
		return i < 0 && isDigits(w)
	}
	return i > 0 && isDigits(w[:i]) && len(w)-i-1 == scale && isDigits(w[i+1:])
}

// TestReplay_C14_Input re-checks one saved input: first line type, rest the text.
func TestReplay_C14_Input(t *testing.T) {
	p := os.Getenv("VERIF_REPLAY")
	if p == "" {
		t.Skip("no VERIF_REPLAY")
	}
	b, err := os.ReadFile(p)
	if err != nil {
		t.Fatal(err)
	}
	parts := strings.SplitN(string(b), "\n", 2)
	if len(parts) != 2 {
		t.Fatal("bad replay file")
	}
	guarded(func() {
		switch parts[0] {
		case "int":
			checkIntRead(t, parts[1])
		case "float":
			checkFloatRead(t, parts[1])
		case "timestamp":
			checkTsRead(t, parts[1], true)
		default:
			t.Skipf("type %s has no text replay", parts[0])
		}
	})
}

// TestReplay_C14_Fixed: plain regression examples of the repaired defects (see KNOWN_FINDINGS.json).
func TestReplay_C14_Fixed(t *testing.T) {
	for _, s := range []string{"", "-", "9223372036854775808", "18446744073709551617", "-9223372036854775809", "-9223372036854775808", "9223372036854775807"} {
		guarded(func() { checkIntRead(t, s) })
	}
	for _, s := range []string{"20240101-00:00:00,123", "20240101-00:00:00.+12", "20240101-00:00:00.-12", "20240101-00:00:00.123", "20240101-00:00:00,123456", "20240101-00:00:00.+12345678"} {
		guarded(func() { checkTsRead(t, s, true) })
	}
}

// Package storekit builds real quickfix message stores (memory, file, sqlite) for the checks.
package storekit

import (
	"database/sql"
	"fmt"
	"os"
	"path/filepath"
	"sort"

	_ "github.com/mattn/go-sqlite3"
	"github.com/quickfixgo/quickfix"
	"github.com/quickfixgo/quickfix/config"
	"github.com/quickfixgo/quickfix/store/file"
	sqlstore "github.com/quickfixgo/quickfix/store/sql"
)

// RepoDir is where the repository under test lives (for the SQL DDL files and the spec directory).
func RepoDir() string {
	if r := os.Getenv("VERIF_REPO"); r != "" {
		return r
	}
	return "/repo"
}

// Settings builds a Settings object declaring the given sessions with the given global keys.
func Settings(global map[string]string, ids ...quickfix.SessionID) *quickfix.Settings {
	return SettingsPer(global, nil, ids...)
}

// SettingsPer is Settings with keys written into every session's own stanza as well.
func SettingsPer(global, perSession map[string]string, ids ...quickfix.SessionID) *quickfix.Settings {
	s := quickfix.NewSettings()
	for k, v := range global {
		s.GlobalSettings().Set(k, v)
	}
	for _, id := range ids {
		ss := quickfix.NewSessionSettings()
		ss.Set(config.BeginString, id.BeginString)
		ss.Set(config.SenderCompID, id.SenderCompID)
		ss.Set(config.TargetCompID, id.TargetCompID)
		set := func(k, v string) {
			if v != "" {
				ss.Set(k, v)
			}
		}
		set(config.SenderSubID, id.SenderSubID)
		set(config.SenderLocationID, id.SenderLocationID)
		set(config.TargetSubID, id.TargetSubID)
		set(config.TargetLocationID, id.TargetLocationID)
		set(config.SessionQualifier, id.Qualifier)
		for k, v := range perSession {
			ss.Set(k, v)
		}
		if _, err := s.AddSession(ss); err != nil {
			panic(err)
		}
	}
	return s
}

func FileFactory(dir string, sync bool, ids ...quickfix.SessionID) quickfix.MessageStoreFactory {
	g := map[string]string{config.FileStorePath: dir}
	if !sync {
		g[config.FileStoreSync] = "N"
	}
	return file.NewStoreFactory(Settings(g, ids...))
}

// FileFactorySynced is a file store factory with syncing enabled, configured in one of the ways a
// settings file can say so: 0 not mentioned (the default is on), 1 [DEFAULT] FileStoreSync=Y,
// 2 [DEFAULT] says N and the session's own stanza says Y (a session setting overrides the default),
// 3 only the session's stanza says Y.
func FileFactorySynced(dir string, variant int, ids ...quickfix.SessionID) quickfix.MessageStoreFactory {
	g := map[string]string{config.FileStorePath: dir}
	switch variant % 4 {
	case 1:
		g[config.FileStoreSync] = "Y"
	case 2:
		g[config.FileStoreSync] = "N"
	}
	var per map[string]string
	if variant%4 >= 2 {
		per = map[string]string{config.FileStoreSync: "Y"}
	}
	return file.NewStoreFactory(SettingsPer(g, per, ids...))
}

// CreateSQLite creates an sqlite database file with the repository's DDL.
func CreateSQLite(path string) error {
	db, err := sql.Open("sqlite3", path)
	if err != nil {
		return err
	}
	defer db.Close()
	files, _ := filepath.Glob(filepath.Join(RepoDir(), "_sql", "sqlite3", "*.sql"))
	sort.Strings(files)
	if len(files) == 0 {
		return fmt.Errorf("no DDL files under %s/_sql/sqlite3", RepoDir())
	}
	for _, f := range files {
		b, err := os.ReadFile(f)
		if err != nil {
			return err
		}
		if _, err := db.Exec(string(b)); err != nil {
			return err
		}
	}
	return nil
}

func SQLFactory(driver, dsn string, ids ...quickfix.SessionID) quickfix.MessageStoreFactory {
	g := map[string]string{config.SQLStoreDriver: driver, config.SQLStoreDataSourceName: dsn}
	return sqlstore.NewStoreFactory(Settings(g, ids...))
}

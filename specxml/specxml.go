// Package specxml is an independent reader of the QuickFIX dictionary XML files. It imports
// nothing from quickfix: a generic encoding/xml token walk builds a plain tree, and Expand
// flattens component references in place exactly as the specification describes (fields,
// components and groups in declaration order; a field is required for a message when it is
// required where it is declared and every component reference on the way to it is required).
package specxml

import (
	"encoding/xml"
	"fmt"
	"io"
	"os"
	"strconv"
	"strings"
)

type Node struct {
	Kind     string // field | component | group
	Name     string
	Required bool
	Children []*Node // group members (declaration order)
}

type FieldDecl struct {
	Number int
	Name   string
	Type   string
	Enums  []string
}

type MsgDecl struct {
	Name    string
	MsgType string
	MsgCat  string
	Members []*Node
}

type Spec struct {
	Path        string
	Type        string
	Major       string
	Minor       string
	ServicePack string
	Header      []*Node
	Trailer     []*Node
	Messages    []*MsgDecl
	Components  map[string][]*Node
	CompOrder   []string
	Fields      map[string]*FieldDecl
	ByNumber    map[int]*FieldDecl
	FieldOrder  []string
}

func attr(se xml.StartElement, name string) string {
	for _, a := range se.Attr {
		if a.Name.Local == name {
			return a.Value
		}
	}
	return ""
}

func ParseFile(path string) (*Spec, error) {
	f, err := os.Open(path)
	if err != nil {
		return nil, err
	}
	defer f.Close()
	s, err := Parse(f)
	if s != nil {
		s.Path = path
	}
	return s, err
}

func Parse(r io.Reader) (*Spec, error) {
	dec := xml.NewDecoder(r)
	s := &Spec{Components: map[string][]*Node{}, Fields: map[string]*FieldDecl{}, ByNumber: map[int]*FieldDecl{}}
	type frame struct {
		kind string
		dst  *[]*Node
	}
	var stack []frame
	section := ""
	var curField *FieldDecl
	for {
		tok, err := dec.Token()
		if err == io.EOF {
			break
		}
		if err != nil {
			return nil, err
		}
		switch el := tok.(type) {
		case xml.StartElement:
			name := el.Name.Local
			switch {
			case name == "fix":
				s.Type, s.Major, s.Minor, s.ServicePack = attr(el, "type"), attr(el, "major"), attr(el, "minor"), attr(el, "servicepack")
			case len(stack) == 0 && (name == "header" || name == "trailer" || name == "messages" || name == "components" || name == "fields"):
				section = name
				switch name {
				case "header":
					stack = append(stack, frame{"header", &s.Header})
				case "trailer":
					stack = append(stack, frame{"trailer", &s.Trailer})
				}
			case section == "messages" && name == "message":
				m := &MsgDecl{Name: attr(el, "name"), MsgType: attr(el, "msgtype"), MsgCat: attr(el, "msgcat")}
				s.Messages = append(s.Messages, m)
				stack = append(stack, frame{"message", &m.Members})
			case section == "components" && name == "component" && len(stack) == 0:
				cn := attr(el, "name")
				s.CompOrder = append(s.CompOrder, cn)
				s.Components[cn] = nil // filled when the element closes
				stack = append(stack, frame{"componentdef:" + cn, new([]*Node)})
			case section == "fields" && name == "field":
				n, _ := strconv.Atoi(attr(el, "number"))
				curField = &FieldDecl{Number: n, Name: attr(el, "name"), Type: attr(el, "type")}
				s.Fields[curField.Name] = curField
				s.ByNumber[n] = curField
				s.FieldOrder = append(s.FieldOrder, curField.Name)
			case section == "fields" && name == "value" && curField != nil:
				curField.Enums = append(curField.Enums, attr(el, "enum"))
			case len(stack) > 0 && (name == "field" || name == "component" || name == "group"):
				n := &Node{Kind: name, Name: attr(el, "name"), Required: attr(el, "required") == "Y"}
				top := stack[len(stack)-1]
				*top.dst = append(*top.dst, n)
				if name == "group" {
					stack = append(stack, frame{"group", &n.Children})
				} else {
					stack = append(stack, frame{"leaf", nil})
				}
			}
		case xml.EndElement:
			name := el.Name.Local
			switch {
			case name == "fields" || name == "messages" || name == "components":
				if len(stack) == 0 {
					section = ""
				}
			case name == "field" && section == "fields":
				curField = nil
			case len(stack) > 0 && (name == "field" || name == "component" || name == "group" || name == "message" || name == "header" || name == "trailer"):
				top := stack[len(stack)-1]
				if strings.HasPrefix(top.kind, "componentdef:") && name == "component" {
					s.Components[strings.TrimPrefix(top.kind, "componentdef:")] = *top.dst
				}
				stack = stack[:len(stack)-1]
				if len(stack) == 0 && (name == "header" || name == "trailer") {
					section = ""
				}
			}
		}
	}
	return s, nil
}

// Member is one flattened member of a message, header, trailer or group entry.
type Member struct {
	Tag      int
	Name     string
	Type     string
	Enums    []string
	Required bool
	IsGroup  bool
	Members  []*Member // group members in declaration order, components expanded in place
	// OptComp identifies the innermost optional component reference that encloses the member
	// ("" = none); ReqInComp says that the member is required once that component is present
	// (declared required, and every component between it and OptComp is required). FIX treats
	// such fields as conditionally required: present whenever any field of the component is.
	OptComp   string
	ReqInComp bool
}

// Expand flattens nodes in declaration order. parentRequired is the conjunction of the
// required flags of the component references enclosing these nodes.
func (s *Spec) Expand(nodes []*Node, parentRequired bool) ([]*Member, error) {
	n := 0
	return s.expand(nodes, parentRequired, nil, "", true, &n)
}

func (s *Spec) expand(nodes []*Node, parentRequired bool, active []string, optComp string, reqChain bool, counter *int) ([]*Member, error) {
	var out []*Member
	for _, n := range nodes {
		switch n.Kind {
		case "field", "group":
			fd, ok := s.Fields[n.Name]
			if !ok {
				return nil, fmt.Errorf("reference to undefined field %q", n.Name)
			}
			m := &Member{Tag: fd.Number, Name: fd.Name, Type: fd.Type, Enums: fd.Enums, Required: n.Required && parentRequired,
				OptComp: optComp, ReqInComp: optComp != "" && n.Required && reqChain}
			if n.Kind == "group" {
				m.IsGroup = true
				sub, err := s.expand(n.Children, true, active, "", true, counter)
				if err != nil {
					return nil, err
				}
				m.Members = sub
			}
			out = append(out, m)
		case "component":
			def, ok := s.Components[n.Name]
			if !ok {
				return nil, fmt.Errorf("reference to undefined component %q", n.Name)
			}
			for _, a := range active {
				if a == n.Name {
					return nil, fmt.Errorf("component cycle through %q", n.Name)
				}
			}
			oc, rc := optComp, reqChain
			if !n.Required {
				*counter++
				oc, rc = fmt.Sprintf("%s#%d", n.Name, *counter), true
			}
			sub, err := s.expand(def, parentRequired && n.Required, append(active, n.Name), oc, rc, counter)
			if err != nil {
				return nil, err
			}
			out = append(out, sub...)
		}
	}
	return out, nil
}

// HasNestedComponent reports whether nodes reach a component inside a component or a group.
func (s *Spec) HasNestedComponent(nodes []*Node, depth int, seen map[string]bool) bool {
	for _, n := range nodes {
		switch n.Kind {
		case "group":
			if s.HasNestedComponent(n.Children, depth+1, seen) {
				return true
			}
		case "component":
			if depth > 0 {
				return true
			}
			if seen[n.Name] {
				continue
			}
			seen[n.Name] = true
			if s.HasNestedComponent(s.Components[n.Name], depth+1, seen) {
				return true
			}
		}
	}
	return false
}

// BeginString of the specification.
func (s *Spec) BeginString() string {
	if s.Type == "FIXT" {
		return "FIXT." + s.Major + "." + s.Minor
	}
	return "FIX." + s.Major + "." + s.Minor
}

package session

// C09 (target T6): a session in any state fed any framed message neither panics nor stops
// working: after garbage it still answers a well-formed TestRequest.

import (
	"bytes"
	"fmt"
	"os"
	"strconv"
	"strings"
	"testing"
	"time"

	"github.com/quickfixgo/quickfix"
	"github.com/quickfixgo/quickfix/config"
	"pgregory.net/rapid"

	"verif/fixwire"
	"verif/peer"
	"verif/rig"
	"verif/stats"
	"verif/storekit"
	"verif/vk"
)

func c09() *stats.Collector {
	c := stats.Get("C09")
	return c
}

var c09Hostile = []string{"", "-1", "0", "99999", "999999999999999999999", "-9223372036854775808", "1x", "+5", "2147483648", "Y", "20240101-00:00:00"}

// mutateFrame applies field-level mutations to a valid frame and re-frames the result through
// the engine's own stream parser, so that only wire-reachable frames are fed to the session.
func mutateFrame(t *rapid.T, msg []byte) [][]byte {
	n := rapid.SampledFrom([]int{0, 1, 1, 2, 3}).Draw(t, "nmut")
	for i := 0; i < n; i++ {
		fields := bytes.SplitAfter(msg, []byte{1})
		if len(fields) > 0 && len(fields[len(fields)-1]) == 0 {
			fields = fields[:len(fields)-1]
		}
		if len(fields) < 2 {
			break
		}
		idx := rapid.IntRange(0, len(fields)-1).Draw(t, "field")
		setValue := func(i int, v string) {
			if eq := bytes.IndexByte(fields[i], '='); eq >= 0 {
				fields[i] = append(append(append([]byte{}, fields[i][:eq+1]...), v...), 1)
			}
		}
		switch rapid.SampledFrom([]string{"hostile-value", "hostile-value", "hostile-time", "empty-value", "dup", "drop", "swap", "insert-field", "retag"}).Draw(t, "mutation") {
		case "hostile-time":
			at := idx
			for k, f := range fields {
				if bytes.HasPrefix(f, []byte("52=")) && rapid.Bool().Draw(t, "sending-time") {
					at = k
				}
			}
			setValue(at, vk.HostileTimestamp(t, "ts"))
		case "hostile-value":
			setValue(idx, vk.HostileNumber(t, "v", c09Hostile))
		case "empty-value":
			setValue(idx, "")
		case "dup":
			fields = append(fields[:idx+1], append([][]byte{fields[idx]}, fields[idx+1:]...)...)
		case "drop":
			fields = append(fields[:idx], fields[idx+1:]...)
		case "swap":
			j := rapid.IntRange(0, len(fields)-1).Draw(t, "other")
			fields[idx], fields[j] = fields[j], fields[idx]
		case "insert-field":
			f := rapid.SampledFrom([]string{"212=5\x01", "212=99999\x01", "212=9223372036854775807\x01", "212=9223372036854775800\x01", "213=<x>\x01", "34=\x01", "43=Y\x01", "122=x\x01", "123=Y\x01", "36=\x01", "7=\x01", "16=-1\x01", "108=x\x01", "141=Y\x01", "453=3\x01", "=\x01", "x=1\x01", "10=\x01"}).Draw(t, "ins")
			fields = append(fields[:idx], append([][]byte{[]byte(f)}, fields[idx:]...)...)
		case "retag":
			if eq := bytes.IndexByte(fields[idx], '='); eq >= 0 {
				fields[idx] = append([]byte(rapid.SampledFrom([]string{"35", "34", "49", "9", "8", "10", "212", "0", "-1", "99999999999"}).Draw(t, "tag")), fields[idx][eq:]...)
			}
		}
		msg = bytes.Join(fields, nil)
	}
	// half of the time BodyLength and CheckSum are whatever the mutations left; otherwise the frame
	// is re-framed (when it still scans and starts with 8, 9) so that the mutated content gets past
	// the parser and reaches the session logic
	if n > 0 && rapid.Bool().Draw(t, "reframe") {
		if fs, err := fixwire.Scan(msg, map[int]int{212: 213}); err == nil && len(fs) > 3 && fs[0].Tag == 8 && fs[1].Tag == 9 && fs[len(fs)-1].Tag == 10 {
			msg = fixwire.Build(string(fs[0].Value), fs[2:len(fs)-1])
		}
	}
	p := quickfix.VerifNewParser(bytes.NewReader(msg))
	var frames [][]byte
	for i := 0; i < 4; i++ {
		var f []byte
		var err error
		func() {
			defer func() {
				if pv := recover(); pv != nil {
					// the framer itself gave way: the same defect the stream target of this property reports
					vk.Violation(t, c09(), "C09/stream/panic/"+vk.PanicClass(pv), "ReadMessage panicked while framing for the session target: %v; input %q", pv, msg)
				}
			}()
			f, err = p.ReadMessage()
		}()
		if err != nil {
			break
		}
		frames = append(frames, append([]byte(nil), f...))
	}
	return frames
}

// c09Limit bounds one dispatch of one frame (normally microseconds). Exceeding it is the "hangs"
// clause of the property: the history is printed with the violation signature and the process
// ends, because the engine goroutine is still spinning and every shrink attempt would hang again.
const c09Limit = 60 * time.Second

func c09In(s *sim, f []byte, what string) rig.StepResult {
	st, hung := s.r.InWatched(f, c09Limit)
	if hung {
		sig := "C09/session/hang"
		msg := fmt.Sprintf("the session did not return from %s within %v\nframe %s\n%s", what, c09Limit, vk.Show(f), s.history())
		if vk.IsKnownOpen("C09", sig) {
			fmt.Printf("KNOWN-HANG %s\n", sig)
			os.Exit(0)
		}
		fmt.Printf("--- FAIL: TestC09_Session\nVIOLATION-SIG %s :: %s\n", sig, strings.ReplaceAll(msg, "\n", "\n    "))
		os.Exit(1)
	}
	return st
}

func c09SessionProperty(t *rapid.T) {
	c := c09()
	cfg := simCfg{begin: rapid.SampledFrom(allBegins).Draw(t, "begin"), initiator: rapid.Bool().Draw(t, "initiator"), hb: 30, store: "memory",
		chunk: rapid.SampledFrom([]int{0, 0, 2}).Draw(t, "chunk"), settings: map[string]string{}}
	useDict := rapid.IntRange(0, 2).Draw(t, "dict") == 0
	if useDict {
		spec := storekit.RepoDir() + "/spec/"
		if cfg.begin == "FIXT.1.1" {
			cfg.settings[config.TransportDataDictionary] = spec + "FIXT11.xml"
			cfg.settings[config.AppDataDictionary] = spec + "FIX50SP2.xml"
		} else {
			cfg.settings[config.DataDictionary] = spec + dictForBegin[cfg.begin] + ".xml"
		}
	}
	// the validation switches, as a user may set them (a key left out keeps its default)
	for _, k := range []string{config.ValidateFieldsOutOfOrder, config.ValidateFieldsHaveValues, config.RejectInvalidMessage, config.AllowUnknownMessageFields, config.CheckUserDefinedFields} {
		if v := rapid.SampledFrom([]string{"", "", "", "Y", "N"}).Draw(t, k); v != "" {
			cfg.settings[k] = v
		}
	}
	useSchedule := rapid.IntRange(0, 4).Draw(t, "schedule") == 0
	if useSchedule {
		now := time.Now().UTC()
		cfg.settings[config.StartTime] = now.Add(-3 * time.Hour).Format("15:04:05")
		cfg.settings[config.EndTime] = now.Add(3 * time.Hour).Format("15:04:05")
	}
	s := newSim(t, c, cfg)
	defer s.close()
	state := rapid.SampledFrom([]string{"logon", "normal", "normal", "recovering", "pending", "logout", "disconnected", "outside-schedule"}).Draw(t, "state")
	if state == "outside-schedule" && !useSchedule {
		state = "normal"
	}
	switch state {
	case "logon":
		s.connect()
	case "disconnected":
	default:
		if !s.logon(0) {
			t.Fatalf("harness: logon failed\n%s", s.history())
		}
		s.peerLive("0", false)
		s.pumpOne()
		switch state {
		case "recovering":
			s.peerLive("0", true)
			s.peerLive("D", false)
			s.pumpOne()
		case "pending":
			s.timer(0)
			s.link = nil
		case "logout":
			st := s.r.Stop()
			s.observe(st, s.ctxFor("stop", nil, false))
		case "outside-schedule":
			st := s.r.CheckSessionTime(time.Now().Add(12 * time.Hour))
			s.observe(st, s.ctxFor("sessiontime", nil, false))
		}
	}
	// one to three frames: each a valid frame of some type with generated (possibly odd) session
	// semantics - numbers around the expected one, gap fills that go nowhere, resend ranges,
	// PossDup / OrigSendingTime combinations - then mutated at field level
	var frames [][]byte
	seq, maxSeq := s.r.T(), 0
	nFrames := rapid.SampledFrom([]int{1, 1, 2, 3}).Draw(t, "nframes")
	for k := 0; k < nFrames; k++ {
		T := s.r.T()
		typ := rapid.SampledFrom([]string{"D", "0", "1", "2", "3", "4", "4", "5", "A", "8"}).Draw(t, "type")
		seq = T + k + rapid.SampledFrom([]int{0, 0, 0, 1, 1, 2, -1}).Draw(t, "delta")
		if seq < 1 {
			seq = 1
		}
		if seq > maxSeq {
			maxSeq = seq
		}
		around := func(label string) int {
			v := rapid.SampledFrom([]int{T - 1, T, T + 1, seq, seq + 1, seq + 3, 0, 1, 999999, 2147483647}).Draw(t, label)
			if v < 0 {
				v = 0
			}
			return v
		}
		var body []fixwire.Field
		switch typ {
		case "D":
			body = []fixwire.Field{fixwire.F(11, "id"), fixwire.F(21, "1"), fixwire.F(55, "IBM"), fixwire.F(54, "1"), fixwire.F(60, s.p.Stamp(time.Now())), fixwire.F(38, "10"), fixwire.F(40, "1")}
		case "1":
			body = []fixwire.Field{fixwire.F(112, "x")}
		case "2":
			body = []fixwire.Field{fixwire.F(7, strconv.Itoa(around("begin"))), fixwire.F(16, strconv.Itoa(around("end")))}
		case "3":
			body = []fixwire.Field{fixwire.F(45, "1"), fixwire.F(58, "t")}
		case "4":
			body = []fixwire.Field{fixwire.F(36, strconv.Itoa(around("newseq")))}
			if gf := rapid.SampledFrom([]string{"Y", "Y", "N", ""}).Draw(t, "gapfill"); gf != "" {
				body = append([]fixwire.Field{fixwire.F(123, gf)}, body...)
			}
		case "A":
			body = s.p.LogonBody(30, rapid.IntRange(0, 3).Draw(t, "reset-flag") == 0 && cfg.begin != "FIX.4.0")
		case "8":
			body = []fixwire.Field{fixwire.F(37, "o"), fixwire.F(17, "e"), fixwire.F(150, "0"), fixwire.F(39, "0"), fixwire.F(55, "IBM"), fixwire.F(54, "1"), fixwire.F(151, "0"), fixwire.F(14, "0"), fixwire.F(6, "0")}
		}
		o := peer.Opt{}
		if rapid.IntRange(0, 3).Draw(t, "possdup") == 0 {
			o.PossDup = rapid.SampledFrom([]string{"Y", "Y", "N"}).Draw(t, "possdup-value")
			switch rapid.SampledFrom([]string{"", "earlier", "later"}).Draw(t, "orig") {
			case "earlier":
				o.OrigSending = s.p.Stamp(time.Now().Add(-5 * time.Second))
			case "later":
				o.OrigSending = s.p.Stamp(time.Now().Add(45 * time.Second))
			}
		}
		frames = append(frames, mutateFrame(t, s.p.Frame(typ, seq, body, o))...)
	}
	c.Eval()
	c.Class("target:session")
	c.Class("session-state:" + state)
	if len(frames) == 0 {
		c.Class("session:mutant-not-framed")
		return
	}
	for _, f := range frames {
		stBefore := s.r.V.StateName()
		tBefore, sBefore := s.r.T(), s.r.S()
		parses := quickfix.ParseMessage(quickfix.NewMessage(), bytes.NewBuffer(append([]byte(nil), f...))) == nil
		s.logf("GARBAGE in state %s: %s", stBefore, vk.Show(f))
		st := c09In(s, f, "a mutated frame in state "+stBefore)
		if st.Panic != nil {
			sig := "C09/session/panic/" + panicClassS(st.Panic)
			vk.Violation(t, c, sig, "the session panicked in state %s: %v\nframe %q\n%s", stBefore, st.Panic, f, s.history())
		}
		st2, _ := s.r.Flush()
		if st2.Panic != nil {
			vk.Violation(t, c, "C09/session/panic/flush", "%v\n%s", st2.Panic, s.history())
		}
		if !parses {
			c.Class("session:unparsable-frame")
			// (every inbound event also re-checks the schedule against the real clock: leaving the
			// notSessionTime state that way has nothing to do with the frame)
			if (s.r.V.StateName() != stBefore && stBefore != "notSessionTime") || s.r.T() != tBefore || s.r.S() != sBefore {
				vk.Violation(t, c, "C09/session/unparsable-frame-changed-state", "state %s T=%d S=%d -> %s T=%d S=%d after an unparsable frame\n%s", stBefore, tBefore, sBefore, s.r.V.StateName(), s.r.T(), s.r.S(), s.history())
			}
		}
	}
	// the counterparty carries on: if the session is waiting for a replay (before or because of
	// the mutated frames) the gap is filled up to the highest number seen, which also makes the
	// engine go through whatever it kept for later
	if s.r.V.IsConnected() && strings.Contains(s.r.V.StateName(), "resend") {
		hi := s.p.NextOut
		if maxSeq+1 > hi {
			hi = maxSeq + 1
		}
		for round := 0; round < 3 && s.r.V.IsConnected() && strings.Contains(s.r.V.StateName(), "resend") && s.r.T() < hi; round++ {
			from := s.r.T()
			gf := s.p.Frame("4", from, []fixwire.Field{fixwire.F(123, "Y"), fixwire.F(36, strconv.Itoa(hi))}, peer.Opt{PossDup: "Y", OrigSending: s.p.Stamp(time.Now())})
			s.logf("FOLLOW-UP gap fill %d -> %d", from, hi)
			st := c09In(s, gf, "the gap fill after the mutated frames")
			if st.Panic != nil {
				vk.Violation(t, c, "C09/session/panic/"+panicClassS(st.Panic), "the session panicked on the gap fill after the mutated frames: %v\n%s", st.Panic, s.history())
			}
			s.r.Flush()
			c.Class("session:gap-filled-after-garbage")
		}
		if s.p.NextOut < s.r.T() {
			s.p.NextOut = s.r.T()
		}
	}
	c.NonTrivial(stats.Hash("session", state, cfg.String(), fmt.Sprint(frames)))
	c.SampleClass("session/"+state, map[string]interface{}{"frames": showAll(frames), "state_after": s.r.V.StateName()})
	// liveness: a logged-on session in its normal state still answers a TestRequest
	if s.r.V.IsLoggedOn() && s.r.V.IsConnected() && (s.r.V.StateName() == "inSession" || s.r.V.StateName() == "pending(inSession)") {
		id := "ALIVE" + strconv.Itoa(s.r.T())
		st := c09In(s, s.p.Frame("1", s.r.T(), []fixwire.Field{fixwire.F(112, id)}, peer.Opt{}), "a well-formed TestRequest after the mutated frames")
		if st.Panic != nil {
			vk.Violation(t, c, "C09/session/panic/after-garbage", "%v\n%s", st.Panic, s.history())
		}
		ok := false
		for _, e := range s.r.Outs(st) {
			if e.MsgType == "0" && fixwire.GetS(e.Fields, 112) == id {
				ok = true
			}
		}
		if !ok {
			vk.Violation(t, c, "C09/session/not-alive-after-garbage", "a well-formed in-sequence TestRequest after the garbage was not answered (state %s)\n%s", s.r.V.StateName(), s.history())
		}
		c.Class("session:garbage-then-alive")
	}
}

func showAll(fs [][]byte) []string {
	var l []string
	for _, f := range fs {
		l = append(l, vk.Show(f))
	}
	return l
}

func panicClassS(p interface{}) string {
	s := strings.Split(fmt.Sprint(p), "\n")[0]
	out := strings.Map(func(r rune) rune {
		switch {
		case r >= '0' && r <= '9':
			return -1
		case r == ' ' || r == ':' || r == '[' || r == ']':
			return '-'
		}
		return r
	}, s)
	if len(out) > 60 {
		out = out[:60]
	}
	return out
}

func TestC09_Session(t *testing.T) {
	rapid.Check(t, func(t *rapid.T) {
		vk.Guard(func() { c09SessionProperty(t) })
	})
}

// TestReplay_C09_SessionFixed: plain regression examples of repaired session-level hangs.
func TestReplay_C09_SessionFixed(t *testing.T) {
	vk.Guard(func() {
		c := c09()
		for _, begin := range []string{"FIX.4.2", "FIX.4.4"} {
			s := newSim(t, c, simCfg{begin: begin, hb: 30, store: "memory", settings: map[string]string{}})
			if !s.logon(0) {
				t.Fatalf("harness: logon failed\n%s", s.history())
			}
			// ResendRequest whose BeginSeqNo is the smallest integer: the memory store used to
			// iterate over the whole negative range
			for _, b := range []string{"-9223372036854775808", "-1099511627776", "0"} {
				f := s.p.Frame("2", s.r.T(), []fixwire.Field{fixwire.F(7, b), fixwire.F(16, "3")}, peer.Opt{})
				st := c09In(s, f, "a ResendRequest with BeginSeqNo "+b)
				if st.Panic != nil {
					vk.Violation(t, c, "C09/session/panic/"+panicClassS(st.Panic), "%v\n%s", st.Panic, s.history())
				}
				for _, e := range s.r.Outs(st) {
					if n, ok := fixwire.GetInt(e.Fields, 34); ok && n < 1 {
						vk.Violation(t, c, "C09/session/nonpositive-number-sent", "frame %s\n%s", vk.Show(e.Raw), s.history())
					}
				}
			}
			s.close()
		}
	})
}

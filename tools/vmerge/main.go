// vmerge unions the per-shard hash files (sorted little-endian uint64s) and prints the number
// of distinct values. Usage: vmerge file1.hashes file2.hashes ...
package main

import (
	"encoding/binary"
	"fmt"
	"os"
	"sort"
)

func main() {
	var all []uint64
	for _, p := range os.Args[1:] {
		b, err := os.ReadFile(p)
		if err != nil {
			continue
		}
		for i := 0; i+8 <= len(b); i += 8 {
			all = append(all, binary.LittleEndian.Uint64(b[i:]))
		}
	}
	sort.Slice(all, func(i, j int) bool { return all[i] < all[j] })
	n := 0
	for i := range all {
		if i == 0 || all[i] != all[i-1] {
			n++
		}
	}
	fmt.Println(n)
}

// Package peer is a simulated FIX counterparty written from the FIX session-layer rules (it
// imports nothing from quickfix): it owns its outbound sequence numbers and sent history, builds
// frames with the independent encoder, loses messages on request and answers a ResendRequest the
// FIX way (application messages replayed with PossDupFlag and OrigSendingTime, administrative
// messages replaced by SequenceReset-GapFill, "infinity" meaning up to its latest message).
package peer

import (
	"fmt"
	"strconv"
	"time"

	"verif/fixwire"
)

type Sent struct {
	Seq     int
	MsgType string
	Body    []fixwire.Field
	Time    string // SendingTime used
	IsApp   bool
}

type Peer struct {
	Begin   string
	Sender  string // the peer's own CompID (the session's TargetCompID)
	Target  string
	NextOut int
	History map[int]*Sent
	// Now supplies SendingTime; defaults to the real clock (the engine compares with its own clock)
	Now func() time.Time
	// ExtraHeader fields appended to every header (e.g. SubIDs)
	ExtraHeader []fixwire.Field
	// ExplicitNoReset: Logons that do not ask for a reset say so (ResetSeqNumFlag=N) instead of leaving the field out
	ExplicitNoReset bool
	// NextExpected: when set, every Logon carries NextExpectedMsgSeqNum (789) with this value
	NextExpected func() int
	// Overfill: a gap fill at the end of a bounded replay also covers the administrative messages that follow the range
	Overfill bool
}

func New(begin, sender, target string) *Peer {
	return &Peer{Begin: begin, Sender: sender, Target: target, NextOut: 1, History: map[int]*Sent{}, Now: time.Now}
}

func (p *Peer) Stamp(t time.Time) string {
	if p.Begin == "FIX.4.0" || p.Begin == "FIX.4.1" {
		return t.UTC().Format("20060102-15:04:05")
	}
	return t.UTC().Format("20060102-15:04:05.000")
}

type Opt struct {
	PossDup     string // "" | "Y" | "N"
	OrigSending string // "" = absent
	SendingTime string // "" = now
	Begin       string // override BeginString
	Sender      *string
	Target      *string
	NoSeq       bool
	SeqText     string // raw text for tag 34 (overrides seq)
	ExtraHeader []fixwire.Field
}

// Frame builds one message with an explicit sequence number; nothing is recorded.
func (p *Peer) Frame(msgType string, seq int, body []fixwire.Field, o Opt) []byte {
	begin := p.Begin
	if o.Begin != "" {
		begin = o.Begin
	}
	sender, target := p.Sender, p.Target
	rest := []fixwire.Field{fixwire.F(35, msgType)}
	if o.Sender != nil {
		sender = *o.Sender
	}
	if o.Target != nil {
		target = *o.Target
	}
	if sender != "\x00absent" {
		rest = append(rest, fixwire.F(49, sender))
	}
	if target != "\x00absent" {
		rest = append(rest, fixwire.F(56, target))
	}
	if !o.NoSeq {
		st := strconv.Itoa(seq)
		if o.SeqText != "" {
			st = o.SeqText
			if st == "\x00empty" {
				st = ""
			}
		}
		rest = append(rest, fixwire.F(34, st))
	}
	if o.PossDup != "" {
		rest = append(rest, fixwire.F(43, o.PossDup))
	}
	st := o.SendingTime
	if st == "" {
		st = p.Stamp(p.Now())
	}
	if st != "\x00absent" {
		if st == "\x00empty" {
			st = ""
		}
		rest = append(rest, fixwire.F(52, st))
	}
	if o.OrigSending != "" {
		rest = append(rest, fixwire.F(122, o.OrigSending))
	}
	rest = append(rest, p.ExtraHeader...)
	rest = append(rest, o.ExtraHeader...)
	rest = append(rest, body...)
	return fixwire.Build(begin, rest)
}

// Next assigns the next outbound number, records the message and returns its frame.
func (p *Peer) Next(msgType string, body []fixwire.Field) (int, []byte) {
	seq := p.NextOut
	p.NextOut++
	ts := p.Stamp(p.Now())
	p.History[seq] = &Sent{Seq: seq, MsgType: msgType, Body: body, Time: ts, IsApp: !fixwire.IsAdminMsgType(msgType)}
	return seq, p.Frame(msgType, seq, body, Opt{SendingTime: ts})
}

// Logon body for the peer's version.
func (p *Peer) LogonBody(heartBt int, reset bool) []fixwire.Field {
	b := []fixwire.Field{fixwire.F(98, "0"), fixwire.F(108, strconv.Itoa(heartBt))}
	if reset {
		b = append(b, fixwire.F(141, "Y"))
	} else if p.ExplicitNoReset && p.Begin != "FIX.4.0" {
		b = append(b, fixwire.F(141, "N"))
	}
	if p.Begin == "FIXT.1.1" {
		b = append(b, fixwire.F(1137, "9"))
	}
	if p.NextExpected != nil && !reset {
		b = append(b, fixwire.F(789, strconv.Itoa(p.NextExpected())))
	}
	return b
}

// Infinity is the EndSeqNo meaning "to the end" for the version.
func Infinity(begin string) int {
	if begin == "FIX.4.0" || begin == "FIX.4.1" {
		return 999999
	}
	return 0
}

// Replay answers ResendRequest [b,e]: application messages as PossDup replays under their
// original number, runs of administrative messages (and numbers it never used) merged into one
// SequenceReset-GapFill whose NewSeqNo is the next number replayed.
func (p *Peer) Replay(b, e int) [][]byte {
	last := p.NextOut - 1
	if e == 0 || e == 999999 || e > last {
		e = last
	}
	var out [][]byte
	gapStart := 0
	flush := func(next int) {
		if gapStart != 0 {
			out = append(out, p.Frame("4", gapStart, []fixwire.Field{fixwire.F(123, "Y"), fixwire.F(36, strconv.Itoa(next))}, Opt{PossDup: "Y", OrigSending: p.Stamp(p.Now())}))
			gapStart = 0
		}
	}
	for n := b; n <= e; n++ {
		s := p.History[n]
		if s == nil || !s.IsApp {
			if gapStart == 0 {
				gapStart = n
			}
			continue
		}
		flush(n)
		out = append(out, p.Frame(s.MsgType, n, s.Body, Opt{PossDup: "Y", OrigSending: s.Time}))
	}
	end := e + 1
	if p.Overfill && gapStart != 0 {
		// the requested range ends inside a run of administrative messages: like many engines,
		// skip the whole run (NewSeqNo = the next application message, or the next number to be sent)
		for end <= last && (p.History[end] == nil || !p.History[end].IsApp) {
			end++
		}
	}
	flush(end)
	return out
}

func (p *Peer) String() string { return fmt.Sprintf("peer(%s %s->%s next=%d)", p.Begin, p.Sender, p.Target, p.NextOut) }

package store

import (
	"os"
	"testing"

	"verif/stats"
	"verif/vk"
)

func TestMain(m *testing.M) {
	// stores persist their creation time; a process need not run in UTC
	vk.LocalZoneForShard()
	rc := m.Run()
	stats.WriteGlobal()
	os.Exit(rc)
}

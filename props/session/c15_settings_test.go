package session

// C15, settings route - the validation switches as a user sets them: a session is built from a
// settings file that names a dictionary and any subset of ValidateFieldsOutOfOrder,
// ValidateFieldsHaveValues, RejectInvalidMessage, AllowUnknownMessageFields and
// CheckUserDefinedFields (a key left out takes its documented default). One in-sequence application
// message - conforming, or with one defect that one of the switches governs - is delivered to the
// logged-on session. The reference is the validator built directly from the same switch values
// (the object the other C15 stages judge against the specification tree): the session hands the
// message to the application iff that validator accepts it, and otherwise answers with a Reject
// carrying the same reason and tag.

import (
	"bytes"
	"fmt"
	"strconv"
	"sync"
	"testing"
	"time"

	"github.com/quickfixgo/quickfix"
	"github.com/quickfixgo/quickfix/config"
	"github.com/quickfixgo/quickfix/datadictionary"
	"pgregory.net/rapid"

	"verif/fixwire"
	"verif/peer"
	"verif/stats"
	"verif/storekit"
	"verif/vk"
)

var c15Keys = []string{config.ValidateFieldsOutOfOrder, config.ValidateFieldsHaveValues, config.RejectInvalidMessage, config.AllowUnknownMessageFields, config.CheckUserDefinedFields}

// documented defaults (config/configuration.go)
var c15Defaults = map[string]bool{config.ValidateFieldsOutOfOrder: true, config.ValidateFieldsHaveValues: true, config.RejectInvalidMessage: true, config.AllowUnknownMessageFields: false, config.CheckUserDefinedFields: true}

var c15dd = struct {
	sync.Mutex
	m map[string]*datadictionary.DataDictionary
}{m: map[string]*datadictionary.DataDictionary{}}

func c15Dict(path string) (*datadictionary.DataDictionary, error) {
	c15dd.Lock()
	defer c15dd.Unlock()
	if d, ok := c15dd.m[path]; ok {
		return d, nil
	}
	d, err := datadictionary.Parse(path)
	if err == nil {
		c15dd.m[path] = d
	}
	return d, err
}

func c15SettingsProperty(t *rapid.T) {
	c := stats.Get("C15")
	begin := rapid.SampledFrom([]string{"FIX.4.2", "FIX.4.4", "FIXT.1.1"}).Draw(t, "begin")
	spec := storekit.RepoDir() + "/spec/"
	cfg := simCfg{begin: begin, initiator: rapid.Bool().Draw(t, "initiator"), hb: 30, store: "memory", settings: map[string]string{}}
	var tdd, add *datadictionary.DataDictionary
	var err error
	if begin == "FIXT.1.1" {
		cfg.settings[config.TransportDataDictionary] = spec + "FIXT11.xml"
		cfg.settings[config.AppDataDictionary] = spec + "FIX50SP2.xml"
		if tdd, err = c15Dict(spec + "FIXT11.xml"); err != nil {
			t.Fatalf("harness: %v", err)
		}
		if add, err = c15Dict(spec + "FIX50SP2.xml"); err != nil {
			t.Fatalf("harness: %v", err)
		}
	} else if rapid.IntRange(0, 3).Draw(t, "no-dictionary") == 0 {
		// no dictionary configured: the switches about field content (values present, header fields
		// before body fields) still apply, the dictionary-based ones have nothing to go by
		c.Class("settings-route:no-dictionary")
	} else {
		cfg.settings[config.DataDictionary] = spec + dictForBegin[begin] + ".xml"
		if add, err = c15Dict(spec + dictForBegin[begin] + ".xml"); err != nil {
			t.Fatalf("harness: %v", err)
		}
	}
	val := map[string]bool{}
	written := ""
	for _, k := range c15Keys {
		switch rapid.SampledFrom([]string{"absent", "Y", "N"}).Draw(t, k) {
		case "absent":
			val[k] = c15Defaults[k]
		case "Y":
			val[k], cfg.settings[k] = true, "Y"
			written += " " + k + "=Y"
		case "N":
			val[k], cfg.settings[k] = false, "N"
			written += " " + k + "=N"
		}
	}
	direct := quickfix.NewValidator(quickfix.ValidatorSettings{
		CheckFieldsOutOfOrder:     val[config.ValidateFieldsOutOfOrder],
		CheckFieldsHaveValues:     val[config.ValidateFieldsHaveValues],
		RejectInvalidMessage:      val[config.RejectInvalidMessage],
		AllowUnknownMessageFields: val[config.AllowUnknownMessageFields],
		CheckUserDefinedFields:    val[config.CheckUserDefinedFields],
	}, add, tdd)
	s := newSim(t, c, cfg)
	defer s.close()
	if !s.logon(0) {
		t.Fatalf("harness: logon failed\n%s", s.history())
	}
	now := time.Now()
	body := []fixwire.Field{fixwire.F(11, "ID1"), fixwire.F(21, "1"), fixwire.F(55, "IBM"), fixwire.F(54, "1"), fixwire.F(60, s.p.Stamp(now)), fixwire.F(40, "1")}
	if begin != "FIX.4.2" {
		body = []fixwire.Field{fixwire.F(11, "ID1"), fixwire.F(55, "IBM"), fixwire.F(54, "1"), fixwire.F(60, s.p.Stamp(now)), fixwire.F(38, "100"), fixwire.F(40, "1")}
	}
	probe := rapid.SampledFrom([]string{"control", "header-field-in-body", "empty-value", "unknown-tag", "user-defined-tag", "user-defined-tag-5000"}).Draw(t, "probe")
	switch probe {
	case "header-field-in-body":
		body = append(body, fixwire.F(50, "sub"))
	case "empty-value":
		body = append(body, fixwire.F(58, ""))
	case "unknown-tag":
		body = append(body, fixwire.F(4321, "x"))
	case "user-defined-tag":
		body = append(body, fixwire.F(rapid.SampledFrom([]int{5001, 9999, 20000}).Draw(t, "user-tag"), "x"))
	case "user-defined-tag-5000":
		body = append(body, fixwire.F(5000, "x"))
	}
	raw := s.p.Frame("D", s.r.T(), body, peer.Opt{})
	// the reference verdict
	ref := quickfix.NewMessage()
	if err := quickfix.ParseMessageWithDataDictionary(ref, bytes.NewBuffer(raw), tdd, add); err != nil {
		t.Fatalf("harness: the probe does not parse: %v", err)
	}
	want := direct.Validate(ref)
	s.logf("settings:%s; probe %s: %s; the validator built from the same values says: %v", written, probe, vk.Show(raw), want)
	st := s.r.In(raw)
	if st.Panic != nil {
		vk.Violation(t, c, "C15/settings/engine-panic", "%v\n%s", st.Panic, s.history())
	}
	c.Eval()
	c.Class("settings-route:" + probe)
	delivered := 0
	for _, e := range s.r.Entries(st) {
		if e.Kind == "FromApp" && bytes.Equal(e.Raw, raw) {
			delivered++
		}
	}
	var rejects []fixwire.Field
	nRejects := 0
	for _, e := range s.r.Outs(st) {
		if e.MsgType == "3" {
			nRejects++
			rejects = e.Fields
		}
	}
	cls := probe
	if want == nil {
		c.Class("settings-route:accepted")
		if delivered != 1 || nRejects != 0 {
			vk.Violation(t, c, "C15/settings/conforming-under-these-switches-not-delivered/"+cls, "settings%s: the validator built from these values accepts the message, the session delivered it %d times and sent %d Rejects\n%s", written, delivered, nRejects, s.history())
		}
	} else {
		c.Class("settings-route:rejected")
		if delivered != 0 || nRejects != 1 {
			vk.Violation(t, c, "C15/settings/defect-not-rejected/"+cls, "settings%s: the validator built from these values rejects the message (%v), the session delivered it %d times and sent %d Rejects\n%s", written, want, delivered, nRejects, s.history())
		}
		// (FIX.4.2 knows the reasons 0-11 only: a later reason is sent without the field)
		if got, ok := fixwire.GetInt(rejects, 373); (!ok || got != want.RejectReason()) && !(begin == "FIX.4.2" && want.RejectReason() > 11 && !ok) {
			vk.Violation(t, c, "C15/settings/wrong-identification/"+cls, "settings%s: expected SessionRejectReason %d (%v), Reject says %d (present %v)\n%s", written, want.RejectReason(), want, got, ok, s.history())
		}
		if tag := want.RefTagID(); tag != nil {
			if got, ok := fixwire.GetInt(rejects, 371); !ok || got != int(*tag) {
				vk.Violation(t, c, "C15/settings/wrong-identification/"+cls, "settings%s: expected RefTagID %d, Reject says %d (present %v)\n%s", written, int(*tag), got, ok, s.history())
			}
		}
	}
	if written != "" && probe != "control" {
		c.NonTrivial(stats.Hash("settings-route", begin, written, probe, strconv.FormatBool(cfg.initiator)))
		c.SampleClass("settings-route/"+probe, map[string]interface{}{"settings": written, "message": vk.Show(raw), "reference": fmt.Sprint(want), "delivered": delivered, "rejects": nRejects})
	}
}

func TestC15_SettingsRoute(t *testing.T) {
	rapid.Check(t, func(t *rapid.T) {
		vk.Guard(func() { c15SettingsProperty(t) })
	})
}

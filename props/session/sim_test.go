package session

// Shared scenario kit for the session-level properties: a real session on the synchronous rig
// talking to the simulated counterparty over a lossy, reorderable link owned by the harness.

import (
	"fmt"
	"os"
	"path/filepath"
	"sort"
	"strconv"
	"strings"

	"github.com/quickfixgo/quickfix"
	"github.com/quickfixgo/quickfix/config"
	"pgregory.net/rapid"

	"verif/fixwire"
	"verif/peer"
	"verif/rig"
	"verif/stats"
	"verif/storekit"
	"verif/vk"
)

type simCfg struct {
	peerNoReset bool // the peer's Logons carry ResetSeqNumFlag=N when they do not ask for a reset
	use789      bool // EnableNextExpectedMsgSeqNum=Y; the peer's Logons carry 789 = what it expects next (faithfully)
	richID      bool // SessionID with SubID / LocationID / Qualifier
	begin       string
	initiator   bool
	chunk       int
	store       string // memory | file
	hb          int
	settings    map[string]string
}

func (c simCfg) String() string {
	role := "acceptor"
	if c.initiator {
		role = "initiator"
	}
	return fmt.Sprintf("%s %s chunk=%d store=%s hb=%d %v", c.begin, role, c.chunk, c.store, c.hb, c.settings)
}

var allBegins = []string{"FIX.4.0", "FIX.4.1", "FIX.4.2", "FIX.4.3", "FIX.4.4", "FIXT.1.1"}

func genSimCfg(t *rapid.T) simCfg {
	return simCfg{
		begin:     rapid.SampledFrom(allBegins).Draw(t, "begin"),
		initiator: rapid.Bool().Draw(t, "initiator"),
		chunk:     rapid.SampledFrom([]int{0, 0, 1, 2, 3, 5, 8}).Draw(t, "chunk"),
		store:     rapid.SampledFrom([]string{"memory", "memory", "memory", "file"}).Draw(t, "store"),
		hb:        30,
	}
}

type sim struct {
	rigCfg         rig.Config
	t              vk.TB
	c              *stats.Collector
	cfg            simCfg
	r              *rig.Rig
	p              *peer.Peer
	dir            string
	link           [][]byte   // frames the peer has sent and that have not been delivered or lost yet
	pendingReplays [][][]byte // one batch per ResendRequest the peer has received and not yet answered on the wire
	afterMacro     []func(s *sim)
	log            []string // human-readable history (for failure messages and samples)
	// what the application received
	fromApp []rig.Entry
	// engine ResendRequests seen (begin,end)
	rrSeen [][2]int
	// hooks for the monitors, called after every step
	after []func(s *sim, st rig.StepResult, ctx stepCtx)
	// engine-originated application messages (accepted sends)
	sentOK             []string
	appN               int
	lossDuringRecovery bool
	busyWriter         func() bool // drawn per flush: the writer cannot take a frame at that moment
}

type stepCtx struct {
	kind            string // in | timer | flush | send | connect | disconnect | stop
	raw             []byte
	fields          []fixwire.Field
	msgType         string
	seq             int
	hasSeq          bool
	possDup         string
	tBefore         int
	stateBefore     string
	loggedOnBefore  bool
	faithful        bool // the frame came from the faithful peer's link (not an adversarial injection)
	wellFormed      bool // header and PossDup/OrigSendingTime consistent (always true for the faithful peer)
	connectedBefore bool
	sBefore         int
	keptBefore      int // messages kept for later (received above the expected number) before the step
}

// drawExtras adds generated settings that must not change any of the session properties: the
// header tag LastMsgSeqNumProcessed on outbound messages and the precision of outbound timestamps.
func drawExtras(t *rapid.T, c *stats.Collector, cfg *simCfg) {
	if cfg.settings == nil {
		cfg.settings = map[string]string{}
	}
	if rapid.IntRange(0, 3).Draw(t, "extra-lastmsgseqnumprocessed") == 0 {
		cfg.settings[config.EnableLastMsgSeqNumProcessed] = "Y"
		c.Class("setting:EnableLastMsgSeqNumProcessed")
	}
	if rapid.IntRange(0, 2).Draw(t, "extra-peer-says-no-reset") == 0 {
		// the counterparty writes ResetSeqNumFlag=N on its Logons instead of omitting the field
		cfg.peerNoReset = true
		c.Class("setting:peer-logon-with-141=N")
	}
	if rapid.IntRange(0, 2).Draw(t, "extra-rich-identity") == 0 {
		// optional identity fields: stamped on every outbound header and part of the store key
		cfg.richID = true
		c.Class("setting:identity-with-optional-fields")
	}
	if p := rapid.SampledFrom([]string{"", "", "", "SECONDS", "MICROS", "NANOS"}).Draw(t, "extra-timestampprecision"); p != "" {
		cfg.settings[config.TimeStampPrecision] = p
		c.Class("setting:TimeStampPrecision")
	}
}

// draw789 lets a configuration agree on NextExpectedMsgSeqNum (tag 789) in the Logon: the properties
// about delivery and recovery hold with the option as without it. The simulated counterparty
// announces exactly what it has received (it never claims more than the engine has sent).
func draw789(t *rapid.T, c *stats.Collector, cfg *simCfg) {
	if cfg.begin >= "FIX.4.4" && rapid.IntRange(0, 3).Draw(t, "extra-next-expected-in-logon") == 0 {
		if cfg.settings == nil {
			cfg.settings = map[string]string{}
		}
		cfg.settings[config.EnableNextExpectedMsgSeqNum] = "Y"
		cfg.use789 = true
		c.Class("setting:EnableNextExpectedMsgSeqNum")
	}
}

func newSim(t vk.TB, c *stats.Collector, cfg simCfg) *sim {
	s := &sim{t: t, c: c, cfg: cfg}
	id := quickfix.SessionID{BeginString: cfg.begin, SenderCompID: "ENG", TargetCompID: "PEER"}
	if cfg.richID {
		id.SenderSubID, id.SenderLocationID, id.TargetSubID, id.Qualifier = "DESK7", "NY", "GW", "q1"
	}
	var factory quickfix.MessageStoreFactory
	switch cfg.store {
	case "file":
		s.dir = vk.Scratch("sess-")
		factory = storekit.FileFactory(s.dir, false, id)
	case "sql":
		s.dir = vk.Scratch("sess-")
		db := filepath.Join(s.dir, "s.db")
		if err := storekit.CreateSQLite(db); err != nil {
			t.Fatalf("harness: %v", err)
		}
		factory = storekit.SQLFactory("sqlite3", db, id)
	}
	// SendingTime comes from the real clock when a frame is built; frames may wait in the link
	// queue and the machine may stall, so the latency window is made irrelevant here (C06, which
	// is about that window, configures its own and guards against stalls)
	set := map[string]string{config.MaxLatency: "100000000"}
	for k, v := range cfg.settings {
		set[k] = v
	}
	if cfg.chunk > 0 {
		set[config.ResendRequestChunkSize] = strconv.Itoa(cfg.chunk)
	}
	s.rigCfg = rig.Config{ID: id, Initiator: cfg.initiator, Settings: set, Factory: factory, HeartBt: cfg.hb}
	r, err := rig.New(s.rigCfg)
	if err != nil {
		t.Fatalf("harness: cannot build session %s: %v", cfg, err)
	}
	s.r = r
	s.p = peer.New(cfg.begin, "PEER", "ENG")
	s.p.ExplicitNoReset = cfg.peerNoReset
	if cfg.use789 {
		s.p.NextExpected = func() int { return s.r.S() }
	}
	return s
}

// restart discards the engine and builds a new one on the same persistent store (file / sql):
// what a process restart does. The link is gone with the old process.
func (s *sim) restart() {
	s.r.Close()
	r, err := rig.New(s.rigCfg)
	if err != nil {
		s.t.Fatalf("harness: cannot rebuild session %s: %v", s.cfg, err)
	}
	s.r = r
	s.link, s.pendingReplays = nil, nil
	s.logf("RESTART on the %s store (next out %d, next in %d)", s.cfg.store, s.r.S(), s.r.T())
}

func (s *sim) close() {
	s.r.Close()
	if s.dir != "" {
		os.RemoveAll(s.dir)
	}
}

func (s *sim) logf(format string, a ...interface{}) {
	s.log = append(s.log, fmt.Sprintf(format, a...))
	if len(s.log) > 6000 {
		// keep memory bounded on very long scenarios: the tail is what failure messages show
		s.log = append(s.log[:0:0], s.log[len(s.log)-3000:]...)
	}
}

func (s *sim) history() string {
	l := s.log
	if len(l) > 60 {
		l = l[len(l)-60:]
	}
	return "config: " + s.cfg.String() + "\nhistory:\n  " + strings.Join(l, "\n  ") + "\ntrace tail:\n" + s.r.TraceString(40)
}

// observe runs after every rig step: records deliveries, scans the engine's output, lets the
// counterparty react, then calls the monitors.
func (s *sim) observe(st rig.StepResult, ctx stepCtx) {
	if st.Panic != nil {
		vk.Violation(s.t, s.c, s.c.Property+"/engine-panic/"+ctx.kind, "panic %v\n%s", st.Panic, s.history())
	}
	outs := s.r.Outs(st)
	if len(outs) != len(st.Frames) {
		vk.Violation(s.t, s.c, s.c.Property+"/harness/outgoing-log-vs-channel", "log has %d outgoing frames, the channel delivered %d\n%s", len(outs), len(st.Frames), s.history())
	}
	for _, e := range s.r.Entries(st) {
		if e.Kind == "FromApp" {
			s.fromApp = append(s.fromApp, e)
		}
	}
	for _, m := range s.after {
		m(s, st, ctx)
	}
}

func (s *sim) ctxFor(kind string, raw []byte, faithful bool) stepCtx {
	ctx := stepCtx{kind: kind, raw: raw, tBefore: s.r.T(), stateBefore: s.r.V.StateName(), loggedOnBefore: s.r.V.IsLoggedOn(), faithful: faithful, wellFormed: faithful, connectedBefore: s.r.V.IsConnected(), sBefore: s.r.S()}
	if _, kept, _, _ := s.r.V.ResendInfo(); len(kept) > 0 {
		ctx.keptBefore = len(kept)
	}
	if raw != nil {
		ctx.fields, _ = fixwire.Scan(raw, map[int]int{212: 213})
		ctx.msgType = fixwire.GetS(ctx.fields, 35)
		ctx.seq, ctx.hasSeq = fixwire.GetInt(ctx.fields, 34)
		ctx.possDup = fixwire.GetS(ctx.fields, 43)
	}
	return ctx
}

// deliver hands one frame to the engine and lets the faithful counterparty react to the output.
func (s *sim) deliver(raw []byte, faithful bool) rig.StepResult {
	ctx := s.ctxFor("in", raw, faithful)
	s.logf("in  %s (T=%d %s)", vk.Show(raw), ctx.tBefore, ctx.stateBefore)
	st := s.r.In(raw)
	s.observe(st, ctx)
	s.react(st)
	// honour a pending send-queue event the way the run loop would right afterwards
	s.flush()
	for _, m := range s.afterMacro {
		m(s)
	}
	return st
}

func (s *sim) flush() {
	if s.busyWriter != nil && s.r.V.IsConnected() && s.busyWriter() {
		// the run loop handles the message event while the writer is still busy with the previous
		// frame: whatever is queued stays queued and goes out at the next opportunity
		ctx := s.ctxFor("flush", nil, false)
		st, took := s.r.FlushBusy()
		if took {
			s.logf("flush (the connection's writer is busy)")
			s.observe(st, ctx)
			s.react(st)
		}
	}
	ctx := s.ctxFor("flush", nil, false)
	st, took := s.r.Flush()
	if took {
		s.logf("flush")
		s.observe(st, ctx)
		s.react(st)
	}
}

// react: the faithful counterparty answers what the engine just sent.
func (s *sim) react(st rig.StepResult) {
	for _, e := range s.r.Outs(st) {
		s.logf("out %s", vk.Show(e.Raw))
		switch e.MsgType {
		case "2":
			b, _ := fixwire.GetInt(e.Fields, 7)
			en, _ := fixwire.GetInt(e.Fields, 16)
			s.rrSeen = append(s.rrSeen, [2]int{b, en})
			if rp := s.p.Replay(b, en); len(rp) > 0 {
				s.pendingReplays = append(s.pendingReplays, rp)
			}
		case "1":
			id := fixwire.GetS(e.Fields, 112)
			_, f := s.p.Next("0", []fixwire.Field{fixwire.F(112, id)})
			s.link = append(s.link, f)
		}
	}
}

func (s *sim) timer(ev int) {
	ctx := s.ctxFor("timer", nil, false)
	s.logf("timer %d (state %s)", ev, ctx.stateBefore)
	st := s.r.Timeout(ev)
	s.observe(st, ctx)
	s.react(st)
}

// engineSend submits an application message on the engine side.
func (s *sim) engineSend() {
	s.appN++
	id := "E" + strconv.Itoa(s.appN)
	m := quickfix.NewMessage()
	m.Header.SetString(35, "D")
	m.Body.SetString(11, id)
	m.Body.SetString(55, "IBM")
	ctx := s.ctxFor("send", nil, false)
	s.logf("send app %s", id)
	st, err := s.r.Send(m)
	if err == nil {
		s.sentOK = append(s.sentOK, id)
	}
	s.observe(st, ctx)
	s.react(st)
}

func (s *sim) connect() bool {
	ctx := s.ctxFor("connect", nil, false)
	st, ok := s.r.Connect()
	s.logf("connect -> %v", ok)
	s.observe(st, ctx)
	s.react(st)
	return ok
}

func (s *sim) disconnect() {
	ctx := s.ctxFor("disconnect", nil, false)
	s.logf("disconnect")
	st := s.r.Disconnect()
	s.observe(st, ctx)
	// frames in flight are lost with the connection
	s.link = nil
	s.pendingReplays = nil
}

// logon performs the handshake. lose = number of peer messages generated and lost before the
// Logon (so the Logon itself arrives too high). Returns whether the session ended up logged on.
func (s *sim) logon(loseBefore int) bool {
	if !s.connect() {
		return false
	}
	for i := 0; i < loseBefore; i++ {
		s.peerLive("D", true)
	}
	_, f := s.p.Next("A", s.p.LogonBody(s.cfg.hb, false))
	s.deliver(f, true)
	return s.r.V.IsLoggedOn()
}

// peerLive makes the counterparty send its next message; lost=true drops it on the link.
func (s *sim) peerLive(msgType string, lost bool) {
	var body []fixwire.Field
	switch msgType {
	case "D":
		body = []fixwire.Field{fixwire.F(11, "P"+strconv.Itoa(s.p.NextOut)), fixwire.F(55, "IBM"), fixwire.F(54, "1")}
	case "1":
		body = []fixwire.Field{fixwire.F(112, "PT"+strconv.Itoa(s.p.NextOut))}
	case "2":
		// the counterparty asks for a replay of what the engine has sent (from number 1 to the end)
		body = []fixwire.Field{fixwire.F(7, "1"), fixwire.F(16, strconv.Itoa(peer.Infinity(s.cfg.begin)))}
	}
	seq, f := s.p.Next(msgType, body)
	if lost {
		s.logf("peer sends %s seq=%d: LOST", msgType, seq)
		return
	}
	s.link = append(s.link, f)
}

// The link is FIFO like a TCP stream. The counterparty answers one ResendRequest at a time and
// writes the whole replay contiguously (as the property C02 demands of this engine too), but it
// may take its time: live messages it sends before it gets to the request stay ahead of the
// replay, those sent afterwards follow it. peerReplay puts the next owed replay on the wire.
func (s *sim) peerReplay(n int) bool {
	if len(s.pendingReplays) == 0 {
		return false
	}
	for n > 0 && len(s.pendingReplays) > 0 {
		s.link = append(s.link, s.pendingReplays[0]...)
		s.pendingReplays = s.pendingReplays[1:]
		n--
	}
	return true
}

// pumpOne delivers the frame at the head of the link.
func (s *sim) pumpOne() bool {
	if len(s.link) == 0 {
		return false
	}
	f := s.link[0]
	s.link = s.link[1:]
	s.deliver(f, true)
	return true
}

// settle: no more losses; the peer sends everything it owes and everything is delivered, until quiescent.
func (s *sim) settle(maxRounds int) bool {
	for i := 0; i < maxRounds; i++ {
		s.peerReplay(1 << 30)
		if !s.pumpOne() {
			s.flush()
			if len(s.pendingReplays) == 0 && len(s.link) == 0 {
				return true
			}
		}
	}
	return len(s.pendingReplays) == 0 && len(s.link) == 0
}

func clOrdIDs(es []rig.Entry) []string {
	var l []string
	for _, e := range es {
		l = append(l, fixwire.GetS(e.Fields, 11))
	}
	return l
}

func peerAppIDs(p *peer.Peer) []string {
	var keys []int
	for k, m := range p.History {
		if m.IsApp {
			keys = append(keys, k)
		}
	}
	sort.Ints(keys)
	var l []string
	for _, k := range keys {
		for _, f := range p.History[k].Body {
			if f.Tag == 11 {
				l = append(l, string(f.Value))
			}
		}
	}
	return l
}

var _ = rapid.Bool

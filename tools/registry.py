"""Registry of checks: one entry per claimed property. Used by tools/check.py and tools/mkmanifest.py."""

PROPS = {
    "C14": dict(
        pkg="./props/codec", level="exploration", design_ref="DESIGN.md §3 C14",
        technique="bounded-exhaustive string enumeration + rapid value generation against independent grammars and big-number arithmetic",
        stages=[
            dict(name="enum-int", kind="plain", run="^TestC14_EnumInt$", shards=(8, 16), timeout=(300, 1800)),
            dict(name="enum-float", kind="plain", run="^TestC14_EnumFloat$", shards=(8, 16), timeout=(300, 1800)),
            dict(name="enum-bool", kind="plain", run="^TestC14_EnumBool$", shards=1, timeout=(300, 600)),
            dict(name="enum-ts", kind="plain", run="^TestC14_EnumTimestamp$", shards=(12, 16), timeout=(300, 1800)),
            dict(name="rapid", kind="rapid", run="^TestC14_Rapid$", checks=(20000, 400000), shards=(8, 16), timeout=(300, 1800)),
        ],
        require=["int:must-accept", "int:must-reject", "int:in-grammar-out-of-range", "float:must-accept", "float:must-reject",
                 "timestamp:must-accept", "timestamp:must-reject", "timestamp:value-roundtrip", "decimal:value-roundtrip",
                 "udecimal:value-roundtrip", "bool:must-reject"],
        assumptions=["FIX grammars as written in the FIX 4.x/5.0 data type tables: int -?[0-9]+, float -?[0-9]+(.[0-9]*)?, Boolean Y|N, UTCTimestamp YYYYMMDD-HH:MM:SS[.sss|.ssssss|.sssssssss]",
                     "'.5'-style floats and ss=60 are treated as unspecified and not asserted either way",
                     "int is 64 bit on the build platform"],
    ),
}

PROPS["C10"] = dict(
    pkg="./props/codec", level="exploration", design_ref="DESIGN.md §3 C10",
    technique="rapid-generated field-map operation programs against reference maps, an independent tag=value scanner and a parse round trip",
    stages=[dict(name="rapid", kind="rapid", run="^TestC10_Rapid$", checks=(6000, 100000), shards=(12, 16), timeout=(400, 2400)),
            dict(name="unlisted-entry-field", kind="rapid", run="^TestC10_UnlistedEntryField$", checks=(2000, 40000), shards=(4, 16), timeout=(400, 2400))],
    require=["program-with:unlisted-entry-field", "program-with:remove-then-set", "program-with:overwrite", "program-with:group", "program-with:copy", "program-with:clear", "program-with:copy-with-group", "program-with:copy-into-used-message", "program-with:group-overwritten-by-scalar"],
    assumptions=["tags are used in their proper section (standard header/trailer tables); BodyLength(9), CheckSum(10) and the XMLData pair 212/213 are not set by the generated programs",
                 "group member tags are disjoint from scalar body tags (FIX forbids a tag twice outside a group)"],
)

PROPS["C11"] = dict(
    pkg="./props/codec", level="exploration", design_ref="DESIGN.md §3 C11",
    technique="rapid-generated well-formed messages serialised by an independent encoder, parsed by quickfix in three dictionary modes and compared field by field with an independent scanner; single-corruption metamorphic variants must be rejected; metamorphic history stage (a freshly loaded dictionary, the same dictionary after a conforming message, and the long-lived dictionary object give the same parse)",
    stages=[dict(name="rapid", kind="rapid", run="^TestC11_Rapid$", checks=(3000, 60000), shards=(12, 16), timeout=(400, 2400)),
            dict(name="history", kind="plain", run="^TestC11_HistoryIndependent$", shards=(8, 16), timeout=(400, 2400)),
            dict(name="fuzz-parse", kind="fuzz", run="^FuzzC11_Parse$", thorough_only=True, fuzztime=(0, 90), timeout=(0, 400))],
    require=["mode:none", "mode:app", "mode:fixt", "with-xmldata", "with-dictionary-group", "corruption:len+", "corruption:swap89", "corruption:omit35", "history:user-defined-tag-before-the-nested-group"],
    assumptions=["section membership of a tag is the FIX standard header/trailer table (identical in all shipped dictionaries)",
                 "duplicate tags outside groups are not generated (retrieval would be ambiguous)"],
)

PROPS["C12"] = dict(
    pkg="./props/codec", level="exploration", design_ref="DESIGN.md §3 C12",
    technique="metamorphic testing (any read partition == one generous read) plus a reference framer, on rapid-generated streams and partitions aimed inside tags, lengths and checksums",
    stages=[dict(name="rapid", kind="rapid", run="^TestC12_Rapid$", checks=(3000, 60000), shards=(12, 16), timeout=(400, 2400)),
            dict(name="acceptor-socket", kind="rapid", run="^TestC12_AcceptorSocket$", pkg="./props/session", checks=(0, 300), shards=(0, 4), timeout=(0, 1500), thorough_only=True),
            dict(name="fuzz-stream", kind="fuzz", run="^FuzzC09_Stream$", thorough_only=True, fuzztime=(0, 60), timeout=(0, 400))],
    require=["family:wellformed", "family:soup", "split-inside-tag-length-or-checksum", "message-larger-than-buffer", "two-or-more-messages", "long-junk"],
    assumptions=["frames are observed through parser.ReadMessage (hook H1 wraps the unexported parser); the sequence ends at the first error, as in connection.go's readLoop",
                 "junk between messages contains no '8=' marker, per the statement"],
)

PROPS["C13"] = dict(
    pkg="./props/codec", level="exploration", design_ref="DESIGN.md §3 C13",
    technique="structural round trip: rapid-generated free templates through the API, and enumeration of every group of every shipped dictionary populated from an independent XML walk, parsed with and without the dictionary",
    stages=[dict(name="free", kind="rapid", run="^TestC13_RapidFree$", checks=(3000, 60000), shards=(8, 16), timeout=(400, 2400)),
            dict(name="dict", kind="plain", run="^TestC13_DictGroups$", shards=(12, 16), timeout=(400, 3000))],
    require=["free:position-first", "free:position-middle", "free:position-last", "free:nested", "free:zero-entries",
             "dict:wire/dict", "dict:api/dict", "dict:wire/nodict", "dict:nested", "dict:with-following-fields"],
    assumptions=["a scalar whose tag is also defined inside a group of the same level is not generated (positionally ambiguous on the wire)",
                 "dictionary groups are parsed with the dictionary that defines them (FIX50x bodies with FIXT11 as transport dictionary)",
                 "population choices of the enumeration stage come from a PRNG seeded from (VERIF_SEED, pair index, variant); the replay file records them"],
)

PROPS["C16"] = dict(
    pkg="./props/store", level="exploration", design_ref="DESIGN.md §3 C16",
    technique="rapid state-machine (model-based) testing of the memory, file and sqlite-backed SQL stores against one in-memory reference model, with refresh / reopen / second-instance reads",
    stages=[dict(name="memfile", kind="rapid", run="^TestC16_MemFile$", checks=(2500, 25000), shards=(12, 16), timeout=(500, 3000)),
            dict(name="sql", kind="rapid", run="^TestC16_SQL$", checks=(300, 4000), shards=(12, 16), timeout=(500, 3000))],
    require=["store:memory", "store:file-sync", "store:file-nosync", "store:sql", "multi-session", "history-with:reopen-after-save",
             "history-with:read-after-reopen", "history-with:reset", "history-with:abort"],
    assumptions=["save numbers are strictly ascending within an epoch (the statement's precondition)",
                 "the SQL store is exercised on sqlite3 with the repository's own DDL; the Mongo store needs a server and is outside the statement's three stores",
                 "creation times are compared as instants; 'renewed' means between the wall-clock readings taken around the call"],
)

PROPS["C17"] = dict(
    pkg="./props/store", level="fault_enumeration", design_ref="DESIGN.md §3 C17, Appendix D",
    technique="fault enumeration inside property-based testing: rapid-generated histories, every kill / torn-write / power-loss image of the interrupted file-store operation materialised from crash-point hook snapshots and reopened against before/after models; SQL statement failures injected through a wrapping database/sql driver",
    stages=[dict(name="file", kind="rapid", run="^TestC17_FileCrash$", checks=(150, 3000), shards=(12, 16), timeout=(600, 3000)),
            dict(name="sql", kind="rapid", run="^TestC17_SQLFault$", checks=(100, 1500), shards=(8, 16), timeout=(600, 3000))],
    require=["image:kill", "image:torn", "image:powerloss", "sql:fail@begin", "sql:fail@exec1", "sql:fail@exec2", "sql:fail@commit"],
    assumptions=["torn-write model: bytes of the in-flight write reach the file in order and may be cut at any byte; power-loss model: a file keeps its content as of its last fsync (files created by the operation exist empty, removals are durable)",
                 "histories are session-like: the sender counter advances only through save-and-increment"],
)

PROPS["C18"] = dict(
    pkg="./props/sched", level="exploration", design_ref="DESIGN.md §3 C18, Appendix E",
    technique="rapid-generated and grid-enumerated schedule configurations and instants against an explicit calendar enumeration of the windows; relation laws (symmetry, transitivity) checked on generated triples",
    stages=[dict(name="rapid", kind="rapid", run="^TestC18_Rapid$", checks=(3000, 60000), shards=(8, 16), timeout=(400, 2400)),
            dict(name="grid", kind="plain", run="^TestC18_Grid$", shards=(8, 16), timeout=(600, 3000)),
            dict(name="consumer", kind="rapid", run="^TestC18_Consumer$", checks=(1500, 30000), shards=(4, 16), timeout=(400, 2400)),
            dict(name="real-loop-session-end", kind="plain", run="^TestC18_RealLoopSessionEnd$", pkg="./props/session", shards=(0, 1), timeout=(0, 300), thorough_only=True)],
    require=["config:weekly", "config:overnight", "config:weekdays", "config:overnight+weekdays", "route:settings", "route:constructor", "consumer:outside-schedule", "consumer:inside-schedule", "consumer:reset-on-new-window",
             "pair:same=true", "pair:both-in-range-different-windows", "nontrivial:weekly", "nontrivial:overnight+weekdays"],
    assumptions=["windows are defined on the local wall clock of the configured zone; instants within 2 s of an edge clock value and windows with an edge inside a zone-transition hour are unspecified and excluded (counted)",
                 "tzdata is embedded in the test binary (time/tzdata), so zone rules do not depend on the host"],
)

PROPS["C19"] = dict(
    pkg="./props/dict", level="exploration", design_ref="DESIGN.md §3 C19",
    technique="differential testing of datadictionary against an independent XML walk (specxml): all shipped files exhaustively, plus rapid-generated specifications with nested components/groups and dangling references",
    stages=[dict(name="shipped", kind="plain", run="^TestC19_Shipped$", shards=1, timeout=(300, 600)),
            dict(name="rapid", kind="rapid", run="^TestC19_Rapid$", checks=(2500, 40000), shards=(12, 16), timeout=(400, 2400))],
    require=["shipped:FIX44", "shipped:FIX50SP2", "shipped:FIXT11", "generated:wellformed", "generated:with-nested-component",
             "generated:dangling-field", "generated:dangling-component"],
    assumptions=["generated specifications never list a tag twice in one definition and contain no component cycles (cycles are exercised by C09)",
                 "when a field number or message type is declared twice in a file, the last declaration is the one compared"],
)

PROPS["C15"] = dict(
    pkg="./props/dict", level="exploration", design_ref="DESIGN.md §3 C15",
    technique="conformance by construction from an independent XML walk of the dictionaries (rapid + enumeration of every message type), then single-defect mutation testing against a reject-reason table, under all 32 validator settings; the switches as written in a settings file are checked through a session against the validator built from the same values",
    stages=[dict(name="rapid", kind="rapid", run="^TestC15_Rapid$", checks=(2500, 40000), shards=(12, 16), timeout=(400, 2400)),
            dict(name="enumerate", kind="plain", run="^TestC15_Enumerate$", shards=(12, 16), timeout=(600, 3000)),
            dict(name="settings-route", kind="rapid", run="^TestC15_SettingsRoute$", pkg="./props/session", checks=(300, 2500), shards=(12, 16), timeout=(400, 2400))],
    require=["settings-route:accepted", "settings-route:rejected", "conforming:FIX40", "conforming:FIX44", "conforming:FIX50SP2", "conforming:FIXT11", "conforming:with-group", "mutation:missing-required-top", "mutation:duplicate-tolerated-unknown", "mutation:duplicate-tolerated-user",
             "mutation:undefined-known", "mutation:enum", "mutation:count+1", "mutation:swap-members", "mutation:duplicate", "mutation:header-in-body"],
    assumptions=["conforming messages list members in declaration order; a scalar whose tag is also defined inside a group of the same level is not generated",
                 "multi-valued fields are generated single-valued",
                 "where a validator setting relaxes the mutated check the verdict is 'accepted, or rejected with the expected identification'"],
)

SESSION_NOTE = ("Trusted base: the Go toolchain, rapid v1.3.0, the verif hook export in /repo (calls the run loop's own entry points one at a time), "
                "the rig/peer/fixwire packages under /verif. The session is driven synchronously: thread schedules of the real run loop are not explored here.")

PROPS["C04"] = dict(
    pkg="./props/session", level="exploration", design_ref="DESIGN.md §3 C04, Appendix B",
    technique="rapid state-machine scenarios in closed loop with a simulated FIX counterparty; oracle = light sequencing model of ResendRequests kept from observable facts + end-state equivalence with the counterparty's sent history",
    level_note=SESSION_NOTE,
    stages=[dict(name="rapid", kind="rapid", run="^TestC04_Rapid$", checks=(1500, 30000), shards=(12, 16), timeout=(600, 3000)),
            dict(name="slow-recovery", kind="plain", run="^TestC04_SlowRecovery$", shards=(1, 1), timeout=(120, 120))],
    require=["scenario-with:gap-on-logon", "scenario-with:live-stashed-during-recovery", "scenario-with:two-or-more-chunks", "scenario-with:reconnect",
             "scenario-with:inbound-while-pending-during-recovery", "scenario-with:chunk-relation:smaller-than-gap", "scenario-with:chunk-relation:none"],
    assumptions=["the counterparty answers one ResendRequest at a time and writes each replay contiguously (FIFO link); live messages may precede or follow a replay",
                 "'eventually' is decided as 'by the end of the scenario after the stabilisation phase'",
                 "SendingTime is taken from the real clock, far inside the latency window"],
)

PROPS["C01"] = dict(
    pkg="./props/session", level="exploration", design_ref="DESIGN.md §3 C01",
    technique="rapid state-machine histories (faithful counterparty traffic + injected messages placed relative to the expected number) under trace invariants read inside the application callbacks",
    level_note=SESSION_NOTE,
    stages=[dict(name="rapid", kind="rapid", run="^TestC01_Rapid$", checks=(1500, 30000), shards=(12, 16), timeout=(600, 3000))],
    require=["history-with:delivery-from-stash", "history-with:possdup-replay-delivered", "history-with:sequence-reset", "history-with:reconnect",
             "history-with:in-sequence-delivery", "history-with:application-refused-a-message", "chunk:true", "chunk:false"],
    assumptions=["in-session Logon messages and header defects are left to C07/C06", "the application refuses a generated subset of messages with a business reject; they count as handed over"],
)

PROPS["C03"] = dict(
    pkg="./props/session", level="exploration", design_ref="DESIGN.md §3 C03",
    technique="rapid-generated send histories, request ranges and refusal sets; the reply is tiled and compared byte-for-byte with the recorded first transmissions through an independent scanner",
    level_note=SESSION_NOTE,
    stages=[dict(name="rapid", kind="rapid", run="^TestC03_Rapid$", checks=(1200, 25000), shards=(12, 16), timeout=(600, 3000))],
    require=["mode:persist=true/dict=true", "mode:persist=true/dict=false", "mode:persist=false/dict=false", "history-shape:ends-with-group", "history-shape:with-group",
             "with-refusals", "range:empty", "range:clipped-at-end", "range:to-infinity", "range-with-app-and-admin"],
    assumptions=["BeginSeqNo <= 0 is outside FIX and not generated", "all history messages are sent while logged on"],
)

PROPS["C06"] = dict(
    pkg="./props/session", level="exploration", design_ref="DESIGN.md §3 C06, Appendix C",
    technique="rapid-generated header-defect matrix delivered in every logged-on state; reactions compared with an independent decision table written from the statement, callbacks checked against the gate recomputed from the inbound bytes",
    level_note=SESSION_NOTE,
    stages=[dict(name="rapid", kind="rapid", run="^TestC06_Rapid$", checks=(3000, 60000), shards=(12, 16), timeout=(600, 3000)),
            dict(name="acceptor-lookup", kind="plain", run="^TestC06_AcceptorLookup$", shards=(0, 4), timeout=(0, 600), thorough_only=True)],
    require=["state:normal", "state:recovering", "state:pending", "state:pending+recovering", "state:logon", "defects:control", "multi-defect", "follow-up:gap-filled", "follow-up:kept-message-delivered"],
    assumptions=["SendingTime values are placed at least 30 s away from the latency window edge, so the verdict does not depend on the run time",
                 "whether a plain Reject advances the expected number is not fixed by the statement and not asserted",
                 "time defects are not judged when CheckLatency=N (the statement conditions them on checking being enabled)"],
)

PROPS["C07"] = dict(
    pkg="./props/session", level="exploration", design_ref="DESIGN.md §3 C07",
    technique="rapid state machine over option combinations and connect/logon/logout/disconnect/reset histories; oracle = justification of every store reset from the statement's conditions, required resets with counter values, stability of counters and stored messages otherwise, forward-only SequenceReset rules",
    level_note=SESSION_NOTE,
    stages=[dict(name="rapid", kind="rapid", run="^TestC07_Rapid$", checks=(1500, 30000), shards=(12, 16), timeout=(600, 3000)),
            dict(name="real-loop-reset-time", kind="plain", run="^TestC07_RealLoopResetTime$", shards=(0, 1), timeout=(0, 300), thorough_only=True)],
    require=["history-with:reconnect-at-non-initial-counters", "history-with:application-sets-ResetSeqNumFlag=N", "history-with:application-sets-ResetSeqNumFlag=Y", "history-with:reset-negotiated", "history-with:sequence-reset:lower", "history-with:sequence-reset:higher",
             "history-with:reset-time-crossed", "history-with:logout", "history-with:disconnect", "store:file", "store:memory"],
    assumptions=["a logout that times out without an answer, and an initiator receiving an unsolicited ResetSeqNumFlag in the Logon answer, are not covered by the statement and only checked for 'no unjustified reset'",
                 "ResetSeqTime crossings are delivered through CheckResetTime with a virtual clock"],
)

PROPS["C08"] = dict(
    pkg="./props/session", level="exploration", design_ref="DESIGN.md §3 C08",
    technique="unconstrained rapid state machine over the session state machine; oracle = trace automaton over the ordered log of application callbacks, per-connection frames and channel closure",
    level_note=SESSION_NOTE,
    stages=[dict(name="rapid", kind="rapid", run="^TestC08_Rapid$", checks=(2500, 50000), shards=(12, 16), timeout=(600, 3000)),
            dict(name="real-loop", kind="rapid", run="^TestC08_RealLoop$", checks=(0, 40), shards=(0, 16), timeout=(0, 900), thorough_only=True)],
    require=["history-with:logged-on", "history-with:left-schedule", "role:initiator", "role:acceptor", "history-with:application-refused-logon"],
    assumptions=["an OnLogout without a preceding OnLogon (initiator whose logon is never answered) is not forbidden by the statement and not flagged",
                 "schedule windows are placed three hours around the real clock; leaving the schedule is one CheckSessionTime call with a virtual instant twelve hours away",
                 "after a stop request completed the run loop would exit: no further events are delivered"],
)

PROPS["C20"] = dict(
    pkg="./props/session", level="exploration", design_ref="DESIGN.md §3 C20",
    technique="rapid state machine on a harness-owned virtual clock (timer hook H2): timed trace invariants over heartbeats, test requests, dead-peer disconnect, and preservation of recovery bookkeeping across a pending test request",
    level_note=SESSION_NOTE + " Timers are observed at EventTimer.Reset and fired by the harness at the armed deadline; the real-timer run loop is exercised only by the C05 socket runs.",
    stages=[dict(name="rapid", kind="rapid", run="^TestC20_Rapid$", checks=(1500, 30000), shards=(12, 16), timeout=(600, 3000)),
            dict(name="real-timers", kind="plain", run="^TestC20_RealTimers$", shards=(1, 8), timeout=(60, 600), thorough_only=True)],
    require=["history-with:deadline-crossed:heartbeat", "history-with:deadline-crossed:peer", "history-with:inbound-while-pending", "history-with:inbound-while-pending-during-recovery",
             "history-with:test-request-answered", "history-with:reconnect", "override:true", "override:false"],
    assumptions=["virtual time: a timer fires exactly at the deadline the engine armed through EventTimer.Reset, never otherwise",
                 "'nothing sent/received' is measured from the last frame written / delivered in virtual time"],
)

PROPS["C09"] = dict(
    pkg="./props/codec", level="exploration", design_ref="DESIGN.md §3 C09",
    technique="structure-aware mutation testing with rapid over six in-process targets (parse+accessors, stream framing, validation against all shipped dictionaries, settings text, dictionary XML in a child process, a session in every state), oracle = no panic / no hang / session still answers a TestRequest; native Go fuzzing of the byte-level targets in the thorough tier",
    stages=[dict(name="message", kind="rapid", run="^TestC09_Message$", checks=(2500, 40000), shards=(8, 16), timeout=(600, 3000)),
            dict(name="stream", kind="rapid", run="^TestC09_Stream$", checks=(1500, 20000), shards=(4, 16), timeout=(600, 3000)),
            dict(name="settings", kind="rapid", run="^TestC09_Settings$", checks=(3000, 40000), shards=(2, 8), timeout=(600, 3000)),
            dict(name="dictionary", kind="rapid", run="^TestC09_Dictionary$", checks=(150, 1500), shards=(8, 16), timeout=(600, 3000)),
            dict(name="session", kind="rapid", run="^TestC09_Session$", pkg="./props/session", checks=(1500, 25000), shards=(8, 16), timeout=(600, 3000)),
            dict(name="acceptor-socket", kind="rapid", run="^TestC09_AcceptorSocket$", pkg="./props/session", checks=(0, 400), shards=(0, 4), timeout=(0, 1500), thorough_only=True),
            dict(name="fuzz-message", kind="fuzz", run="^FuzzC09_Message$", thorough_only=True, fuzztime=(0, 90), timeout=(0, 400)),
            dict(name="fuzz-stream", kind="fuzz", run="^FuzzC09_Stream$", thorough_only=True, fuzztime=(0, 60), timeout=(0, 400)),
            dict(name="fuzz-settings", kind="fuzz", run="^FuzzC09_Settings$", thorough_only=True, fuzztime=(0, 45), timeout=(0, 400))],
    require=["target:message", "target:stream", "target:settings", "settings:acceptor-built", "settings:initiator-built", "target:dictionary", "target:session", "message:parsed", "stream:framed", "settings:accepted",
             "dictionary:in-child-process", "session:garbage-then-alive"],
    assumptions=["frames given to the session target are what the real stream framer extracts from the mutated bytes (wire-reachable frames)",
                 "a stack overflow while loading a dictionary is observed as the death of a child process"],
)

PROPS["C05"] = dict(
    pkg="./props/session", level="exploration", design_ref="DESIGN.md §3 C05",
    technique="rapid state-machine simulation of two real engines over a harness-owned lossy link (cuts, reconnects, restarts on the file store); oracle = reference model of accepted sends versus the other side's delivery log after stabilisation",
    level_note=SESSION_NOTE + " Frames are lost whole; the thread schedules of the real run loop and the socket layer are not in this simulation.",
    stages=[dict(name="rapid", kind="rapid", run="^TestC05_Rapid$", checks=(500, 10000), shards=(12, 16), timeout=(600, 3000)),
            dict(name="sockets", kind="plain", run="^TestC05_Sockets$", shards=(1, 16), timeout=(60, 600), thorough_only=True)],
    require=["history-with:cut", "history-with:application-frame-lost-in-flight", "history-with:sent-while-not-logged-on", "history-with:restart-A", "history-with:restart-B",
             "history-with:cut-during-recovery", "stores:file/file", "stores:memory/memory"],
    assumptions=["sequence resets are disabled (no ResetOn* option)", "an engine restart is modelled on the file store only (a memory store does not survive a restart)",
                 "'a few heartbeat intervals' = eight rounds of 'deliver everything, tick both heartbeat timers'"],
)

PROPS["C02"] = dict(
    pkg="./props/session", level="exploration", design_ref="DESIGN.md §3 C02",
    technique="rapid-generated concurrent send plans executed by real goroutines against a harness-played run loop, with generated pauses inside the engine's locks; oracle = invariants over the stamped wire log and stamped store-save log; plus a sequential rapid state machine over connections, store resets (configured, negotiated, or requested by the application through ResetSeqNumFlag set in ToAdmin) and restarts, oracle = a counter model of the numbers handed out checked against every save, every first-time frame and the store's answers",
    level_note=SESSION_NOTE + " Real thread interleavings are sampled with generated perturbation, not enumerated: this is the property the technique decides most weakly; a failing schedule may not replay deterministically, so the full stamped history is the replay artefact.",
    stages=[dict(name="rapid", kind="rapid", run="^TestC02_Rapid$", checks=(250, 6000), shards=(12, 16), timeout=(600, 3000)),
            dict(name="epochs", kind="rapid", run="^TestC02_Epochs$", checks=(1500, 60000), shards=(8, 16), timeout=(600, 3000)),
            dict(name="race-perturbed", kind="rapid", run="^TestC02_Rapid$", checks=(0, 400), shards=(0, 16), timeout=(0, 1500), thorough_only=True, race=True, ignore_unclassified=True)],
    require=["store:memory", "store:file", "store:sql", "replay-overlapping-sends", "engine-traffic-overlapping-sends",
             "epochs:application-reset-at-non-initial-number", "epochs:restart", "epochs:replay"],
    assumptions=["the run-loop entry points are called from one goroutine (as the run loop does), sends from others (as SendToTarget allows)",
                 "schedules are sampled; absence of a violation is weaker evidence here than for the sequential properties"],
)

NOT_APPLICABLE = {}

HOOK_COMMITS = ["ce15100", "8c40017", "702cd0d", "9bc275a"]

NOTES = ("Every check rebuilds its test binary from /repo's working tree (tag verif), runs committed regression examples, "
         "then the generated tier (rapid shards / enumerations), merges measured coverage and writes evidence/<id>.json. "
         "Exit 2 = inconclusive (build failure, time-out, vacuous generator), never reported as a violation. "
         "Genuine defects found and repaired are listed as status=fixed in KNOWN_FINDINGS.json; open ones are printed as KNOWN-FINDING.")

package codec

// C11, history stage: what a parse exposes is a function of the bytes and the dictionary the caller
// passed - not of the messages that went through the same dictionary object before. A session keeps
// one dictionary for its lifetime and parses every inbound message with it.
//
// For every (dictionary, message, nested group) of the shipped dictionaries: a freshly loaded
// dictionary parses a probe, then a conforming message of the same type with the nested group
// populated, then the probe again; the long-lived dictionary object shared by the other stages
// parses the probe as well. The three results have to agree section by section. Probes are the
// conforming message with its fields out of place in the ways a counterparty's encoder produces:
// a user-defined tag inside an entry, the nested group behind its parent, the nested group alone.

import (
	"bytes"
	"fmt"
	"sort"
	"strings"
	"testing"

	"github.com/quickfixgo/quickfix"
	"github.com/quickfixgo/quickfix/datadictionary"

	"verif/fixwire"
	"verif/specxml"
	"verif/stats"
	"verif/vk"
)

func c11Dump(m *quickfix.Message) string {
	var sb strings.Builder
	for _, sec := range []struct {
		n  string
		fm *quickfix.FieldMap
	}{{"H", &m.Header.FieldMap}, {"B", &m.Body.FieldMap}, {"T", &m.Trailer.FieldMap}} {
		tags := sec.fm.Tags()
		sort.Slice(tags, func(i, j int) bool { return tags[i] < tags[j] })
		for _, tg := range tags {
			v, _ := sec.fm.GetBytes(tg)
			fmt.Fprintf(&sb, "%s:%d=%s ", sec.n, int(tg), v)
		}
	}
	return sb.String()
}

func c11ParseDump(raw []byte, transport, app *datadictionary.DataDictionary) string {
	m := quickfix.NewMessage()
	if err := quickfix.ParseMessageWithDataDictionary(m, bytes.NewBuffer(append([]byte(nil), raw...)), transport, app); err != nil {
		return "error: " + err.Error()
	}
	return c11Dump(m)
}

func TestC11_HistoryIndependent(t *testing.T) {
	c := c11()
	shard, shards := vk.Shard()
	var nested []c13pair
	for _, p := range allPairs(t) {
		if len(p.gp.Path) >= 2 {
			nested = append(nested, p)
		}
	}
	step := 7
	if vk.Thorough() {
		step = 1
	}
	n := 0
	for i := int(vk.Seed() % int64(step)); i < len(nested); i += step {
		n++
		if n%shards != shard {
			continue
		}
		pr := nested[i]
		vk.Guard(func() { c11HistoryCase(t, c, pr, int64(i)+vk.Seed()*1000) })
	}
}

func c11HistoryCase(t fataler, c *stats.Collector, pr c13pair, seed int64) {
	items, head, begin, transport := c13Generate(t, pr, 1, seed, nil)
	flat := specxml.Flatten(items)
	outer, inner := pr.gp.Path[0], pr.gp.Path[1]
	// the first occurrence of the nested count tag and the extent of that nested group instance
	members := map[int]bool{}
	var innerDef *specxml.Item
	var find func(its []*specxml.Item)
	find = func(its []*specxml.Item) {
		for _, it := range its {
			if innerDef != nil {
				return
			}
			if it.IsGroup && it.Tag == inner && len(it.Entries) > 0 {
				innerDef = it
				return
			}
			if it.IsGroup {
				for _, e := range it.Entries {
					find(e)
				}
			}
		}
	}
	find(items)
	if innerDef == nil {
		c.Class("history:excluded(nested-group-empty)")
		return
	}
	tagsInTree(innerDef, members)
	at := -1
	for i, f := range flat {
		if f.Tag == inner {
			at = i
			break
		}
	}
	if at < 0 {
		return
	}
	end := at + 1
	for end < len(flat) && members[flat[end].Tag] {
		end++
	}
	toFields := func(fs []specxml.FlatField) []fixwire.Field {
		out := append([]fixwire.Field{}, head...)
		for _, f := range fs {
			out = append(out, fixwire.F(f.Tag, f.Value))
		}
		return out
	}
	warm := fixwire.Build(begin, toFields(flat))
	foreign := specxml.FlatField{Tag: 9999, Value: "x"}
	var p1, p2 []specxml.FlatField
	p1 = append(p1, flat[:at]...)
	p1 = append(p1, foreign)
	p1 = append(p1, flat[at:]...)
	p2 = append(p2, flat[:at]...)
	p2 = append(p2, flat[end:]...)
	p2 = append(p2, flat[at:end]...)
	p3 := append([]specxml.FlatField(nil), flat[at:end]...)
	probes := map[string][]byte{
		"user-defined-tag-before-the-nested-group": fixwire.Build(begin, toFields(p1)),
		"nested-group-behind-everything":           fixwire.Build(begin, toFields(p2)),
		"nested-group-alone":                       fixwire.Build(begin, toFields(p3)),
	}
	names := []string{"user-defined-tag-before-the-nested-group", "nested-group-behind-everything", "nested-group-alone"}
	for _, name := range names {
		raw := probes[name]
		fresh, err := datadictionary.Parse(specDir + pr.dict + ".xml")
		if err != nil {
			t.Fatalf("harness: %v", err)
		}
		first := c11ParseDump(raw, transport, fresh)
		_ = c11ParseDump(warm, transport, fresh)
		again := c11ParseDump(raw, transport, fresh)
		old := c11ParseDump(raw, transport, dicts(t)[pr.dict].dd)
		c.Eval()
		c.Class("history:" + name)
		c.NonTrivial(stats.Hash("history", pr.dict, pr.gp.Msg.MsgType, fmt.Sprint(outer), fmt.Sprint(inner), name))
		desc := fmt.Sprintf("dictionary %s, message %s, group %d with nested %d\nprobe (%s): %s\nconforming message parsed in between: %s", pr.dict, pr.gp.Msg.MsgType, outer, inner, name, vk.Show(raw), vk.Show(warm))
		if first != again {
			vk.Violation(t, c, "C11/history-dependent-parse/"+name, "%s\nparsed first with a freshly loaded dictionary: %s\nparsed again after the conforming message:     %s", desc, first, again)
		}
		if first != old {
			vk.Violation(t, c, "C11/history-dependent-parse/"+name, "%s\nparsed with a freshly loaded dictionary:  %s\nparsed with the long-lived dictionary:    %s", desc, first, old)
		}
		c.SampleClass("history/"+name, map[string]interface{}{"dictionary": pr.dict, "msgtype": pr.gp.Msg.MsgType, "probe": vk.Show(raw), "result": first})
	}
}

package codec

// C12 - stream framing is independent of how the bytes arrive.
// Metamorphic oracle: any partition of the stream into reads gives the same frames and the
// same terminal error as the most generous reader; reference framer for the well-formed
// family: the frames are exactly the generated messages.

import (
	"bytes"
	"fmt"
	"io"
	"sort"
	"strconv"
	"testing"

	"github.com/quickfixgo/quickfix"
	"pgregory.net/rapid"

	"verif/fixwire"
	"verif/stats"
	"verif/vk"
)

const c12Rule = "streams = junk msg junk ... msg tail (messages 30 B - 20 kB serialised by fixwire, BodyLength plain or zero-padded, data fields with SOH and '10=' look-alikes inside the counted body, junk without a BeginString marker, short or in runs sized around multiples of the 4096-byte buffer) or fragment soups of FIX delimiters; partitions = 1 byte, fixed sizes, generated split points aimed inside '8=', '9=', length digits, '10=' and checksum, chunks larger than the 4096-byte buffer, reads that return nothing and no error between chunks, EOF delivered with data; non-trivial = >=2 messages and a split inside a tag/length/checksum, or a message larger than the buffer; distinct = distinct (stream, partition)"

func c12() *stats.Collector {
	c := stats.Get("C12")
	c.SetRule(c12Rule)
	return c
}

type chunkReader struct {
	data        []byte
	sizes       []int // chunk sizes, used cyclically; 0 or missing = everything
	i           int
	left        int // remainder of the current chunk
	reads       int
	limit       int // reads allowed (0 = unbounded)
	eofWithData bool
	lastEmpty   bool
}

// emptyRead in the size list stands for one read that returns (0, nil).
const emptyRead = -1

// readBoundExceeded is what the reader throws when it is asked for more reads than any
// terminating framer needs (a loop that keeps reading an exhausted stream never comes back to the
// caller, so the bound has to be enforced here).
type readBoundExceeded struct{}

func (r *chunkReader) Read(p []byte) (int, error) {
	r.reads++
	if r.limit > 0 && r.reads > r.limit {
		panic(readBoundExceeded{})
	}
	if len(r.data) == 0 {
		return 0, io.EOF
	}
	if len(p) == 0 {
		return 0, nil
	}
	if r.left == 0 {
		n := 0
		if len(r.sizes) > 0 {
			n = r.sizes[r.i%len(r.sizes)]
			r.i++
			if n == emptyRead {
				if !r.lastEmpty {
					// a read that brings nothing and no error (io.Reader allows it; bufio passes it on)
					r.lastEmpty = true
					return 0, nil
				}
				for k := 0; k < len(r.sizes) && n == emptyRead; k++ { // never two in a row
					n = r.sizes[r.i%len(r.sizes)]
					r.i++
				}
				if n == emptyRead {
					n = 0
				}
			}
		}
		r.lastEmpty = false
		if n <= 0 {
			n = len(r.data)
		}
		r.left = n
	}
	n := r.left
	if n > len(p) {
		n = len(p)
	}
	if n > len(r.data) {
		n = len(r.data)
		r.left = n
	}
	copy(p, r.data[:n])
	r.data = r.data[n:]
	r.left -= n
	if len(r.data) == 0 && r.eofWithData {
		return n, io.EOF
	}
	return n, nil
}

type frameResult struct {
	frames [][]byte
	err    string
	hang   bool
	panic  interface{}
	// changedLater: index+1 of a frame whose bytes, as handed out by ReadMessage, were different at
	// the end of the stream from what they were when it was returned (0 = none)
	changedLater int
}

func runFramer(data []byte, sizes []int, eofWithData bool) (res frameResult) {
	r := &chunkReader{data: append([]byte(nil), data...), sizes: sizes, eofWithData: eofWithData}
	limit := 4*len(data) + 64
	r.limit = 2 * limit
	defer func() {
		if _, ok := res.panic.(readBoundExceeded); ok {
			res.panic, res.hang = nil, true
		}
	}()
	var held [][]byte // the slices as returned: the read loop queues them, the session parses them later
	defer func() {
		for i := range held {
			if i < len(res.frames) && !bytes.Equal(held[i], res.frames[i]) {
				res.changedLater = i + 1
				return
			}
		}
	}()
	res.panic = catch(func() {
		p := quickfix.VerifNewParser(r)
		for {
			f, err := p.ReadMessage()
			if err != nil {
				// the engine's read loop ends at the first error of any kind: that is the terminal error
				res.err = err.Error()
				return
			}
			held = append(held, f)
			res.frames = append(res.frames, append([]byte(nil), f...))
			if r.reads > limit || len(res.frames) > limit {
				res.hang = true
				return
			}
		}
	})
	return res
}

func sameFrames(a, b frameResult) (bool, string) {
	if a.hang != b.hang {
		return false, fmt.Sprintf("hang %v vs %v", a.hang, b.hang)
	}
	if len(a.frames) != len(b.frames) {
		return false, fmt.Sprintf("%d frames vs %d", len(a.frames), len(b.frames))
	}
	for i := range a.frames {
		if !bytes.Equal(a.frames[i], b.frames[i]) {
			return false, fmt.Sprintf("frame %d differs: %s vs %s", i, clip(a.frames[i]), clip(b.frames[i]))
		}
	}
	if a.err != b.err {
		return false, fmt.Sprintf("terminal error %q vs %q", a.err, b.err)
	}
	return true, ""
}

func clip(b []byte) string {
	s := vk.Show(b)
	if len(s) > 160 {
		return s[:80] + "..." + s[len(s)-60:]
	}
	return s
}

func genJunk(t *rapid.T, label string) []byte {
	n := rapid.IntRange(0, 12).Draw(t, label+"-n")
	b := rapid.SliceOfN(rapid.SampledFrom([]byte{'8', '=', 1, '9', '1', '0', 'x', '\n', '=', 1}), n, n).Draw(t, label)
	if rapid.IntRange(0, 7).Draw(t, label+"-long") == 0 {
		// a long run, sized around a multiple of the parser's buffer (4096): a short pattern tiled
		total := rapid.SampledFrom([]int{4096, 8192, 12288}).Draw(t, label+"-around") + rapid.OneOf(rapid.IntRange(-3, 3), rapid.IntRange(-80, 80)).Draw(t, label+"-delta")
		pat := append(append([]byte{}, b...), 'n')
		long := make([]byte, 0, total)
		for len(long) < total {
			long = append(long, pat...)
		}
		b = long[:total]
		c12().Class("long-junk")
	}
	// junk must not contain a BeginString marker, nor end in '8' right before the next message's "8="
	b = bytes.ReplaceAll(b, []byte("8="), []byte("8x"))
	if len(b) > 0 && b[len(b)-1] == '8' {
		b[len(b)-1] = 'y'
	}
	return b
}

func genStreamMessage(t *rapid.T) []byte {
	rest := []fixwire.Field{fixwire.F(35, rapid.SampledFrom([]string{"D", "0", "8", "AE"}).Draw(t, "mt")), fixwire.F(49, "S"), fixwire.F(56, "T"), fixwire.F(34, strconv.Itoa(rapid.IntRange(1, 99999).Draw(t, "seq")))}
	nf := rapid.IntRange(0, 6).Draw(t, "nf")
	for i := 0; i < nf; i++ {
		switch rapid.IntRange(0, 5).Draw(t, "fk") {
		case 0: // data field with SOH and checksum look-alikes inside the counted body
			data := rapid.SliceOfN(rapid.SampledFrom([]byte{1, '1', '0', '=', '8', '9', 'a', 1}), 1, 40).Draw(t, "data")
			rest = append(rest, fixwire.F(95, strconv.Itoa(len(data))), fixwire.Field{Tag: 96, Value: data})
		case 1: // big field
			size := rapid.SampledFrom([]int{100, 1000, 3000, 4090, 4096, 5000, 9000, 20000}).Draw(t, "big")
			rest = append(rest, fixwire.Field{Tag: 58, Value: bytes.Repeat([]byte{byte('a' + i)}, size)})
		case 2:
			rest = append(rest, fixwire.F(58, "10=000"), fixwire.F(5000+i, "8=FIX"))
		default:
			rest = append(rest, fixwire.Field{Tag: rapid.IntRange(1, 999).Draw(t, "tag"), Value: []byte(rapid.StringMatching(`[A-Za-z0-9=]{0,12}`).Draw(t, "v"))})
		}
	}
	// BodyLength as most encoders write it, or zero-padded to a fixed width
	width := rapid.SampledFrom([]int{0, 0, 0, 4, 6, 9}).Draw(t, "bodylength-width")
	return fixwire.BuildPadded(rapid.SampledFrom([]string{"FIX.4.2", "FIXT.1.1", "FIX.4.0"}).Draw(t, "begin"), rest, width)
}

var soupFragments = [][]byte{[]byte("8="), []byte("8=FIX.4.2\x01"), []byte("\x019="), []byte("9="), []byte("\x0110="), []byte("10="), {1}, []byte("35=D\x01"), []byte("0"), []byte("5"), []byte("12"), []byte("000\x01"),
	[]byte("-1"), []byte("x"), []byte("99999"), []byte("\x01\x01"), []byte("=")}

func genPartition(t *rapid.T, stream []byte, spans [][2]int) (sizes []int, cuts []int) {
	switch rapid.IntRange(0, 5).Draw(t, "pkind") {
	case 0:
		return []int{1}, nil
	case 1:
		return []int{rapid.IntRange(2, 64).Draw(t, "fixed")}, nil
	case 2:
		return []int{rapid.SampledFrom([]int{4095, 4096, 4097, 8192, 100000}).Draw(t, "bigchunk")}, nil
	case 3:
		return rapid.SliceOfN(rapid.IntRange(1, 5000), 1, 8).Draw(t, "sizes"), nil
	default:
		// split points aimed inside the interesting spans
		set := map[int]bool{}
		n := rapid.IntRange(1, 10).Draw(t, "ncuts")
		for i := 0; i < n; i++ {
			if len(spans) > 0 && rapid.IntRange(0, 3).Draw(t, "aim") != 0 {
				sp := spans[rapid.IntRange(0, len(spans)-1).Draw(t, "span")]
				if sp[1] > sp[0] {
					set[rapid.IntRange(sp[0]+1, sp[1]).Draw(t, "cut")] = true
					continue
				}
			}
			if len(stream) > 1 {
				set[rapid.IntRange(1, len(stream)-1).Draw(t, "cut")] = true
			}
		}
		for c := range set {
			if c > 0 && c < len(stream) {
				cuts = append(cuts, c)
			}
		}
		sort.Ints(cuts)
		prev := 0
		for _, c := range cuts {
			sizes = append(sizes, c-prev)
			prev = c
		}
		sizes = append(sizes, len(stream)-prev+1)
		// after the listed sizes the reader cycles; make the tail generous
		sizes = append(sizes, 1<<30)
		return sizes, cuts
	}
}

func c12Property(t *rapid.T) {
	c := c12()
	var stream []byte
	var msgs [][]byte
	var spans [][2]int // byte ranges of "8=", "\x019=<digits>\x01" and "\x0110=xxx\x01" of every message
	family := rapid.SampledFrom([]string{"wellformed", "wellformed", "wellformed", "soup"}).Draw(t, "family")
	big := false
	if family == "wellformed" {
		n := rapid.IntRange(1, 5).Draw(t, "nmsg")
		stream = append(stream, genJunk(t, "junk0")...)
		for i := 0; i < n; i++ {
			m := genStreamMessage(t)
			off := len(stream)
			spans = append(spans, [2]int{off, off + 2})
			p9 := bytes.Index(m, []byte("\x019="))
			e9 := p9 + 3 + bytes.IndexByte(m[p9+3:], 1)
			spans = append(spans, [2]int{off + p9, off + e9})
			spans = append(spans, [2]int{off + len(m) - 8, off + len(m) - 1})
			if len(m) > 4096 {
				big = true
			}
			msgs = append(msgs, m)
			stream = append(stream, m...)
			stream = append(stream, genJunk(t, "junk")...)
		}
		if rapid.IntRange(0, 3).Draw(t, "truncate-tail") == 0 {
			// an incomplete message at the end of the stream
			m := genStreamMessage(t)
			stream = append(stream, m[:rapid.IntRange(1, len(m)-1).Draw(t, "tail")]...)
		}
	} else {
		n := rapid.IntRange(1, 25).Draw(t, "nfrag")
		for i := 0; i < n; i++ {
			stream = append(stream, rapid.SampledFrom(soupFragments).Draw(t, "frag")...)
		}
	}
	sizes, cuts := genPartition(t, stream, spans)
	emptyReads := 0
	if rapid.IntRange(0, 3).Draw(t, "with-empty-reads") == 0 {
		for k := rapid.IntRange(1, 4).Draw(t, "empty-reads"); k > 0; k-- {
			at := rapid.IntRange(0, len(sizes)).Draw(t, "empty-read-at")
			sizes = append(sizes[:at], append([]int{emptyRead}, sizes[at:]...)...)
			emptyReads++
		}
	}
	eofWith := rapid.Bool().Draw(t, "eof-with-data")
	c.Eval()
	c.Class("family:" + family)
	if emptyReads > 0 {
		c.Class("partition-with-empty-reads")
	}

	ref := runFramer(stream, nil, false)
	got := runFramer(stream, sizes, eofWith)
	for name, r := range map[string]frameResult{"reference": ref, "partitioned": got} {
		if r.panic != nil {
			vk.Violation(t, c, "C12/panic/"+family, "%s reader: %v on stream %s", name, r.panic, clip(stream))
		}
		if r.hang {
			vk.Violation(t, c, "C12/hang/"+family, "%s reader did not terminate within the read bound on %s sizes %v", name, clip(stream), sizes)
		}
		if r.changedLater > 0 {
			vk.Violation(t, c, "C12/frames/changed-after-later-reads/"+family, "%s reader: frame %d (%d bytes) as returned by ReadMessage no longer holds the bytes it was returned with once the rest of the stream had been read; stream %s sizes %v", name, r.changedLater-1, len(r.frames[r.changedLater-1]), clip(stream), sizes)
		}
	}
	if ok, why := sameFrames(ref, got); !ok {
		vk.Violation(t, c, "C12/partition-dependent/"+family, "%s; stream %s sizes %v eofWithData %v", why, clip(stream), sizes, eofWith)
	}
	if family == "wellformed" {
		// reference framer: exactly the generated messages, byte identical, in order
		var real [][]byte
		for _, f := range got.frames {
			if !bytes.HasPrefix(f, []byte("ERR:")) {
				real = append(real, f)
			}
		}
		if len(real) != len(msgs) {
			vk.Violation(t, c, "C12/frames/count", "%d frames for %d messages; stream %s sizes %v", len(real), len(msgs), clip(stream), sizes)
		}
		for i := range msgs {
			if !bytes.Equal(real[i], msgs[i]) {
				vk.Violation(t, c, "C12/frames/content", "frame %d is %s want %s", i, clip(real[i]), clip(msgs[i]))
			}
		}
	}
	inSpan := false
	for _, cut := range cuts {
		for _, sp := range spans {
			if cut > sp[0] && cut <= sp[1] {
				inSpan = true
			}
		}
	}
	if len(sizes) == 1 && sizes[0] < 8 {
		inSpan = len(spans) > 0
	}
	if inSpan {
		c.Class("split-inside-tag-length-or-checksum")
	}
	if big {
		c.Class("message-larger-than-buffer")
	}
	if len(msgs) >= 2 {
		c.Class("two-or-more-messages")
	}
	if (len(msgs) >= 2 && inSpan) || big || (family == "soup" && len(stream) > 8) {
		c.NonTrivial(stats.Hash(stream, fmt.Sprint(sizes), eofWith))
		c.SampleClass(family+fmt.Sprintf("/big=%v/inSpan=%v", big, inSpan), map[string]interface{}{"stream": clip(stream), "len": len(stream), "sizes": clipSizes(sizes), "frames": len(got.frames), "terminal": got.err})
	}
}

func clipSizes(s []int) []int {
	if len(s) > 12 {
		return s[:12]
	}
	return s
}

func TestC12_Rapid(t *testing.T) {
	rapid.Check(t, func(t *rapid.T) {
		vk.Guard(func() { c12Property(t) })
	})
}

// Package fixwire is the independent oracle library for FIX tag=value encoding. It imports
// nothing from quickfix and is written from the FIX specification: fields are separated by
// SOH, a field is tag '=' value split at the first '=', BodyLength counts the bytes after the
// BodyLength field's SOH up to and including the SOH before "10=", CheckSum is the byte sum
// modulo 256 of everything before the CheckSum field written as three digits.
package fixwire

import (
	"bytes"
	"errors"
	"fmt"
	"strconv"
)

const SOH = byte(0x01)

type Field struct {
	Tag   int
	Value []byte
	// Zeros: the tag is written with this many leading zeros ("058=": still tag 58). Only
	// meaningful when building; a scanned field always has 0 here.
	Zeros int
}

func F(tag int, value string) Field { return Field{Tag: tag, Value: []byte(value)} }

func (f Field) String() string { return fmt.Sprintf("%d=%s", f.Tag, f.Value) }

// Standard header and trailer tags, FIX 4.0 - 5.0SP2 / FIXT 1.1 (spec volume 1/2).
var headerTags = map[int]bool{
	8: true, 9: true, 35: true, 1128: true, 1129: true, 1156: true, 49: true, 56: true, 115: true, 128: true,
	90: true, 91: true, 34: true, 50: true, 142: true, 57: true, 143: true, 116: true, 144: true, 129: true,
	145: true, 43: true, 97: true, 52: true, 122: true, 212: true, 213: true, 347: true, 369: true, 370: true,
	627: true, 628: true, 629: true, 630: true,
}

var trailerTags = map[int]bool{93: true, 89: true, 10: true}

func IsHeaderTag(t int) bool  { return headerTags[t] }
func IsTrailerTag(t int) bool { return trailerTags[t] }
func IsBodyTag(t int) bool    { return !headerTags[t] && !trailerTags[t] }

// HeaderTags returns the standard header tags other than 8, 9, 35 in a stable order.
func HeaderTags() []int {
	return []int{49, 56, 34, 52, 50, 57, 142, 143, 115, 128, 116, 129, 144, 145, 43, 97, 122, 347, 369, 370, 1128, 1129, 1156}
}

// DataPairs: length tag -> data tag for the length-prefixed data fields that may contain SOH.
var DataPairs = map[int]int{212: 213, 90: 91, 93: 89, 95: 96, 348: 349, 350: 351, 352: 353, 354: 355, 356: 357, 358: 359, 360: 361, 362: 363, 364: 365}

// Scan splits a message into fields. When honour is non-nil, a field whose tag is a key of
// honour and whose value is a non-negative number n makes the following field, if it carries
// the mapped data tag, extend over exactly n value bytes (which may contain SOH).
func Scan(b []byte, honour map[int]int) ([]Field, error) {
	var out []Field
	pendingLen, pendingTag := -1, 0
	for len(b) > 0 {
		eq := bytes.IndexByte(b, '=')
		if eq <= 0 {
			return out, fmt.Errorf("no tag before '=' at %q", trunc(b))
		}
		soh := bytes.IndexByte(b, SOH)
		if soh >= 0 && soh < eq {
			return out, fmt.Errorf("field without '=' at %q", trunc(b))
		}
		tag, err := strconv.Atoi(string(b[:eq]))
		if err != nil || tag <= 0 {
			return out, fmt.Errorf("bad tag %q", b[:eq])
		}
		var val []byte
		if pendingLen >= 0 && tag == pendingTag {
			end := eq + 1 + pendingLen
			if pendingLen > len(b) || end >= len(b) || b[end] != SOH {
				return out, fmt.Errorf("data field %d: length %d does not end at SOH", tag, pendingLen)
			}
			val = b[eq+1 : end]
			b = b[end+1:]
		} else {
			if soh < 0 {
				return out, fmt.Errorf("field not terminated by SOH at %q", trunc(b))
			}
			val = b[eq+1 : soh]
			b = b[soh+1:]
		}
		pendingLen = -1
		if dt, ok := honour[tag]; ok {
			if n, err := strconv.Atoi(string(val)); err == nil && n >= 0 {
				pendingLen, pendingTag = n, dt
			}
		}
		out = append(out, Field{Tag: tag, Value: val})
	}
	return out, nil
}

func trunc(b []byte) []byte {
	if len(b) > 40 {
		return b[:40]
	}
	return b
}

// Join writes fields as they are, each followed by SOH.
func Join(fields []Field) []byte {
	var buf bytes.Buffer
	for _, f := range fields {
		for i := 0; i < f.Zeros; i++ {
			buf.WriteByte('0')
		}
		buf.WriteString(strconv.Itoa(f.Tag))
		buf.WriteByte('=')
		buf.Write(f.Value)
		buf.WriteByte(SOH)
	}
	return buf.Bytes()
}

func Sum(b []byte) int {
	s := 0
	for _, c := range b {
		s += int(c)
	}
	return s % 256
}

// Build serialises 8, 9 (computed), then rest (which should start with 35), then 10 (computed).
func Build(beginString string, rest []Field) []byte { return BuildPadded(beginString, rest, 0) }

// BuildPadded is Build with BodyLength written in at least width digits (zero-padded, as encoders
// with fixed-width length fields write it).
func BuildPadded(beginString string, rest []Field, width int) []byte {
	body := Join(rest)
	var buf bytes.Buffer
	buf.WriteString("8=" + beginString)
	buf.WriteByte(SOH)
	buf.WriteString("9=" + fmt.Sprintf("%0*d", width, len(body)))
	buf.WriteByte(SOH)
	buf.Write(body)
	cs := Sum(buf.Bytes())
	fmt.Fprintf(&buf, "10=%03d", cs)
	buf.WriteByte(SOH)
	return buf.Bytes()
}

// Frame describes the framing facts of a message, computed independently.
type Frame struct {
	BeginString    string
	DeclaredLength string
	ActualLength   int // bytes after the 9= field up to and including the SOH before the final 10=
	DeclaredSum    string
	ActualSum      int
	Fields         []Field
}

// Analyze checks the outer framing: starts with 8=, then 9=, ends with 10=xxx SOH.
func Analyze(b []byte, honour map[int]int) (*Frame, error) {
	fs, err := Scan(b, honour)
	if err != nil {
		return nil, err
	}
	if len(fs) < 4 {
		return nil, errors.New("fewer than four fields")
	}
	if fs[0].Tag != 8 || fs[1].Tag != 9 {
		return nil, fmt.Errorf("does not start with 8, 9 (got %d, %d)", fs[0].Tag, fs[1].Tag)
	}
	last := fs[len(fs)-1]
	if last.Tag != 10 {
		return nil, fmt.Errorf("does not end with CheckSum (last tag %d)", last.Tag)
	}
	// positions, not re-serialised lengths: a tag may be written non-canonically ("08=")
	first := bytes.IndexByte(b, SOH)
	headLen := first + 1 + bytes.IndexByte(b[first+1:], SOH) + 1
	tailLen := len(b) - 1 - bytes.LastIndexByte(b[:len(b)-1], SOH)
	fr := &Frame{
		BeginString:    string(fs[0].Value),
		DeclaredLength: string(fs[1].Value),
		ActualLength:   len(b) - headLen - tailLen,
		DeclaredSum:    string(last.Value),
		ActualSum:      Sum(b[:len(b)-tailLen]),
		Fields:         fs,
	}
	return fr, nil
}

// WellFormed reports whether framing arithmetic is right.
func (f *Frame) WellFormed() error {
	if f.DeclaredLength != strconv.Itoa(f.ActualLength) {
		return fmt.Errorf("BodyLength declared %s, actual %d", f.DeclaredLength, f.ActualLength)
	}
	if f.DeclaredSum != fmt.Sprintf("%03d", f.ActualSum) {
		return fmt.Errorf("CheckSum declared %s, actual %03d", f.DeclaredSum, f.ActualSum)
	}
	return nil
}

// Get returns the first field with the tag.
func Get(fs []Field, tag int) ([]byte, bool) {
	for _, f := range fs {
		if f.Tag == tag {
			return f.Value, true
		}
	}
	return nil, false
}

func GetS(fs []Field, tag int) string {
	v, _ := Get(fs, tag)
	return string(v)
}

func GetInt(fs []Field, tag int) (int, bool) {
	v, ok := Get(fs, tag)
	if !ok {
		return 0, false
	}
	n, err := strconv.Atoi(string(v))
	if err != nil {
		return 0, false
	}
	return n, true
}

func Count(fs []Field, tag int) int {
	n := 0
	for _, f := range fs {
		if f.Tag == tag {
			n++
		}
	}
	return n
}

// Sections splits a scanned message into header, body, trailer by the standard tag tables,
// keeping wire order inside each section. It also reports whether the sections are contiguous
// (all header fields before all body fields before all trailer fields).
func Sections(fs []Field) (h, b, t []Field, ordered bool) {
	ordered = true
	stage := 0
	for _, f := range fs {
		var s int
		switch {
		case IsHeaderTag(f.Tag):
			s = 0
			h = append(h, f)
		case IsTrailerTag(f.Tag):
			s = 2
			t = append(t, f)
		default:
			s = 1
			b = append(b, f)
		}
		if s < stage {
			ordered = false
		}
		if s > stage {
			stage = s
		}
	}
	return
}

// AdminTypes per the FIX session layer.
func IsAdminMsgType(mt string) bool {
	switch mt {
	case "0", "1", "2", "3", "4", "5", "A":
		return true
	}
	return false
}

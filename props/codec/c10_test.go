package codec

// C10 - built messages are well-formed FIX whatever API calls produced them.
// Generator: programs of field-map operations. Oracle: reference maps updated by the same
// program + the independent scanner (fixwire) + ParseMessage round trip.

import (
	"bytes"
	"fmt"
	"sort"
	"strconv"
	"strings"
	"testing"

	"github.com/quickfixgo/quickfix"
	"pgregory.net/rapid"

	"verif/fixwire"
	"verif/stats"
	"verif/vk"
)

const c10Rule = "rapid-generated programs of 1-40 field-map operations (typed/raw setters, overwrite, Remove, Clear, set again, SetGroup with nested templates, CopyInto a fresh, a dirty or a previously built message) on header/body/trailer of up to three messages, group entries carrying a field their template does not list (second stage, judged on the bytes); non-trivial = program contains remove->set of the same tag, clear->set, an overwrite, a group, or a copy of a message holding a group; distinct = distinct operation trace"

func c10() *stats.Collector {
	c := stats.Get("C10")
	c.SetRule(c10Rule)
	return c
}

// ---- reference model

type mTmpl struct{ members []mMember }
type mMember struct {
	tag    int
	nested *mTmpl
}
type mEntry struct {
	vals   map[int][]byte
	groups map[int]*mGroup
	// extra: a field the caller set on the entry that the group's template does not list (a
	// counterparty-specific tag); it is written behind the entry's template members
	extra *fixwire.Field
}
type mGroup struct {
	tag     int
	tmpl    *mTmpl
	entries []*mEntry
}
type mItem struct {
	val []byte
	grp *mGroup
}
type mSection map[int]*mItem
type mMsg struct{ h, b, t mSection }

func newMMsg() *mMsg { return &mMsg{mSection{}, mSection{}, mSection{}} }

func (g *mGroup) flatten() []fixwire.Field {
	out := []fixwire.Field{{Tag: g.tag, Value: []byte(strconv.Itoa(len(g.entries)))}}
	for _, e := range g.entries {
		for _, m := range g.tmpl.members {
			if m.nested == nil {
				if v, ok := e.vals[m.tag]; ok {
					out = append(out, fixwire.Field{Tag: m.tag, Value: v})
				}
			} else if ng, ok := e.groups[m.tag]; ok {
				out = append(out, ng.flatten()...)
			}
		}
		if e.extra != nil {
			out = append(out, *e.extra)
		}
	}
	return out
}

func (g *mGroup) clone() *mGroup {
	c := &mGroup{tag: g.tag, tmpl: g.tmpl}
	for _, e := range g.entries {
		ne := &mEntry{vals: map[int][]byte{}, groups: map[int]*mGroup{}}
		for k, v := range e.vals {
			ne.vals[k] = v
		}
		for k, v := range e.groups {
			ne.groups[k] = v.clone()
		}
		ne.extra = e.extra
		c.entries = append(c.entries, ne)
	}
	return c
}

func (s mSection) clone() mSection {
	c := mSection{}
	for k, v := range s {
		it := &mItem{val: v.val}
		if v.grp != nil {
			it.grp = v.grp.clone()
		}
		c[k] = it
	}
	return c
}

func (g *mGroup) hasContent() bool { return len(g.entries) > 0 }

func (t *mTmpl) qf() quickfix.GroupTemplate {
	var gt quickfix.GroupTemplate
	for _, m := range t.members {
		if m.nested == nil {
			gt = append(gt, quickfix.GroupElement(quickfix.Tag(m.tag)))
		} else {
			gt = append(gt, nestedItem(quickfix.NewRepeatingGroup(quickfix.Tag(m.tag), m.nested.qf())))
		}
	}
	return gt
}

// groupFill is how group entries are populated through the API (set by the property from a
// generated draw): the order in which the members of an entry are set (0 template order,
// 1 reverse, 2 rotated) and whether the entry object is first filled with other values,
// serialised once, cleared and filled again (an entry object reused by the caller). The
// template, not the call order, decides the wire order.
var groupFill struct {
	order int
	reuse bool
}

func (g *mGroup) qf() *quickfix.RepeatingGroup {
	rg := quickfix.NewRepeatingGroup(quickfix.Tag(g.tag), g.tmpl.qf())
	for _, e := range g.entries {
		qe := rg.Add()
		if groupFill.reuse {
			for k, m := range g.tmpl.members {
				if m.nested == nil && (k == 0 || k%2 == 1) {
					qe.FieldMap.SetString(quickfix.Tag(m.tag), "stale")
				}
			}
			_ = rg.Write()
			qe.FieldMap.Clear()
		}
		fillEntry(&qe.FieldMap, g.tmpl, e)
	}
	return rg
}

func fillEntry(fm *quickfix.FieldMap, t *mTmpl, e *mEntry) {
	members := append([]mMember(nil), t.members...)
	switch groupFill.order {
	case 1:
		for i, j := 0, len(members)-1; i < j; i, j = i+1, j-1 {
			members[i], members[j] = members[j], members[i]
		}
	case 2:
		if len(members) > 1 {
			members = append(members[1:], members[0])
		}
	}
	for _, m := range members {
		if m.nested == nil {
			if v, ok := e.vals[m.tag]; ok {
				fm.SetBytes(quickfix.Tag(m.tag), v)
			}
		} else if ng, ok := e.groups[m.tag]; ok {
			fm.SetGroup(ng.qf())
		}
	}
	if e.extra != nil {
		fm.SetBytes(quickfix.Tag(e.extra.Tag), e.extra.Value)
	}
}

// compareGroup checks a parsed quickfix group against the model group.
func compareGroup(rg *quickfix.RepeatingGroup, g *mGroup) error {
	if rg.Len() != len(g.entries) {
		return fmt.Errorf("group %d: %d entries, want %d", g.tag, rg.Len(), len(g.entries))
	}
	for i, e := range g.entries {
		qe := rg.Get(i)
		for _, m := range g.tmpl.members {
			if m.nested == nil {
				want, ok := e.vals[m.tag]
				got, err := qe.GetBytes(quickfix.Tag(m.tag))
				if ok != (err == nil) {
					return fmt.Errorf("group %d entry %d tag %d: present=%v want %v", g.tag, i, m.tag, err == nil, ok)
				}
				if ok && !bytes.Equal(got, want) {
					return fmt.Errorf("group %d entry %d tag %d: %q want %q", g.tag, i, m.tag, got, want)
				}
			} else {
				ng, ok := e.groups[m.tag]
				has := qe.Has(quickfix.Tag(m.tag))
				if ok != has {
					return fmt.Errorf("group %d entry %d nested %d: present=%v want %v", g.tag, i, m.tag, has, ok)
				}
				if ok {
					nrg := quickfix.NewRepeatingGroup(quickfix.Tag(m.tag), m.nested.qf())
					if err := qe.GetGroup(nrg); err != nil {
						return fmt.Errorf("group %d entry %d nested %d: %v", g.tag, i, m.tag, err)
					}
					if err := compareGroup(nrg, ng); err != nil {
						return err
					}
				}
			}
		}
	}
	return nil
}

// ---- generators

var c10HeaderPool = []int{49, 56, 34, 52, 50, 57, 142, 143, 115, 128, 116, 129, 144, 145, 43, 97, 122, 347, 369, 370, 1128, 1129, 1156, 90, 91}
var c10TrailerPool = []int{93, 89}

func genValue(t *rapid.T, label string) []byte {
	switch rapid.IntRange(0, 9).Draw(t, label+"-kind") {
	case 0:
		return []byte{}
	case 1:
		return []byte("=")
	case 2:
		return []byte(rapid.StringMatching(`[A-Za-z0-9 =.:-]{1,12}`).Draw(t, label))
	case 3:
		b := rapid.SliceOfN(rapid.ByteRange(2, 255), 1, 10).Draw(t, label)
		return b
	default:
		return []byte(rapid.StringMatching(`[A-Z0-9]{1,6}`).Draw(t, label))
	}
}

func genBodyTag(t *rapid.T, label string) int {
	// small pool so that overwrite / remove->set sequences are frequent, plus arbitrary tags
	return rapid.OneOf(
		rapid.SampledFrom([]int{1, 11, 21, 38, 40, 44, 54, 55, 58, 60, 1000, 4999}),
		rapid.IntRange(11, 4999),
		rapid.SampledFrom([]int{20000, 2147483647, 65536, 99999}),
	).Filter(func(v int) bool { return fixwire.IsBodyTag(v) }).Draw(t, label)
}

// group tags live in 5000..5999 so they never collide with scalar body tags
func genTemplate(t *rapid.T, depth int, next *int) *mTmpl {
	n := rapid.IntRange(1, 4).Draw(t, "members")
	tm := &mTmpl{}
	for i := 0; i < n; i++ {
		tag := *next
		*next++
		if i > 0 && depth < 3 && rapid.IntRange(0, 3).Draw(t, "nest") == 0 {
			tm.members = append(tm.members, mMember{tag: tag, nested: genTemplate(t, depth+1, next)})
		} else {
			tm.members = append(tm.members, mMember{tag: tag})
		}
	}
	return tm
}

func genGroup(t *rapid.T, tag int, tm *mTmpl) *mGroup {
	g := &mGroup{tag: tag, tmpl: tm}
	n := rapid.IntRange(0, 3).Draw(t, "entries")
	for i := 0; i < n; i++ {
		e := &mEntry{vals: map[int][]byte{}, groups: map[int]*mGroup{}}
		for j, m := range tm.members {
			if j > 0 && rapid.IntRange(0, 2).Draw(t, "absent") == 0 {
				continue
			}
			if m.nested == nil {
				e.vals[m.tag] = genValue(t, "gv")
			} else {
				e.groups[m.tag] = genGroup(t, m.tag, m.nested)
			}
		}
		g.entries = append(g.entries, e)
	}
	return g
}

type fw struct {
	tag quickfix.Tag
	v   []byte
}

func (f fw) Tag() quickfix.Tag { return f.tag }
func (f fw) Write() []byte     { return f.v }

// ---- the check

type c10msg struct {
	id int
	q  *quickfix.Message
	m  *mMsg
	// parsed: q came out of ParseMessage. String() of such an object is the text it was parsed
	// from; what it holds now is serialised by copying it into a fresh message (or by sending it)
	parsed bool
}

func (cm *c10msg) str() string {
	if !cm.parsed {
		return cm.q.String()
	}
	tmp := quickfix.NewMessage()
	cm.q.CopyInto(tmp)
	return tmp.String()
}

func (cm *c10msg) section(i int) (*quickfix.FieldMap, mSection) {
	switch i {
	case 0:
		return &cm.q.Header.FieldMap, cm.m.h
	case 1:
		return &cm.q.Body.FieldMap, cm.m.b
	}
	return &cm.q.Trailer.FieldMap, cm.m.t
}

func setVia(t *rapid.T, fm *quickfix.FieldMap, tag int, v []byte) string {
	switch rapid.IntRange(0, 4).Draw(t, "setter") {
	case 0:
		fm.SetBytes(quickfix.Tag(tag), v)
		return "SetBytes"
	case 1:
		fm.SetString(quickfix.Tag(tag), string(v))
		return "SetString"
	case 2:
		fm.SetField(quickfix.Tag(tag), quickfix.FIXString(v))
		return "SetField"
	case 3:
		fm.Set(fw{quickfix.Tag(tag), v})
		return "Set"
	default:
		fm.SetField(quickfix.Tag(tag), quickfix.FIXBytes(v))
		return "SetField(bytes)"
	}
}

// verifyBuilt checks the serialisation of cm against its model.
func verifyBuilt(t vk.TB, cm *c10msg, feat map[string]bool) {
	c := c10()
	out := []byte(cm.str())
	again := []byte(cm.str())
	if !bytes.Equal(out, again) {
		vk.Violation(t, c, "C10/build/not-idempotent", "two builds differ:\n%s\n%s", vk.Show(out), vk.Show(again))
	}
	fr, err := fixwire.Analyze(out, nil)
	if err != nil {
		vk.Violation(t, c, "C10/build/unscannable", "%v in %s", err, vk.Show(out))
	}
	fs := fr.Fields
	if len(fs) < 3 || fs[0].Tag != 8 || fs[1].Tag != 9 || fs[2].Tag != 35 {
		vk.Violation(t, c, "C10/build/leading-fields", "first fields are not 8,9,35: %s", vk.Show(out))
	}
	if err := fr.WellFormed(); err != nil {
		vk.Violation(t, c, "C10/build/arithmetic/"+featClass(feat), "%v in %s", err, vk.Show(out))
	}
	// section order and content
	seen := map[string]bool{}
	stage := 0
	i := 0
	for i < len(fs) {
		f := fs[i]
		var sec mSection
		var s int
		var name string
		switch {
		case fixwire.IsHeaderTag(f.Tag):
			sec, s, name = cm.m.h, 0, "header"
		case fixwire.IsTrailerTag(f.Tag):
			sec, s, name = cm.m.t, 2, "trailer"
		default:
			sec, s, name = cm.m.b, 1, "body"
		}
		if s < stage {
			vk.Violation(t, c, "C10/build/section-order", "%s field %d after a later section in %s", name, f.Tag, vk.Show(out))
		}
		stage = s
		key := fmt.Sprintf("%s/%d", name, f.Tag)
		if f.Tag == 9 || f.Tag == 10 {
			if seen[key] {
				vk.Violation(t, c, "C10/build/duplicate-field/"+featClass(feat), "tag %d twice in %s", f.Tag, vk.Show(out))
			}
			seen[key] = true
			i++
			continue
		}
		it, ok := sec[f.Tag]
		if !ok {
			vk.Violation(t, c, "C10/build/removed-or-unset-field-present/"+featClass(feat), "tag %d is not set in the %s but appears in %s", f.Tag, name, vk.Show(out))
		}
		if seen[key] {
			vk.Violation(t, c, "C10/build/duplicate-field/"+featClass(feat), "tag %d appears twice in %s", f.Tag, vk.Show(out))
		}
		seen[key] = true
		if it.grp == nil {
			if !bytes.Equal(it.val, f.Value) {
				vk.Violation(t, c, "C10/build/stale-value/"+featClass(feat), "tag %d has %q, latest set value %q in %s", f.Tag, f.Value, it.val, vk.Show(out))
			}
			i++
			continue
		}
		want := it.grp.flatten()
		if i+len(want) > len(fs) {
			vk.Violation(t, c, "C10/build/group-content/"+featClass(feat), "group %d truncated: want %v in %s", f.Tag, want, vk.Show(out))
		}
		for k, w := range want {
			g := fs[i+k]
			if g.Tag != w.Tag || !bytes.Equal(g.Value, w.Value) {
				vk.Violation(t, c, "C10/build/group-content/"+featClass(feat), "group %d: field %d is %v want %v in %s", f.Tag, k, g, w, vk.Show(out))
			}
		}
		i += len(want)
	}
	for name, sec := range map[string]mSection{"header": cm.m.h, "body": cm.m.b, "trailer": cm.m.t} {
		for tag := range sec {
			if !seen[fmt.Sprintf("%s/%d", name, tag)] {
				vk.Violation(t, c, "C10/build/set-field-missing/"+featClass(feat), "%s tag %d is set but absent from %s", name, tag, vk.Show(out))
			}
		}
	}
	if fs[len(fs)-1].Tag != 10 {
		vk.Violation(t, c, "C10/build/checksum-not-last", "%s", vk.Show(out))
	}
	// parse round trip
	p := quickfix.NewMessage()
	if err := quickfix.ParseMessage(p, bytes.NewBuffer(out)); err != nil {
		vk.Violation(t, c, "C10/parse/error/"+featClass(feat), "ParseMessage: %v for %s", err, vk.Show(out))
	}
	for si, sec := range []mSection{cm.m.h, cm.m.b, cm.m.t} {
		var fm *quickfix.FieldMap
		switch si {
		case 0:
			fm = &p.Header.FieldMap
		case 1:
			fm = &p.Body.FieldMap
		default:
			fm = &p.Trailer.FieldMap
		}
		for tag, it := range sec {
			if it.grp == nil {
				got, err := fm.GetBytes(quickfix.Tag(tag))
				if err != nil || !bytes.Equal(got, it.val) {
					vk.Violation(t, c, "C10/parse/field-differs", "section %d tag %d: got %q err %v want %q in %s", si, tag, got, err, it.val, vk.Show(out))
				}
				continue
			}
			rg := quickfix.NewRepeatingGroup(quickfix.Tag(tag), it.grp.tmpl.qf())
			if err := fm.GetGroup(rg); err != nil {
				vk.Violation(t, c, "C10/parse/group-error", "GetGroup %d: %v in %s", tag, err, vk.Show(out))
			}
			if err := compareGroup(rg, it.grp); err != nil {
				vk.Violation(t, c, "C10/parse/group-differs", "%v in %s", err, vk.Show(out))
			}
		}
	}
}

func featClass(feat map[string]bool) string {
	var l []string
	for _, k := range []string{"remove-then-set", "copy-with-group"} {
		if feat[k] {
			l = append(l, k)
		}
	}
	if len(l) == 0 {
		return "plain"
	}
	return strings.Join(l, "+")
}

func c10Property(t *rapid.T) {
	c := c10()
	msgs := []*c10msg{{q: quickfix.NewMessage(), m: newMMsg()}}
	feat := map[string]bool{}
	removed := map[string]bool{} // "msgIdx/section/tag" removed or cleared at some point
	var trace []string
	nextGroupTag := 5000
	templates := map[int]*mTmpl{}
	scratch := map[string][]byte{} // "msgIdx/section/tag" -> the caller's reusable value buffer
	ensureHead := func(cm *c10msg) {
		if _, ok := cm.m.h[8]; !ok {
			v := []byte(rapid.SampledFrom([]string{"FIX.4.2", "FIX.4.4", "FIXT.1.1", "FIX.4.0"}).Draw(t, "begin"))
			cm.q.Header.SetBytes(8, v)
			cm.m.h[8] = &mItem{val: v}
			if removed[fmt.Sprintf("%d/0/8", cm.id)] {
				feat["remove-then-set"] = true
			}
		}
		if _, ok := cm.m.h[35]; !ok {
			v := []byte(rapid.SampledFrom([]string{"D", "8", "0", "AE", "j"}).Draw(t, "msgtype"))
			cm.q.Header.SetBytes(35, v)
			cm.m.h[35] = &mItem{val: v}
			if removed[fmt.Sprintf("%d/0/35", cm.id)] {
				feat["remove-then-set"] = true
			}
		}
	}
	ensureHead(msgs[0])
	groupFill.order = rapid.IntRange(0, 2).Draw(t, "group-fill-order")
	groupFill.reuse = rapid.Bool().Draw(t, "group-entry-reused")
	defer func() { groupFill.order, groupFill.reuse = 0, false }()
	overwriteGroups := rapid.Bool().Draw(t, "scalars-may-overwrite-groups")
	nOps := rapid.IntRange(1, 40).Draw(t, "nops")
	for op := 0; op < nOps; op++ {
		cm := msgs[rapid.IntRange(0, len(msgs)-1).Draw(t, "msg")]
		kind := rapid.SampledFrom([]string{"set", "set", "set", "set", "setint", "setbool", "remove", "remove", "clear", "group", "group", "copy", "build", "reparse"}).Draw(t, "op")
		si := rapid.SampledFrom([]int{0, 1, 1, 1, 2}).Draw(t, "section")
		fm, sec := cm.section(si)
		pickTag := func() int {
			// prefer tags already present or removed earlier, so overwrite / set-again are common
			var present []int
			for k, it := range sec {
				// (a tag that currently holds a group may be overwritten by a scalar too)
				if k != 8 && k != 35 && (it.grp == nil || overwriteGroups) {
					present = append(present, k)
				}
			}
			sort.Ints(present)
			if len(present) > 0 && rapid.IntRange(0, 2).Draw(t, "reuse") == 0 {
				return rapid.SampledFrom(present).Draw(t, "present-tag")
			}
			switch si {
			case 0:
				return rapid.SampledFrom(c10HeaderPool).Draw(t, "htag")
			case 1:
				return genBodyTag(t, "btag")
			}
			return rapid.SampledFrom(c10TrailerPool).Draw(t, "ttag")
		}
		rkey := func(tag int) string { return fmt.Sprintf("%d/%d/%d", cm.id, si, tag) }
		switch kind {
		case "set":
			tag := pickTag()
			v := genValue(t, "val")
			how := ""
			if rapid.IntRange(0, 3).Draw(t, "value-in-reused-buffer") == 0 {
				// the caller renders values into a scratch buffer it keeps per field and hands the
				// engine a slice of it; the next value for the same field (often of the same length)
				// is written over the previous one before the setter is called again
				if it, ok := sec[tag]; ok && it.grp == nil && len(it.val) > 0 && len(v) > 0 && rapid.Bool().Draw(t, "same-length") {
					w := make([]byte, len(it.val))
					for i := range w {
						w[i] = v[i%len(v)]
					}
					v = w
				}
				buf := scratch[rkey(tag)]
				if cap(buf) < len(v) {
					buf = make([]byte, 0, len(v)+8)
				}
				buf = buf[:len(v)]
				copy(buf, v)
				scratch[rkey(tag)] = buf
				v = append([]byte(nil), v...)
				if rapid.Bool().Draw(t, "as-field") {
					fm.SetField(quickfix.Tag(tag), quickfix.FIXBytes(buf))
					how = "SetField(bytes in reused buffer)"
				} else {
					fm.SetBytes(quickfix.Tag(tag), buf)
					how = "SetBytes(reused buffer)"
				}
				feat["value-from-reused-buffer"] = true
			} else {
				how = setVia(t, fm, tag, v)
			}
			if it, ok := sec[tag]; ok && it.grp == nil {
				feat["overwrite"] = true
			} else if ok {
				feat["group-overwritten-by-scalar"] = true
			}
			if removed[rkey(tag)] {
				feat["remove-then-set"] = true
			}
			sec[tag] = &mItem{val: v}
			trace = append(trace, fmt.Sprintf("m%d.s%d.%s(%d,%q)", cm.id, si, how, tag, v))
		case "setint":
			tag := pickTag()
			n := rapid.OneOf(rapid.IntRange(-5, 1000), rapid.Int()).Draw(t, "int")
			fm.SetInt(quickfix.Tag(tag), n)
			if removed[rkey(tag)] {
				feat["remove-then-set"] = true
			}
			sec[tag] = &mItem{val: []byte(strconv.Itoa(n))}
			trace = append(trace, fmt.Sprintf("m%d.s%d.SetInt(%d,%d)", cm.id, si, tag, n))
		case "setbool":
			tag := pickTag()
			b := rapid.Bool().Draw(t, "bool")
			fm.SetBool(quickfix.Tag(tag), b)
			if removed[rkey(tag)] {
				feat["remove-then-set"] = true
			}
			sec[tag] = &mItem{val: []byte(map[bool]string{true: "Y", false: "N"}[b])}
			trace = append(trace, fmt.Sprintf("m%d.s%d.SetBool(%d,%v)", cm.id, si, tag, b))
		case "remove":
			var present []int
			for k := range sec {
				present = append(present, k)
			}
			sort.Ints(present)
			tag := pickTag()
			if len(present) > 0 && rapid.IntRange(0, 3).Draw(t, "rm-present") != 0 {
				tag = rapid.SampledFrom(present).Draw(t, "rm-tag")
			}
			fm.Remove(quickfix.Tag(tag))
			if _, ok := sec[tag]; ok {
				removed[rkey(tag)] = true
			}
			delete(sec, tag)
			trace = append(trace, fmt.Sprintf("m%d.s%d.Remove(%d)", cm.id, si, tag))
		case "clear":
			fm.Clear()
			for k := range sec {
				delete(sec, k)
			}
			feat["clear"] = true
			trace = append(trace, fmt.Sprintf("m%d.s%d.Clear()", cm.id, si))
		case "group":
			fm, sec = cm.section(1)
			si = 1
			var tag int
			var tm *mTmpl
			var existing []int
			for k := range templates {
				existing = append(existing, k)
			}
			sort.Ints(existing)
			var scalarTags []int
			for k, it := range sec {
				if it.grp == nil && templates[k] == nil {
					scalarTags = append(scalarTags, k)
				}
			}
			sort.Ints(scalarTags)
			if len(existing) > 0 && rapid.Bool().Draw(t, "regroup") {
				tag = rapid.SampledFrom(existing).Draw(t, "gtag")
				tm = templates[tag]
			} else if len(scalarTags) > 0 && rapid.IntRange(0, 3).Draw(t, "group-over-a-scalar") == 0 {
				// a tag that holds a plain value so far becomes a group's count field
				tag = rapid.SampledFrom(scalarTags).Draw(t, "stag")
				tm = genTemplate(t, 1, &nextGroupTag)
				templates[tag] = tm
				feat["group-set-over-a-scalar"] = true
			} else {
				tag = nextGroupTag
				nextGroupTag++
				tm = genTemplate(t, 1, &nextGroupTag)
				templates[tag] = tm
			}
			g := genGroup(t, tag, tm)
			fm.SetGroup(g.qf())
			if removed[rkey(tag)] {
				feat["remove-then-set"] = true
			}
			sec[tag] = &mItem{grp: g}
			feat["group"] = true
			trace = append(trace, fmt.Sprintf("m%d.body.SetGroup(%v)", cm.id, g.flatten()))
		case "reparse":
			// the message goes through the wire and the application goes on working with the parsed
			// object (amending an order it received): later calls act on parsed storage
			hasGroup := false
			for _, secm := range []mSection{cm.m.h, cm.m.b, cm.m.t} {
				for _, it := range secm {
					if it.grp != nil {
						hasGroup = true
					}
				}
			}
			if hasGroup {
				continue // (without a dictionary a parsed group is not a group any more)
			}
			ensureHead(cm)
			raw := []byte(cm.str())
			parsed := quickfix.NewMessage()
			if err := quickfix.ParseMessage(parsed, bytes.NewBuffer(raw)); err != nil {
				vk.Violation(t, c, "C10/parse/error/reparse", "%v on %s after %v", err, vk.Show(raw), trace)
			}
			cm.q, cm.parsed = parsed, true
			feat["continued-on-the-parsed-message"] = true
			trace = append(trace, fmt.Sprintf("m%d=parse(build(m%d))", cm.id, cm.id))
		case "copy":
			ensureHead(cm)
			var dst *c10msg
			if len(msgs) < 3 && (len(msgs) == 1 || rapid.Bool().Draw(t, "new-dst")) {
				dst = &c10msg{id: len(msgs), q: quickfix.NewMessage()}
				if rapid.Bool().Draw(t, "dirty-dst") {
					dst.q.Body.SetString(58, "old")
					dst.q.Header.SetString(50, "old")
					if rapid.Bool().Draw(t, "dirty-trailer") {
						dst.q.Trailer.SetString(93, "3")
					}
					if rapid.Bool().Draw(t, "built-dst") {
						dst.q.Header.SetString(8, "FIX.4.2")
						dst.q.Header.SetString(35, "0")
						_ = dst.q.String()
						feat["copy-into-used-message"] = true
					}
				}
				msgs = append(msgs, dst)
			} else {
				// an existing message object (possibly built before) is the destination
				var others []*c10msg
				for _, o := range msgs {
					if o != cm {
						others = append(others, o)
					}
				}
				if len(others) == 0 {
					continue
				}
				dst = others[rapid.IntRange(0, len(others)-1).Draw(t, "dst")]
				feat["copy-into-used-message"] = true
			}
			dst.m = &mMsg{cm.m.h.clone(), cm.m.b.clone(), cm.m.t.clone()}
			for k := range removed {
				if strings.HasPrefix(k, fmt.Sprintf("%d/", dst.id)) {
					delete(removed, k)
				}
			}
			if dst.parsed {
				feat["copy-into-a-message-that-was-parsed"] = true
			}
			cm.q.CopyInto(dst.q)
			dst.parsed = false // whatever the destination was, it is now a copy of the source's fields
			for _, it := range cm.m.b {
				if it.grp != nil && it.grp.hasContent() {
					feat["copy-with-group"] = true
				}
			}
			feat["copy"] = true
			trace = append(trace, fmt.Sprintf("m%d.CopyInto(m%d)", cm.id, dst.id))
			src, cp := cm.str(), dst.q.String()
			if src != cp {
				vk.Violation(t, c, "C10/copy/serialises-differently/"+featClass(feat), "source %s\ncopy   %s\ntrace %v", vk.Show([]byte(src)), vk.Show([]byte(cp)), trace)
			}
			// the removed-tag bookkeeping is per message object: the copy starts clean
		case "build":
			ensureHead(cm)
			verifyBuilt(t, cm, feat)
		}
	}
	for _, cm := range msgs {
		ensureHead(cm)
		verifyBuilt(t, cm, feat)
	}
	c.Eval()
	for k := range feat {
		c.Class("program-with:" + k)
	}
	if len(feat) > 0 {
		c.NonTrivial(stats.Hash(strings.Join(trace, ";")))
		var ks []string
		for k := range feat {
			ks = append(ks, k)
		}
		sort.Strings(ks)
		c.SampleClass(strings.Join(ks, "+"), map[string]interface{}{"program": sanitizeTrace(trace), "final": vk.Show([]byte(msgs[0].str()))})
	} else {
		c.Class("program-plain")
	}
}

func sanitizeTrace(tr []string) []string {
	out := make([]string, len(tr))
	for i, s := range tr {
		out[i] = strings.ToValidUTF8(strings.ReplaceAll(s, "\x01", "|"), "?")
	}
	return out
}

func TestC10_Rapid(t *testing.T) {
	rapid.Check(t, func(t *rapid.T) {
		vk.Guard(func() { c10Property(t) })
	})
}

// TestReplay_C10_Fixed: plain regression examples of the two repaired defects.
func TestReplay_C10_Fixed(t *testing.T) {
	vk.Guard(func() {
		// remove -> set again must not duplicate the field
		cm := &c10msg{q: quickfix.NewMessage(), m: newMMsg()}
		cm.q.Header.SetString(8, "FIX.4.2")
		cm.q.Header.SetString(35, "D")
		cm.q.Header.SetString(49, "A")
		cm.q.Header.Remove(49)
		cm.q.Header.SetString(49, "B")
		cm.q.Body.SetString(55, "X")
		cm.q.Body.Remove(55)
		cm.q.Body.SetInt(55, 7)
		cm.m.h[8] = &mItem{val: []byte("FIX.4.2")}
		cm.m.h[35] = &mItem{val: []byte("D")}
		cm.m.h[49] = &mItem{val: []byte("B")}
		cm.m.b[55] = &mItem{val: []byte("7")}
		verifyBuilt(t, cm, map[string]bool{"remove-then-set": true})
		// a copy of a message holding a group serialises identically
		tm := &mTmpl{members: []mMember{{tag: 5001}, {tag: 5002}}}
		g := &mGroup{tag: 5000, tmpl: tm, entries: []*mEntry{
			{vals: map[int][]byte{5001: []byte("a"), 5002: []byte("b")}, groups: map[int]*mGroup{}},
			{vals: map[int][]byte{5001: []byte("c")}, groups: map[int]*mGroup{}}}}
		cm.q.Body.SetGroup(g.qf())
		cm.m.b[5000] = &mItem{grp: g}
		dst := quickfix.NewMessage()
		cm.q.CopyInto(dst)
		if dst.String() != cm.str() {
			vk.Violation(t, c10(), "C10/copy/serialises-differently/copy-with-group", "source %s copy %s", vk.Show([]byte(cm.str())), vk.Show([]byte(dst.String())))
		}
		verifyBuilt(t, &c10msg{q: dst, m: cm.m}, map[string]bool{"copy-with-group": true})
		// a scalar set on a tag that holds a group replaces the group, members included
		cm.q.Body.SetString(5000, "0")
		cm.m.b[5000] = &mItem{val: []byte("0")}
		verifyBuilt(t, cm, map[string]bool{"group-overwritten-by-scalar": true})
	})
}

// TestReplay_C10_CopyIntoParsedFixed: regression for the defect repaired by /repo d60d824 (CopyInto into a
// message object that had been parsed before kept serialising as the old text).
func TestReplay_C10_CopyIntoParsedFixed(t *testing.T) {
	vk.Guard(func() {
		old := quickfix.NewMessage()
		old.Header.SetString(8, "FIX.4.4")
		old.Header.SetString(35, "D")
		old.Body.SetString(11, "OLD")
		dst := quickfix.NewMessage()
		if err := quickfix.ParseMessage(dst, bytes.NewBufferString(old.String())); err != nil {
			t.Fatalf("harness: %v", err)
		}
		src := quickfix.NewMessage()
		src.Header.SetString(8, "FIX.4.4")
		src.Header.SetString(35, "8")
		src.Body.SetString(17, "NEW")
		src.CopyInto(dst)
		if dst.String() != src.String() {
			vk.Violation(t, c10(), "C10/copy/serialises-differently/plain", "source %s\ncopy   %s", vk.Show([]byte(src.String())), vk.Show([]byte(dst.String())))
		}
	})
}

// c10ExtraProperty: a group entry is a field map like any other - a field the caller sets on it
// appears in the built message exactly once, also when the group's template does not list its tag
// (templates come from generated code or a dictionary; counterparty-specific tags inside entries
// are everyday FIX). Judged on the bytes alone: every field set, exactly once, members in
// template order with the unlisted field behind them, BodyLength and CheckSum over what is there.
func c10ExtraProperty(t *rapid.T) {
	c := c10()
	next := 5000
	tm := genTemplate(t, 1, &next)
	g := genGroup(t, 5900+rapid.IntRange(0, 9).Draw(t, "group-tag"), tm)
	extras := 0
	var mark func(g *mGroup)
	mark = func(g *mGroup) {
		for _, e := range g.entries {
			if rapid.IntRange(0, 2).Draw(t, "entry-with-unlisted-field") == 0 {
				e.extra = &fixwire.Field{Tag: rapid.SampledFrom([]int{6001, 9999, 20000}).Draw(t, "unlisted-tag"), Value: genValue(t, "xv")}
				extras++
			}
			for _, ng := range e.groups {
				mark(ng)
			}
		}
	}
	mark(g)
	groupFill.order = rapid.IntRange(0, 2).Draw(t, "fill-order")
	defer func() { groupFill.order, groupFill.reuse = 0, false }()
	q := quickfix.NewMessage()
	q.Header.SetString(8, "FIX.4.4")
	q.Header.SetString(35, "D")
	before := rapid.Bool().Draw(t, "scalar-before")
	if before {
		q.Body.SetString(11, "id")
	}
	q.Body.SetGroup(g.qf())
	want := []fixwire.Field{}
	if before {
		want = append(want, fixwire.F(11, "id"))
	}
	want = append(want, g.flatten()...)
	out := []byte(q.String())
	c.Eval()
	c.Class("unlisted-entry-field:program")
	fr, err := fixwire.Analyze(out, nil)
	if err != nil {
		vk.Violation(t, c, "C10/build/unscannable/unlisted-entry-field", "%v: %s", err, vk.Show(out))
	}
	fs := fr.Fields
	var body []fixwire.Field
	for _, f := range fs {
		if fixwire.IsBodyTag(f.Tag) {
			body = append(body, f)
		}
	}
	same := len(body) == len(want)
	for i := 0; same && i < len(want); i++ {
		same = body[i].Tag == want[i].Tag && bytes.Equal(body[i].Value, want[i].Value)
	}
	if !same {
		vk.Violation(t, c, "C10/build/group-content/unlisted-entry-field", "fields set on the group's entries: %v\nbuilt message: %s", want, vk.Show(out))
	}
	if err := fr.WellFormed(); err != nil {
		vk.Violation(t, c, "C10/build/arithmetic/unlisted-entry-field", "%v: %s", err, vk.Show(out))
	}
	if extras > 0 && len(g.entries) > 0 {
		c.Class("program-with:unlisted-entry-field")
		c.NonTrivial(stats.Hash("unlisted", string(out)))
		c.SampleClass("unlisted-entry-field", map[string]interface{}{"built": vk.Show(out), "entries": len(g.entries), "unlisted_fields": extras})
	}
}

func TestC10_UnlistedEntryField(t *testing.T) {
	rapid.Check(t, func(t *rapid.T) {
		vk.Guard(func() { c10ExtraProperty(t) })
	})
}

#!/bin/bash
# tools/seedeval.sh <seed-name> <src-worktree> <check IDs,comma> : confirm a seeded change independently and run checks against it.
# Copies patch/demo/README into /verif/seeded/<seed-name>/ and prints a summary; leaves no worktree behind.
set -u
name=$1; src=$2; ids=$3
export GOFLAGS=-mod=mod GOPROXY=off GOSUMDB=off GOTOOLCHAIN=local
dst=/verif/seeded/$name; mkdir -p $dst
cp $src/seed/patch.diff $dst/patch.diff
cp $src/seed/README.md $dst/README.agent.md 2>/dev/null
demo=$(ls $src/seed/*demo*test*.go* 2>/dev/null | head -1)
[ -n "$demo" ] && cp "$demo" $dst/demo_test.go.txt
wt=/tmp/sv-$name-$$
git -C /repo worktree add -q $wt HEAD || exit 3
cd $wt
if ! git apply $dst/patch.diff; then echo "SEED $name: patch does not apply"; git -C /repo worktree remove --force $wt; exit 3; fi
if ! go build ./... ; then echo "SEED $name: DOES NOT BUILD"; git -C /repo worktree remove --force $wt; exit 3; fi
suite=$(go test -count=1 . ./internal/... ./datadictionary/... ./store/... 2>&1 | grep -E '^(ok|FAIL|---)' | tr '\n' ';')
pkgdir=.
if [ -n "$demo" ]; then
  pk=$(grep -m1 -E '^package [A-Za-z_]+$' $dst/demo_test.go.txt | awk '{print $2}')
  case "$pk" in file|file_test) pkgdir=store/file;; sql|sql_test) pkgdir=store/sql;; datadictionary|datadictionary_test) pkgdir=datadictionary;; internal|internal_test) pkgdir=internal;; quickfix|quickfix_test) pkgdir=.;; *) pkgdir=.;; esac
  cp $dst/demo_test.go.txt $pkgdir/zz_seed_demo_test.go
  with=$(go test -tags verif -count=1 -run 'Seed|seed|ZZ' ./$pkgdir/ 2>&1 | tail -1)
  git apply -R $dst/patch.diff
  without=$(go test -tags verif -count=1 -run 'Seed|seed|ZZ' ./$pkgdir/ 2>&1 | tail -1)
  git apply $dst/patch.diff
  rm -f $pkgdir/zz_seed_demo_test.go
fi
echo "SEED $name: suite with change: $suite"
echo "SEED $name: demo with change: ${with:-n/a} | without: ${without:-n/a}"
cd /verif
results=""
for id in ${ids//,/ }; do
  out=$(VERIF_REPO=$wt ./check $id quick 2>&1); rc=$?
  sig=$(echo "$out" | grep -m2 'signature:' | sed 's/ *signature: //' | tr '\n' ' ')
  echo "SEED $name: check $id -> exit $rc $sig"
  results="$results $id:exit$rc"
  rm -f /verif/replay/$id/new-* 2>/dev/null
done
echo "$results" > $dst/check_results.txt
git -C /repo worktree remove --force $wt; git -C /repo worktree prune

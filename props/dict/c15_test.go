package dict

// C15 - validation accepts conforming messages and names the defect otherwise.
// Conforming messages are built from the independent specification tree (specxml), so a wrong
// flattening in package datadictionary shows up as a rejected conforming message. Exactly one
// mutation is then applied and the expected (reason, reference tag) comes from a table written
// from the FIX session-reject reasons.

import (
	"bytes"
	"fmt"
	"math/rand"
	"os"
	"sort"
	"strconv"
	"strings"
	"sync"
	"testing"

	"github.com/quickfixgo/quickfix"
	"github.com/quickfixgo/quickfix/datadictionary"
	"pgregory.net/rapid"

	"verif/fixwire"
	"verif/specxml"
	"verif/stats"
	"verif/storekit"
	"verif/vk"
)

const c15Rule = "for a (dictionary, message type) a conforming message is generated from the independent spec tree (required members always, optional by coin, groups 1-3 entries in declaration order, values from the type grammar or the declared enumeration), serialised in specification order, parsed with the dictionaries as the session does, validated under one of the 32 validator settings; then exactly one mutation of a listed kind is applied; settings route: a session built from a settings file naming any subset of the five validation switches (Y/N/left out) receives a conforming order or one with a defect a switch governs, and must deliver or reject it exactly as the validator built directly from the same values; non-trivial = message with >=1 group or any mutated case (settings route: a defect probe under at least one written switch); distinct = distinct (message bytes, settings)"

func c15() *stats.Collector {
	c := stats.Get("C15")
	c.SetRule(c15Rule)
	return c
}

type dictPair struct {
	name string
	spec *specxml.Spec
	dd   *datadictionary.DataDictionary
}

var (
	dictOnce sync.Once
	dictMap  map[string]*dictPair
	dictErr  error
)

var dictNames = []string{"FIX40", "FIX41", "FIX42", "FIX43", "FIX44", "FIX50", "FIX50SP1", "FIX50SP2", "FIXT11"}

func dicts(t vk.TB) map[string]*dictPair {
	dictOnce.Do(func() {
		dictMap = map[string]*dictPair{}
		for _, n := range dictNames {
			p := storekit.RepoDir() + "/spec/" + n + ".xml"
			sp, err := specxml.ParseFile(p)
			if err != nil {
				dictErr = err
				return
			}
			dd, err := datadictionary.Parse(p)
			if err != nil {
				dictErr = err
				return
			}
			dictMap[n] = &dictPair{n, sp, dd}
		}
	})
	if dictErr != nil {
		t.Fatalf("cannot load dictionaries: %v", dictErr)
	}
	return dictMap
}

type annot struct {
	f       fixwire.Field
	def     *specxml.Member
	group   *specxml.Item // innermost group containing the field (nil = top level)
	entry   int
	first   bool // first member of its entry
	isCount bool
	top     int // index of the top-level item this field belongs to
}

func annotate(items []*specxml.Item) []annot {
	var out []annot
	var walk func(items []*specxml.Item, g *specxml.Item, entry int, top int)
	walk = func(items []*specxml.Item, g *specxml.Item, entry int, top int) {
		for i, it := range items {
			tp := top
			if g == nil {
				tp = i
			}
			out = append(out, annot{f: fixwire.F(it.Tag, it.Value), def: it.Def, group: g, entry: entry, first: g != nil && i == 0, isCount: it.IsGroup, top: tp})
			if it.IsGroup {
				for e, ent := range it.Entries {
					walk(ent, it, e, tp)
				}
			}
		}
	}
	walk(items, nil, 0, 0)
	return out
}

type settingsMask int

func (m settingsMask) settings() quickfix.ValidatorSettings {
	return quickfix.ValidatorSettings{
		CheckFieldsOutOfOrder:     m&1 == 0,
		RejectInvalidMessage:      m&2 == 0,
		AllowUnknownMessageFields: m&4 != 0,
		CheckUserDefinedFields:    m&8 == 0,
		CheckFieldsHaveValues:     m&16 == 0,
	}
}

func (m settingsMask) String() string {
	s := m.settings()
	return fmt.Sprintf("outOfOrder=%v rejectInvalid=%v allowUnknown=%v checkUser=%v haveValues=%v", s.CheckFieldsOutOfOrder, s.RejectInvalidMessage, s.AllowUnknownMessageFields, s.CheckUserDefinedFields, s.CheckFieldsHaveValues)
}

type c15env struct {
	t         vk.TB
	dict      string
	dp        *dictPair
	transport *dictPair // FIXT11 for FIX50x, nil otherwise
	md        *specxml.MsgDecl
	begin     string
}

func (e *c15env) validate(raw []byte, m settingsMask) (rej quickfix.MessageRejectError, perr error, pan interface{}) {
	var tdd, add *datadictionary.DataDictionary
	add = e.dp.dd
	if e.transport != nil {
		tdd = e.transport.dd
	}
	msg := quickfix.NewMessage()
	pan = catchPanic(func() {
		perr = quickfix.ParseMessageWithDataDictionary(msg, bytes.NewBuffer(raw), tdd, add)
		if perr != nil {
			return
		}
		v := quickfix.NewValidator(m.settings(), add, tdd)
		rej = v.Validate(msg)
	})
	return
}

var mutationKinds = []string{"unknown-msgtype", "missing-required-top", "missing-required-member", "undefined-known", "undefined-unknown", "undefined-user",
	"ill-typed", "enum", "empty", "count+1", "count-1", "swap-members", "header-in-body", "body-in-header", "trailer-in-header", "duplicate", "duplicate-tolerated-unknown", "duplicate-tolerated-user", "header-enum", "foreign-field-ill-valued"}

type expectation struct {
	reasons  []int
	tags     []int
	anyTagOK bool
	relaxed  bool
}

func relaxedBy(kind string, s quickfix.ValidatorSettings, tag int) bool {
	switch kind {
	case "unknown-msgtype", "missing-required-top":
		return false
	case "empty":
		return !s.CheckFieldsHaveValues
	case "header-in-body", "body-in-header", "trailer-in-header":
		return !s.CheckFieldsOutOfOrder
	case "undefined-known", "undefined-unknown":
		return !s.RejectInvalidMessage || s.AllowUnknownMessageFields
	case "undefined-user":
		return !s.RejectInvalidMessage || !s.CheckUserDefinedFields
	case "swap-members":
		// with unknown fields allowed, the members left over after an out-of-order one read as
		// unknown top-level fields and are let through
		return !s.RejectInvalidMessage || s.AllowUnknownMessageFields
	}
	return !s.RejectInvalidMessage
}

func isMultiType(t string) bool { return strings.HasPrefix(t, "MULTIPLE") }

func typedKind(t string) bool {
	switch t {
	case "INT", "LENGTH", "SEQNUM", "NUMINGROUP", "DAYOFMONTH", "PRICE", "QTY", "AMT", "FLOAT", "PERCENTAGE", "PRICEOFFSET", "QUANTITY", "BOOLEAN", "UTCTIMESTAMP", "TIME":
		return true
	}
	return false
}

// run generates one conforming message and (optionally) one mutation; returns a short class.
func (e *c15env) run(ch specxml.Chooser, kind string, mask settingsMask, replay string) {
	c := c15()
	t := e.t
	members, err := e.dp.spec.Expand(e.md.Members, true)
	if err != nil {
		t.Fatalf("harness: %v", err)
	}
	items := e.dp.spec.GenMembers(ch, members, specxml.GenOpts{OptionalOneIn: 2 + ch.Intn(5), MaxEntries: 3, MaxDepth: 3}, 0, false)
	present := map[int]bool{}
	hasGroup := false
	for _, it := range items {
		present[it.Tag] = true
		if it.IsGroup {
			hasGroup = true
		}
	}
	if missingRequired(items, members) {
		// the specification itself is positionally ambiguous here (a required tag is also defined
		// inside a group of the same level, so the generator left the scalar out): not a conforming message
		c.Class("skipped:ambiguous-spec(required tag also inside a group)")
		return
	}
	head := []fixwire.Field{fixwire.F(35, e.md.MsgType), fixwire.F(49, "SND"), fixwire.F(56, "TGT"), fixwire.F(34, strconv.Itoa(1+ch.Intn(5000))), fixwire.F(52, "20240102-03:04:05")}
	if ch.Intn(3) == 0 {
		head = append(head, fixwire.F(50, "SUB"))
	}
	// optional scalar header fields of the header definition that applies (the transport
	// dictionary's for FIXT), with conforming values drawn from that definition
	hdrSpec := e.dp.spec
	if e.transport != nil {
		hdrSpec = e.transport.spec
	}
	type hdrField struct {
		at  int
		def *specxml.Member
	}
	var addedHeader []hdrField
	if hm, herr := hdrSpec.Expand(hdrSpec.Header, true); herr == nil && ch.Intn(2) == 0 {
		std := map[int]bool{8: true, 9: true, 35: true, 49: true, 56: true, 34: true, 52: true, 50: true, 43: true, 97: true, 122: true}
		for _, m := range hm {
			if m.IsGroup || std[m.Tag] || m.Type == "DATA" || m.Type == "LENGTH" || m.Type == "XMLDATA" || m.Type == "NUMINGROUP" {
				continue
			}
			if len(m.Enums) > 0 && ch.Intn(2) == 0 || ch.Intn(8) == 0 {
				head = append(head, fixwire.F(m.Tag, specxml.ValueFor(m, ch)))
				addedHeader = append(addedHeader, hdrField{len(head) - 1, m})
				c.Class("header-field-from-header-definition")
			}
		}
	}
	ann := annotate(items)
	build := func(head []fixwire.Field, body []fixwire.Field) []byte {
		rest := append(append([]fixwire.Field{}, head...), body...)
		return fixwire.Build(e.begin, rest)
	}
	body := make([]fixwire.Field, len(ann))
	for i, a := range ann {
		body[i] = a.f
	}
	fail := func(sig, format string, args ...interface{}) {
		if !vk.IsKnownOpen("C15", sig) && replay != "" {
			saveReplay("TestReplay_C15_Case", sig, replay)
		}
		vk.Violation(t, c, sig, format, args...)
	}
	// ---- conforming message: accepted under every settings combination
	raw := build(head, body)
	c.Eval()
	c.Class("conforming:" + e.dict)
	if hasGroup {
		c.Class("conforming:with-group")
		c.NonTrivial(stats.Hash(raw, int(mask)))
	}
	rej, perr, pan := e.validate(raw, mask)
	where := fmt.Sprintf("%s %s(%s) settings[%s]", e.dict, e.md.Name, e.md.MsgType, mask)
	if pan != nil {
		fail("C15/conforming/panic", "%s: %v on %s", where, pan, vk.Show(raw))
	}
	if perr != nil {
		fail("C15/conforming/parse-error", "%s: %v on %s", where, perr, vk.Show(raw))
	}
	if rej != nil {
		fail(fmt.Sprintf("C15/conforming-rejected/reason%d/%s", rej.RejectReason(), rejTagClass(rej, e)), "%s: conforming message rejected: %v (reason %d reftag %v): %s", where, rej, rej.RejectReason(), refTag(rej), vk.Show(raw))
	}
	c.SampleClass("conforming/"+e.dict, map[string]interface{}{"msgtype": e.md.MsgType, "settings": mask.String(), "message": clipS(vk.Show(raw))})
	if kind == "" {
		return
	}
	// ---- exactly one mutation
	s := mask.settings()
	var exp expectation
	mHead := append([]fixwire.Field{}, head...)
	mBody := append([]fixwire.Field{}, body...)
	pick := func(cands []int) int { return cands[ch.Intn(len(cands))] }
	var topScalars, allIdx []int
	for i, a := range ann {
		allIdx = append(allIdx, i)
		if a.group == nil && !a.isCount {
			topScalars = append(topScalars, i)
		}
	}
	// top-level insertion points: before top-level item k (index into body) or at the end
	var topStarts []int
	for i, a := range ann {
		if a.group == nil {
			topStarts = append(topStarts, i)
		}
	}
	topStarts = append(topStarts, len(ann))
	insertAt := func(pos int, f fixwire.Field) {
		mBody = append(mBody[:pos], append([]fixwire.Field{f}, mBody[pos:]...)...)
	}
	removeAt := func(pos int) { mBody = append(mBody[:pos], mBody[pos+1:]...) }
	allTags := map[int]bool{}
	var collect func(ms []*specxml.Member)
	collect = func(ms []*specxml.Member) {
		for _, m := range ms {
			allTags[m.Tag] = true
			collect(m.Members)
		}
	}
	collect(members)
	refTagRelax := 0
	switch kind {
	case "unknown-msgtype":
		mHead[0] = fixwire.F(35, "zz9")
		exp = expectation{reasons: []int{11}, tags: []int{35}, anyTagOK: true}
	case "missing-required-top":
		var cands []int
		for _, i := range topScalars {
			if ann[i].def.Required {
				cands = append(cands, i)
			}
		}
		hdrReq := []int{49, 56, 34, 52}
		k := ch.Intn(len(cands) + len(hdrReq))
		if k < len(cands) {
			i := cands[k]
			exp = expectation{reasons: []int{1}, tags: []int{ann[i].f.Tag}}
			removeAt(i)
		} else {
			tag := hdrReq[k-len(cands)]
			for j, f := range mHead {
				if f.Tag == tag {
					mHead = append(mHead[:j], mHead[j+1:]...)
					break
				}
			}
			exp = expectation{reasons: []int{1}, tags: []int{tag}}
		}
	case "missing-required-member":
		var cands []int
		for i, a := range ann {
			if a.group != nil && !a.first && a.def.Required && !a.isCount {
				cands = append(cands, i)
			}
		}
		if len(cands) == 0 {
			c.Class("mutation-not-applicable:" + kind)
			return
		}
		i := pick(cands)
		exp = expectation{reasons: []int{1}, tags: []int{ann[i].f.Tag}}
		if ann[i].entry < len(ann[i].group.Entries)-1 {
			c.Class("missing-required-member:in-non-last-entry")
			refTagRelax = 1
		}
		removeAt(i)
	case "undefined-known", "undefined-unknown", "undefined-user", "duplicate-tolerated-unknown", "duplicate-tolerated-user":
		var tag int
		var val string
		base := kind
		switch kind {
		case "duplicate-tolerated-unknown":
			// the settings tolerate the undefined field itself; its repetition is the single defect
			base = "undefined-unknown"
			mask |= 4
		case "duplicate-tolerated-user":
			base = "undefined-user"
			mask |= 8
		}
		s = mask.settings()
		where = fmt.Sprintf("%s %s(%s) settings[%s]", e.dict, e.md.Name, e.md.MsgType, mask)
		switch base {
		case "undefined-known":
			var cands []*specxml.FieldDecl
			for _, name := range e.dp.spec.FieldOrder {
				fd := e.dp.spec.Fields[name]
				if !allTags[fd.Number] && fixwire.IsBodyTag(fd.Number) && fd.Type != "NUMINGROUP" && fd.Type != "DATA" && fd.Type != "LENGTH" && fd.Type != "XMLDATA" && !e.inHeaderTrailer(fd.Number) {
					cands = append(cands, fd)
				}
			}
			if len(cands) == 0 {
				c.Class("mutation-not-applicable:" + kind)
				return
			}
			fd := cands[ch.Intn(len(cands))]
			tag = fd.Number
			val = specxml.ValueFor(&specxml.Member{Tag: fd.Number, Type: fd.Type, Enums: fd.Enums}, ch)
		case "undefined-unknown":
			for tag = 4000 + ch.Intn(999); e.dp.spec.ByNumber[tag] != nil || (e.transport != nil && e.transport.spec.ByNumber[tag] != nil); tag = 4000 + ch.Intn(999) {
			}
			val = "x"
		default:
			for tag = 5000 + ch.Intn(4000); e.dp.spec.ByNumber[tag] != nil || (e.transport != nil && e.transport.spec.ByNumber[tag] != nil); tag = 5000 + ch.Intn(4000) {
			}
			val = "x"
		}
		// insert at a top-level position that does not directly follow a group (it would end the
		// group, which is fine, but keep the defect a pure top-level one) unless there is no other
		var pos []int
		for k, st := range topStarts {
			if k > 0 && ann[topStarts[k-1]].isCount {
				continue
			}
			pos = append(pos, st)
		}
		if len(pos) == 0 {
			pos = []int{topStarts[len(topStarts)-1]}
		}
		at := pick(pos)
		insertAt(at, fixwire.F(tag, val))
		switch {
		case base != kind:
			// second occurrence: adjacent, or at the end of the body
			if ch.Intn(2) == 0 || len(ann) == 0 || ann[len(ann)-1].group != nil {
				insertAt(at+1, fixwire.F(tag, "y"))
				c.Class("duplicate-tolerated:adjacent")
			} else {
				insertAt(len(mBody), fixwire.F(tag, "y"))
				c.Class("duplicate-tolerated:apart")
			}
			exp = expectation{reasons: []int{13}, tags: []int{tag}}
		case kind == "undefined-known":
			exp = expectation{reasons: []int{2}, tags: []int{tag}}
		default:
			exp = expectation{reasons: []int{0}, tags: []int{tag}}
		}
	case "foreign-field-ill-valued":
		// a field the dictionary knows (so it has a type or an enumeration) but that does not belong to
		// this message, under settings that tolerate such a field: its value is still checked
		mask |= 4
		s = mask.settings()
		where = fmt.Sprintf("%s %s(%s) settings[%s]", e.dict, e.md.Name, e.md.MsgType, mask)
		var cands []*specxml.FieldDecl
		for _, name := range e.dp.spec.FieldOrder {
			fd := e.dp.spec.Fields[name]
			if !allTags[fd.Number] && fixwire.IsBodyTag(fd.Number) && !e.inHeaderTrailer(fd.Number) && ((typedKind(fd.Type) && fd.Type != "NUMINGROUP" && fd.Type != "LENGTH" && len(fd.Enums) == 0) || (len(fd.Enums) > 0 && !isMultiType(fd.Type))) {
				cands = append(cands, fd)
			}
		}
		if len(cands) == 0 {
			c.Class("mutation-not-applicable:" + kind)
			return
		}
		fd := cands[ch.Intn(len(cands))]
		val, reason := "x!", 6
		switch {
		case len(fd.Enums) > 0:
			val, reason = "~", 5
		case fd.Type == "BOOLEAN":
			val = "YES"
		case fd.Type == "UTCTIMESTAMP" || fd.Type == "TIME":
			val = "20240101 00:00:00"
		}
		var pos []int
		for k, st := range topStarts {
			if k > 0 && ann[topStarts[k-1]].isCount {
				continue
			}
			pos = append(pos, st)
		}
		if len(pos) == 0 {
			pos = []int{topStarts[len(topStarts)-1]}
		}
		insertAt(pick(pos), fixwire.F(fd.Number, val))
		exp = expectation{reasons: []int{reason}, tags: []int{fd.Number}}
	case "ill-typed":
		var cands []int
		for i, a := range ann {
			if typedKind(a.def.Type) && len(a.def.Enums) == 0 {
				cands = append(cands, i)
			}
		}
		if len(cands) == 0 {
			c.Class("mutation-not-applicable:" + kind)
			return
		}
		i := pick(cands)
		var bad []string
		switch ann[i].def.Type {
		case "BOOLEAN":
			bad = []string{"y", "YES", "1", "true"}
		case "UTCTIMESTAMP", "TIME":
			bad = []string{"2024", "20240101", "20240101-25:00:00", "x", "20240101 00:00:00"}
		default:
			bad = []string{"x!", "1x", "+1", "1e5", "1 ", "--1"}
		}
		mBody[i].Value = []byte(bad[ch.Intn(len(bad))])
		exp = expectation{reasons: []int{6}, tags: []int{ann[i].f.Tag}}
	case "enum":
		var cands []int
		for i, a := range ann {
			if len(a.def.Enums) > 0 && !isMultiType(a.def.Type) {
				cands = append(cands, i)
			}
		}
		if len(cands) == 0 {
			c.Class("mutation-not-applicable:" + kind)
			return
		}
		i := pick(cands)
		mBody[i].Value = []byte("~~")
		exp = expectation{reasons: []int{5}, tags: []int{ann[i].f.Tag}}
		if typedKind(ann[i].def.Type) {
			exp.reasons = append(exp.reasons, 6) // "~~" is also ill-typed for a typed field: both identify it
		}
	case "header-enum":
		var cands []hdrField
		for _, h := range addedHeader {
			if len(h.def.Enums) > 0 && !isMultiType(h.def.Type) {
				cands = append(cands, h)
			}
		}
		if len(cands) == 0 {
			c.Class("mutation-not-applicable:" + kind)
			return
		}
		h := cands[ch.Intn(len(cands))]
		mHead[h.at].Value = []byte("~~")
		exp = expectation{reasons: []int{5}, tags: []int{h.def.Tag}}
		if typedKind(h.def.Type) {
			exp.reasons = append(exp.reasons, 6)
		}
	case "empty":
		if len(allIdx) == 0 || ch.Intn(4) == 0 {
			j := 1 + ch.Intn(len(mHead)-1)
			exp = expectation{reasons: []int{4}, tags: []int{mHead[j].Tag}}
			mHead[j].Value = nil
		} else {
			i := pick(allIdx)
			exp = expectation{reasons: []int{4}, tags: []int{ann[i].f.Tag}}
			mBody[i].Value = nil
		}
	case "count+1", "count-1":
		var cands []int
		for i, a := range ann {
			if a.isCount {
				cands = append(cands, i)
			}
		}
		if len(cands) == 0 {
			c.Class("mutation-not-applicable:" + kind)
			return
		}
		i := pick(cands)
		n, _ := strconv.Atoi(string(ann[i].f.Value))
		if kind == "count+1" {
			n++
		} else {
			n--
		}
		mBody[i].Value = []byte(strconv.Itoa(n))
		exp = expectation{reasons: []int{16}, tags: []int{ann[i].f.Tag}}
		if len(ann[i].def.Enums) > 0 {
			exp.reasons = append(exp.reasons, 5) // an enumerated count: 'value is incorrect' names the same field
		}
	case "swap-members":
		var cands []int
		for i := 0; i+1 < len(ann); i++ {
			a, b := ann[i], ann[i+1]
			if a.group != nil && a.group == b.group && a.entry == b.entry && !a.first && !a.isCount && !b.isCount && a.top == b.top {
				cands = append(cands, i)
			}
		}
		if len(cands) == 0 {
			c.Class("mutation-not-applicable:" + kind)
			return
		}
		i := pick(cands)
		mBody[i], mBody[i+1] = mBody[i+1], mBody[i]
		// the defect is located when the reference tag lies in the (top-level) group that holds the swapped members
		set := map[int]bool{}
		topGroup := ann[topStarts[0]]
		for _, st := range topStarts[:len(topStarts)-1] {
			if ann[st].top == ann[i].top {
				topGroup = ann[st]
			}
		}
		specxml.DefTags(topGroup.def, set)
		tags := []int{topGroup.f.Tag}
		for tg := range set {
			tags = append(tags, tg)
		}
		sort.Ints(tags)
		exp = expectation{reasons: []int{15, 16, 1, 2, 13, 14}, tags: tags}
	case "header-in-body":
		if len(topScalars) == 0 {
			c.Class("mutation-not-applicable:" + kind)
			return
		}
		moved := mHead[len(mHead)-1]
		mHead = mHead[:len(mHead)-1]
		// after a top-level scalar that is not followed by group content
		var pos []int
		for _, i := range topScalars {
			pos = append(pos, i+1)
		}
		insertAt(pick(pos), moved)
		exp = expectation{reasons: []int{14}, tags: []int{moved.Tag}}
	case "body-in-header":
		if len(topScalars) == 0 {
			c.Class("mutation-not-applicable:" + kind)
			return
		}
		i := pick(topScalars)
		moved := mBody[i]
		removeAt(i)
		at := 1 + ch.Intn(len(mHead)-1) // after 35, before at least one header field
		next := mHead[at].Tag
		mHead = append(mHead[:at], append([]fixwire.Field{moved}, mHead[at:]...)...)
		exp = expectation{reasons: []int{14}, tags: []int{moved.Tag, next}}
	case "trailer-in-header":
		// a signature field among the header fields, with header fields still to come: the header run
		// ends there, so the next header field is out of order
		moved := fixwire.F(93, "3")
		if ch.Intn(2) == 0 {
			moved = fixwire.F(89, "abc")
		}
		at := 1 + ch.Intn(len(mHead)-1)
		next := mHead[at].Tag
		mHead = append(mHead[:at], append([]fixwire.Field{moved}, mHead[at:]...)...)
		exp = expectation{reasons: []int{14}, tags: []int{moved.Tag, next}}
	case "duplicate":
		if len(topScalars) == 0 {
			c.Class("mutation-not-applicable:" + kind)
			return
		}
		i := pick(topScalars)
		// not right after a group that also defines the tag
		insertAt(len(mBody), mBody[i])
		if last := ann[len(ann)-1]; last.group != nil {
			set := map[int]bool{}
			for g := range ann {
				if ann[g].isCount && ann[g].group == nil && ann[g].top == last.top {
					specxml.DefTags(ann[g].def, set)
				}
			}
			if set[ann[i].f.Tag] {
				c.Class("mutation-not-applicable:" + kind)
				return
			}
		}
		exp = expectation{reasons: []int{13}, tags: []int{ann[i].f.Tag}}
	}
	exp.relaxed = relaxedBy(kind, s, 0)
	bad := build(mHead, mBody)
	c.Eval()
	c.Class("mutation:" + kind)
	if exp.relaxed {
		c.Class("mutation-relaxed-by-settings:" + kind)
	}
	c.NonTrivial(stats.Hash(bad, int(mask)))
	rej, perr, pan = e.validate(bad, mask)
	desc := fmt.Sprintf("%s mutation %s expecting reasons %v tags %v (relaxed=%v): %s", where, kind, exp.reasons, exp.tags, exp.relaxed, vk.Show(bad))
	if pan != nil {
		fail("C15/mutated/panic/"+kind, "%v; %s", pan, desc)
	}
	if perr != nil {
		// a parse error is also a rejection of the message, before validation; counted, not judged here
		c.Class("mutation-rejected-at-parse:" + kind)
		return
	}
	c.SampleClass("mutation:"+kind, map[string]interface{}{"dict": e.dict, "msgtype": e.md.MsgType, "settings": mask.String(), "result": fmt.Sprint(rej), "message": clipS(vk.Show(bad))})
	if rej == nil {
		if exp.relaxed {
			return
		}
		sig := "C15/defect-accepted/" + kind
		if refTagRelax == 1 {
			sig += "/non-last-entry"
		}
		fail(sig, "accepted; %s", desc)
		return
	}
	okReason := false
	for _, r := range exp.reasons {
		if rej.RejectReason() == r {
			okReason = true
		}
	}
	okTag := exp.anyTagOK && rej.RefTagID() == nil
	if rt := rej.RefTagID(); rt != nil {
		for _, tg := range exp.tags {
			if int(*rt) == tg {
				okTag = true
			}
		}
	}
	if !okReason || !okTag {
		fail(fmt.Sprintf("C15/wrong-identification/%s/got-reason%d", kind, rej.RejectReason()), "rejected with reason %d reftag %v (%v); %s", rej.RejectReason(), refTag(rej), rej, desc)
	}
}

// missingRequired: does any level of the generated tree lack a required member?
func missingRequired(items []*specxml.Item, members []*specxml.Member) bool {
	present := map[int]*specxml.Item{}
	for _, it := range items {
		present[it.Tag] = it
	}
	for _, m := range members {
		it, ok := present[m.Tag]
		if m.Required && !ok {
			return true
		}
		if ok && it.IsGroup {
			for _, e := range it.Entries {
				if missingRequired(e, m.Members) {
					return true
				}
			}
		}
	}
	return false
}

func (e *c15env) inHeaderTrailer(tag int) bool {
	dp := e.dp
	if e.transport != nil {
		dp = e.transport
	}
	if dp.dd.Header != nil {
		if _, ok := dp.dd.Header.Tags[tag]; ok {
			return true
		}
	}
	if dp.dd.Trailer != nil {
		if _, ok := dp.dd.Trailer.Tags[tag]; ok {
			return true
		}
	}
	return false
}

func refTag(r quickfix.MessageRejectError) string {
	if r.RefTagID() == nil {
		return "none"
	}
	return strconv.Itoa(int(*r.RefTagID()))
}

func rejTagClass(r quickfix.MessageRejectError, e *c15env) string {
	if r.RefTagID() == nil {
		return "tag-none"
	}
	if int(*r.RefTagID()) == 35 {
		return "tag35/" + e.dict
	}
	return "tag-other/" + e.dict
}

func clipS(s string) string {
	if len(s) > 400 {
		return s[:300] + "..." + s[len(s)-80:]
	}
	return s
}

func saveReplay(test, sig, content string) {
	dir := os.Getenv("VERIF_REPLAY_OUT")
	if dir == "" {
		return
	}
	slug := strings.Map(func(r rune) rune {
		if r >= 'a' && r <= 'z' || r >= 'A' && r <= 'Z' || r >= '0' && r <= '9' || r == '-' || r == '_' {
			return r
		}
		return '_'
	}, sig)
	_ = os.WriteFile(dir+"/"+test+"--"+slug+".txt", []byte(content), 0o644)
}

func newEnv(t vk.TB, dict string, msgIdx int) *c15env {
	d := dicts(t)
	e := &c15env{t: t, dict: dict, dp: d[dict]}
	e.md = e.dp.spec.Messages[msgIdx%len(e.dp.spec.Messages)]
	e.begin = e.dp.spec.BeginString()
	if strings.HasPrefix(dict, "FIX50") {
		e.transport = d["FIXT11"]
		e.begin = "FIXT.1.1"
	}
	if dict == "FIXT11" {
		e.transport = d["FIXT11"]
	}
	return e
}

type rapidChooser struct{ t *rapid.T }

func (r rapidChooser) Intn(n int) int {
	if n <= 1 {
		return 0
	}
	return rapid.IntRange(0, n-1).Draw(r.t, "c")
}

type randChooser struct{ r *rand.Rand }

func (c randChooser) Intn(n int) int {
	if n <= 1 {
		return 0
	}
	return c.r.Intn(n)
}

func TestC15_Rapid(t *testing.T) {
	rapid.Check(t, func(t *rapid.T) {
		dict := rapid.SampledFrom(dictNames).Draw(t, "dict")
		e := newEnv(t, dict, rapid.IntRange(0, 200).Draw(t, "msg"))
		kind := rapid.SampledFrom(append([]string{"", ""}, mutationKinds...)).Draw(t, "mutation")
		mask := settingsMask(rapid.OneOf(rapid.Just(0), rapid.IntRange(0, 31)).Draw(t, "settings"))
		vk.Guard(func() { e.run(rapidChooser{t}, kind, mask, "") })
	})
}

// TestC15_Enumerate: every message type of every dictionary x population variants x every mutation kind.
func TestC15_Enumerate(t *testing.T) {
	c := c15()
	d := dicts(t)
	shard, shards := vk.Shard()
	variants := vk.Scale(1, 8)
	idx := 0
	triples := 0
	for _, dn := range dictNames {
		for mi := range d[dn].spec.Messages {
			for ki := -1; ki < len(mutationKinds); ki++ {
				idx++
				if idx%shards != shard {
					continue
				}
				if !vk.Thorough() && (idx/shards+int(vk.Seed()))%4 != 0 {
					continue // quick tier: a seed-dependent quarter of the triples
				}
				triples++
				kind := ""
				if ki >= 0 {
					kind = mutationKinds[ki]
				}
				for v := 0; v < variants; v++ {
					seed := vk.Seed()*7919 + int64(idx)*131 + int64(v)
					mask := settingsMask(0)
					if v%2 == 1 {
						mask = settingsMask((int(seed) / 7) % 32)
					}
					e := newEnv(t, dn, mi)
					replay := fmt.Sprintf("%s\n%d\n%s\n%d\n%d\n", dn, mi, kind, mask, seed)
					vk.Guard(func() { e.run(randChooser{rand.New(rand.NewSource(seed))}, kind, mask, replay) })
				}
			}
		}
	}
	c.SetExtra("enumerated_triples_this_shard", triples)
	c.SetExhaustive(fmt.Sprintf("(dictionary, message type, mutation kind) triples: %d, %d population variants each", idx, variants), vk.Thorough())
}

func TestReplay_C15_Case(t *testing.T) {
	p := os.Getenv("VERIF_REPLAY")
	if p == "" {
		t.Skip("no VERIF_REPLAY")
	}
	b, err := os.ReadFile(p)
	if err != nil {
		t.Fatal(err)
	}
	l := strings.Split(string(b), "\n")
	if len(l) < 5 {
		t.Fatal("bad replay file")
	}
	mi, _ := strconv.Atoi(l[1])
	mask, _ := strconv.Atoi(l[3])
	seed, _ := strconv.ParseInt(l[4], 10, 64)
	e := newEnv(t, l[0], mi)
	vk.Guard(func() { e.run(randChooser{rand.New(rand.NewSource(seed))}, l[2], settingsMask(mask), "") })
}

var _ = sort.Ints

// TestReplay_C15_Fixed: plain regression examples of repaired defects.
func TestReplay_C15_Fixed(t *testing.T) {
	d := dicts(t)
	c := c15()
	vk.Guard(func() {
		// FIX40 Allocation: second NoAllocs entry lacks the required AllocShares(80)
		raw := fixwire.Build("FIX.4.0", []fixwire.Field{fixwire.F(35, "J"), fixwire.F(49, "S"), fixwire.F(56, "T"), fixwire.F(34, "1"), fixwire.F(52, "20240102-03:04:05"),
			fixwire.F(70, "1"), fixwire.F(71, "0"), fixwire.F(73, "1"), fixwire.F(11, "c"), fixwire.F(54, "1"), fixwire.F(55, "IBM"), fixwire.F(53, "10"), fixwire.F(6, "1.5"), fixwire.F(75, "20240102"),
			fixwire.F(78, "2"), fixwire.F(79, "acc1"), fixwire.F(79, "acc2"), fixwire.F(80, "5")})
		m := quickfix.NewMessage()
		if err := quickfix.ParseMessageWithDataDictionary(m, bytes.NewBuffer(raw), nil, d["FIX40"].dd); err != nil {
			t.Fatalf("parse: %v", err)
		}
		rej := quickfix.NewValidator(settingsMask(0).settings(), d["FIX40"].dd, nil).Validate(m)
		if rej == nil {
			vk.Violation(t, c, "C15/defect-accepted/missing-required-member/non-last-entry", "accepted: %s", vk.Show(raw))
		} else if rej.RejectReason() != 1 || rej.RefTagID() == nil || int(*rej.RefTagID()) != 80 {
			vk.Violation(t, c, "C15/wrong-identification/missing-required-member/got-reason"+strconv.Itoa(rej.RejectReason()), "%v for %s", rej, vk.Show(raw))
		}
		// FIX50SP2 UserNotification(CB) over FIXT11 is conforming
		raw = fixwire.Build("FIXT.1.1", []fixwire.Field{fixwire.F(35, "CB"), fixwire.F(49, "S"), fixwire.F(56, "T"), fixwire.F(34, "1"), fixwire.F(52, "20240102-03:04:05"), fixwire.F(926, "1")})
		m = quickfix.NewMessage()
		if err := quickfix.ParseMessageWithDataDictionary(m, bytes.NewBuffer(raw), d["FIXT11"].dd, d["FIX50SP2"].dd); err != nil {
			t.Fatalf("parse: %v", err)
		}
		if rej := quickfix.NewValidator(settingsMask(0).settings(), d["FIX50SP2"].dd, d["FIXT11"].dd).Validate(m); rej != nil {
			vk.Violation(t, c, "C15/conforming-rejected/reason5/tag35/FIX50SP2", "%v for %s", rej, vk.Show(raw))
		}
	})
}

package dict

// C19 - loaded dictionaries say what the specification file says.
// Differential oracle: the independent XML walk of package specxml.

import (
	"bytes"
	"fmt"
	"os"
	"sort"
	"strings"
	"testing"

	"github.com/quickfixgo/quickfix/datadictionary"
	"pgregory.net/rapid"

	"verif/specxml"
	"verif/stats"
	"verif/storekit"
	"verif/vk"
)

const c19Rule = "(a) all nine shipped specification files in full, every message + header + trailer compared; (b) rapid-generated specifications: 3-25 fields with types and enums, components nested up to 4 deep (optional/required at every level, components inside groups and groups inside components), optionally one dangling field or component reference (in a message, a component, a group, the header or the trailer), optional members written with required=N or without the attribute; non-trivial = a definition containing a component nested in a component or a group; distinct = distinct (file, message) for (a), distinct generated XML for (b)"

func c19() *stats.Collector {
	c := stats.Get("C19")
	c.SetRule(c19Rule)
	return c
}

type diff struct{ sig, detail string }

func tagsOf(ms []*specxml.Member, deep bool, into map[int]bool) {
	for _, m := range ms {
		into[m.Tag] = true
		if deep && m.IsGroup {
			tagsOf(m.Members, true, into)
		}
	}
}

func sortedKeys(m map[int]bool) []int {
	var l []int
	for k := range m {
		l = append(l, k)
	}
	sort.Ints(l)
	return l
}

func setDiff(a, b map[int]bool) (onlyA, onlyB []int) {
	for k := range a {
		if !b[k] {
			onlyA = append(onlyA, k)
		}
	}
	for k := range b {
		if !a[k] {
			onlyB = append(onlyB, k)
		}
	}
	sort.Ints(onlyA)
	sort.Ints(onlyB)
	return
}

// compareGroupDef checks one group's member list (order, nested groups, required members).
func compareGroupDef(where string, want *specxml.Member, got *datadictionary.FieldDef, out *[]diff) {
	if len(got.Fields) != len(want.Members) {
		*out = append(*out, diff{"group-members-count", fmt.Sprintf("%s group %d: %d members loaded, %d declared", where, want.Tag, len(got.Fields), len(want.Members))})
		return
	}
	wantReq := map[int]bool{}
	for i, wm := range want.Members {
		gm := got.Fields[i]
		if gm.Tag() != wm.Tag {
			*out = append(*out, diff{"group-member-order", fmt.Sprintf("%s group %d: member %d is %d, declared %d", where, want.Tag, i, gm.Tag(), wm.Tag)})
			return
		}
		if wm.Required {
			wantReq[wm.Tag] = true
		}
		if wm.IsGroup != gm.IsGroup() && !(wm.IsGroup && len(wm.Members) == 0) {
			*out = append(*out, diff{"group-nesting", fmt.Sprintf("%s group %d member %d: IsGroup %v declared %v", where, want.Tag, wm.Tag, gm.IsGroup(), wm.IsGroup)})
			continue
		}
		if wm.IsGroup {
			compareGroupDef(where, wm, gm, out)
		}
	}
	gotReq := map[int]bool{}
	for _, f := range got.RequiredFields() {
		gotReq[f.Tag()] = true
	}
	if a, b := setDiff(wantReq, gotReq); len(a)+len(b) > 0 {
		*out = append(*out, diff{"group-required-members", fmt.Sprintf("%s group %d: required members declared-only %v loaded-only %v", where, want.Tag, a, b)})
	}
}

func compareMessageDef(where string, members []*specxml.Member, md *datadictionary.MessageDef, out *[]diff) {
	top, all, req := map[int]bool{}, map[int]bool{}, map[int]bool{}
	tagsOf(members, false, top)
	tagsOf(members, true, all)
	for _, m := range members {
		if m.Required {
			req[m.Tag] = true
		}
	}
	gotTop, gotAll, gotReq := map[int]bool{}, map[int]bool{}, map[int]bool{}
	for k := range md.Fields {
		gotTop[k] = true
	}
	for k := range md.Tags {
		gotAll[k] = true
	}
	for k := range md.RequiredTags {
		gotReq[k] = true
	}
	if a, b := setDiff(top, gotTop); len(a)+len(b) > 0 {
		*out = append(*out, diff{"fields", fmt.Sprintf("%s: top-level fields declared-only %v loaded-only %v", where, a, b)})
	}
	if a, b := setDiff(all, gotAll); len(a)+len(b) > 0 {
		*out = append(*out, diff{"tags", fmt.Sprintf("%s: reachable tags declared-only %v loaded-only %v", where, a, b)})
	}
	if a, b := setDiff(req, gotReq); len(a)+len(b) > 0 {
		kind := "required-missing"
		if len(b) > 0 {
			kind = "required-extra"
		}
		*out = append(*out, diff{kind, fmt.Sprintf("%s: required tags declared-only %v loaded-only %v", where, a, b)})
	}
	for _, m := range members {
		if !m.IsGroup {
			continue
		}
		fd, ok := md.Fields[m.Tag]
		if !ok {
			continue
		}
		compareGroupDef(where, m, fd, out)
	}
}

func compareDict(sp *specxml.Spec, dd *datadictionary.DataDictionary) (diffs []diff, nontrivialDefs []string) {
	// field types and enumerations
	for _, name := range sp.FieldOrder {
		fd := sp.Fields[name]
		ft, ok := dd.FieldTypeByTag[fd.Number]
		if !ok {
			diffs = append(diffs, diff{"field-missing", fmt.Sprintf("field %d %s not loaded", fd.Number, name)})
			continue
		}
		if sp.ByNumber[fd.Number] != fd {
			continue // a later declaration reuses the number; only the last one is compared
		}
		if ft.Type != fd.Type || ft.Name() != fd.Name {
			diffs = append(diffs, diff{"field-type", fmt.Sprintf("field %d: loaded %s %s, declared %s %s", fd.Number, ft.Name(), ft.Type, fd.Name, fd.Type)})
		}
		want := map[string]bool{}
		for _, e := range fd.Enums {
			want[e] = true
		}
		for e := range ft.Enums {
			if !want[e] {
				diffs = append(diffs, diff{"enum-extra", fmt.Sprintf("field %d: enum %q loaded but not declared", fd.Number, e)})
			}
			delete(want, e)
		}
		for e := range want {
			diffs = append(diffs, diff{"enum-missing", fmt.Sprintf("field %d: enum %q declared but not loaded", fd.Number, e)})
		}
	}
	if len(dd.FieldTypeByTag) != len(sp.ByNumber) {
		diffs = append(diffs, diff{"field-count", fmt.Sprintf("%d fields loaded, %d declared", len(dd.FieldTypeByTag), len(sp.ByNumber))})
	}
	type def struct {
		where string
		nodes []*specxml.Node
		md    *datadictionary.MessageDef
	}
	var defs []def
	lastByType := map[string]*specxml.MsgDecl{}
	for _, m := range sp.Messages {
		lastByType[m.MsgType] = m
	}
	for _, m := range sp.Messages {
		if lastByType[m.MsgType] != m {
			continue
		}
		md, ok := dd.Messages[m.MsgType]
		if !ok {
			diffs = append(diffs, diff{"message-missing", fmt.Sprintf("message %s (%s) not loaded", m.Name, m.MsgType)})
			continue
		}
		defs = append(defs, def{"message " + m.Name + "(" + m.MsgType + ")", m.Members, md})
	}
	if len(dd.Messages) != len(lastByType) {
		diffs = append(diffs, diff{"message-count", fmt.Sprintf("%d messages loaded, %d declared", len(dd.Messages), len(lastByType))})
	}
	if sp.Header != nil && dd.Header != nil {
		defs = append(defs, def{"header", sp.Header, dd.Header})
	}
	if sp.Trailer != nil && dd.Trailer != nil {
		defs = append(defs, def{"trailer", sp.Trailer, dd.Trailer})
	}
	for _, d := range defs {
		ms, err := sp.Expand(d.nodes, true)
		if err != nil {
			diffs = append(diffs, diff{"oracle-expand", err.Error()})
			continue
		}
		compareMessageDef(d.where, ms, d.md, &diffs)
		if sp.HasNestedComponent(d.nodes, 0, map[string]bool{}) {
			nontrivialDefs = append(nontrivialDefs, d.where)
		}
	}
	return
}

func TestC19_Shipped(t *testing.T) {
	c := c19()
	shard, _ := vk.Shard()
	if shard != 0 {
		return
	}
	total := 0
	for _, n := range []string{"FIX40", "FIX41", "FIX42", "FIX43", "FIX44", "FIX50", "FIX50SP1", "FIX50SP2", "FIXT11"} {
		path := storekit.RepoDir() + "/spec/" + n + ".xml"
		sp, err := specxml.ParseFile(path)
		if err != nil {
			t.Fatalf("harness: %v", err)
		}
		dd, err := datadictionary.Parse(path)
		if err != nil {
			vk.Guard(func() { vk.Violation(t, c, "C19/shipped/load-error/"+n, "%v", err) })
			continue
		}
		diffs, nt := compareDict(sp, dd)
		c.EvalN(int64(len(sp.Messages) + 2))
		total += len(sp.Messages) + 2
		c.Class("shipped:" + n)
		for _, w := range nt {
			c.NonTrivial(stats.Hash(n, w))
		}
		c.SampleClass("shipped", map[string]interface{}{"file": n, "messages": len(sp.Messages), "components": len(sp.Components), "fields": len(sp.Fields), "definitions_with_nested_components": len(nt)})
		for _, d := range diffs {
			d := d
			vk.Guard(func() { vk.Violation(t, c, "C19/shipped/"+d.sig+"/"+n, "%s: %s", n, d.detail) })
		}
	}
	c.SetExhaustive(fmt.Sprintf("every message, header and trailer of the nine shipped specification files (%d definitions)", total), true)
}

// ---------------------------------------------------------------- generated specifications

type genSpec struct {
	fields     []*specxml.FieldDecl
	comps      []string
	compBody   map[string][]*specxml.Node
	messages   []*specxml.MsgDecl
	header     []*specxml.Node
	trailer    []*specxml.Node
	dangling   string // "", "field", "component"
	danglingIn string // "header" / "trailer" when the dangling reference sits there
	nestedComp bool
	// memberRepeated: some message declares a group member again as a top-level field after the group
	memberRepeated bool
	// bareOptional k > 0: every k-th optional member is written without a required attribute at all
	// (the attribute says 'Y' for required members; a member that does not carry it is not required)
	bareOptional int
}

var genTypes = []string{"STRING", "INT", "CHAR", "PRICE", "QTY", "BOOLEAN", "UTCTIMESTAMP", "NUMINGROUP", "LENGTH", "DATA", "MULTIPLEVALUESTRING", "CURRENCY"}

func (g *genSpec) genNodes(t *rapid.T, depth int, compIdx int, inGroup bool, used map[string]bool) []*specxml.Node {
	n := rapid.IntRange(1, 5).Draw(t, "nmembers")
	var out []*specxml.Node
	for i := 0; i < n; i++ {
		req := rapid.Bool().Draw(t, "req")
		switch k := rapid.IntRange(0, 9).Draw(t, "kind"); {
		case k <= 4 || depth >= 4:
			f := g.fields[rapid.IntRange(0, len(g.fields)-1).Draw(t, "f")]
			if used[f.Name] {
				continue
			}
			used[f.Name] = true
			out = append(out, &specxml.Node{Kind: "field", Name: f.Name, Required: req})
		case k <= 6:
			f := g.fields[rapid.IntRange(0, len(g.fields)-1).Draw(t, "gf")]
			if used[f.Name] {
				continue
			}
			used[f.Name] = true
			out = append(out, &specxml.Node{Kind: "group", Name: f.Name, Required: req, Children: g.genNodes(t, depth+1, compIdx, true, used)})
		default:
			// components may only refer to components with a higher index (no cycles)
			if compIdx+1 >= len(g.comps) {
				continue
			}
			j := rapid.IntRange(compIdx+1, len(g.comps)-1).Draw(t, "comp")
			if used["c:"+g.comps[j]] {
				continue
			}
			used["c:"+g.comps[j]] = true
			if depth > 0 || inGroup {
				g.nestedComp = true
			}
			out = append(out, &specxml.Node{Kind: "component", Name: g.comps[j], Required: req})
		}
	}
	if len(out) == 0 {
		// keep every definition non-empty
		for _, f := range g.fields {
			if !used[f.Name] {
				used[f.Name] = true
				out = append(out, &specxml.Node{Kind: "field", Name: f.Name, Required: true})
				break
			}
		}
	}
	return out
}

// usedBy collects every field name reachable from a component (so siblings do not repeat tags).
func (g *genSpec) reach(nodes []*specxml.Node, into map[string]bool) {
	for _, n := range nodes {
		switch n.Kind {
		case "field":
			into[n.Name] = true
		case "group":
			into[n.Name] = true
			g.reach(n.Children, into)
		case "component":
			into["c:"+n.Name] = true
			g.reach(g.compBody[n.Name], into)
		}
	}
}

func genSpecification(t *rapid.T) *genSpec {
	g := &genSpec{compBody: map[string][]*specxml.Node{}}
	nf := rapid.IntRange(6, 25).Draw(t, "nfields")
	for i := 0; i < nf; i++ {
		fd := &specxml.FieldDecl{Number: 1000 + i, Name: fmt.Sprintf("F%d", i), Type: rapid.SampledFrom(genTypes).Draw(t, "type")}
		if rapid.IntRange(0, 3).Draw(t, "enum") == 0 {
			ne := rapid.IntRange(1, 4).Draw(t, "nenum")
			for e := 0; e < ne; e++ {
				fd.Enums = append(fd.Enums, string(rune('A'+e)))
			}
		}
		g.fields = append(g.fields, fd)
	}
	nc := rapid.IntRange(0, 5).Draw(t, "ncomps")
	for i := 0; i < nc; i++ {
		g.comps = append(g.comps, fmt.Sprintf("Comp%d", i))
	}
	// build components from the last (leaf) to the first so that reachability is known
	for i := nc - 1; i >= 0; i-- {
		used := map[string]bool{}
		body := g.genNodes(t, 0, i, false, used)
		// drop members that would repeat a tag reachable through a referenced component
		g.compBody[g.comps[i]] = g.dedupe(body)
	}
	nm := rapid.IntRange(1, 4).Draw(t, "nmsgs")
	for i := 0; i < nm; i++ {
		used := map[string]bool{}
		m := &specxml.MsgDecl{Name: fmt.Sprintf("Msg%d", i), MsgType: fmt.Sprintf("U%d", i), MsgCat: "app"}
		m.Members = g.dedupe(g.genNodes(t, 0, -1, false, used))
		if rapid.IntRange(0, 3).Draw(t, "member-repeated-at-top-level") == 0 {
			// a field that is a member of one of the message's groups is also a field of the message
			// itself, declared after the group (a per-entry Text and a Text for the whole message)
			top := map[string]bool{}
			for _, x := range m.Members {
				top[x.Name] = true
			}
		search:
			for _, x := range m.Members {
				if x.Kind != "group" {
					continue
				}
				for _, ch := range x.Children {
					if ch.Kind == "field" && !top[ch.Name] {
						m.Members = append(m.Members, &specxml.Node{Kind: "field", Name: ch.Name, Required: rapid.Bool().Draw(t, "rreq")})
						g.memberRepeated = true
						break search
					}
				}
			}
		}
		g.messages = append(g.messages, m)
	}
	g.header = g.dedupe(g.genNodes(t, 0, -1, false, map[string]bool{}))
	g.trailer = []*specxml.Node{{Kind: "field", Name: g.fields[0].Name, Required: true}}
	g.bareOptional = rapid.SampledFrom([]int{0, 0, 1, 2, 3}).Draw(t, "optional-members-without-the-attribute")
	switch rapid.IntRange(0, 7).Draw(t, "dangling") {
	case 0:
		g.dangling = "field"
	case 1:
		g.dangling = "component"
	}
	if g.dangling != "" {
		kind := g.dangling
		n := &specxml.Node{Kind: kind, Name: "Nowhere", Required: rapid.Bool().Draw(t, "dreq")}
		// place the dangling reference in a message, in a component used by a message, or inside a group
		target := rapid.IntRange(0, 4).Draw(t, "dplace")
		m := g.messages[rapid.IntRange(0, len(g.messages)-1).Draw(t, "dmsg")]
		switch {
		case target == 3:
			// in the header (everything else in the file, trailer included, is sound)
			g.header = append(g.header, n)
			g.danglingIn = "header"
		case target == 4:
			g.trailer = append(g.trailer, n)
			g.danglingIn = "trailer"
		case target == 1 && len(g.comps) > 0:
			cn := g.comps[rapid.IntRange(0, len(g.comps)-1).Draw(t, "dcomp")]
			g.compBody[cn] = append(g.compBody[cn], n)
		case target == 2:
			placed := false
			for _, x := range m.Members {
				if x.Kind == "group" {
					x.Children = append(x.Children, n)
					placed = true
					break
				}
			}
			if !placed {
				m.Members = append(m.Members, n)
			}
		default:
			m.Members = append(m.Members, n)
		}
	}
	return g
}

// dedupe removes members whose tags (directly or through components/groups) were already seen
// in the same definition: a FIX definition never lists a tag twice.
func (g *genSpec) dedupe(nodes []*specxml.Node) []*specxml.Node {
	seen := map[string]bool{}
	var rec func(nodes []*specxml.Node) []*specxml.Node
	rec = func(nodes []*specxml.Node) []*specxml.Node {
		var out []*specxml.Node
		for _, n := range nodes {
			switch n.Kind {
			case "field":
				if seen[n.Name] {
					continue
				}
				seen[n.Name] = true
				out = append(out, n)
			case "group":
				if seen[n.Name] {
					continue
				}
				seen[n.Name] = true
				n.Children = rec(n.Children)
				if len(n.Children) == 0 {
					continue
				}
				out = append(out, n)
			case "component":
				r := map[string]bool{}
				g.reach(g.compBody[n.Name], r)
				clash := false
				for k := range r {
					if seen[k] {
						clash = true
					}
				}
				if clash || seen["c:"+n.Name] {
					continue
				}
				for k := range r {
					seen[k] = true
				}
				seen["c:"+n.Name] = true
				out = append(out, n)
			}
		}
		return out
	}
	return rec(nodes)
}

func (g *genSpec) xml() []byte {
	var b bytes.Buffer
	yn := func(v bool) string {
		if v {
			return "Y"
		}
		return "N"
	}
	optionals := 0
	reqAttr := func(n *specxml.Node) string {
		if !n.Required && g.bareOptional > 0 {
			optionals++
			if optionals%g.bareOptional == 0 {
				return ""
			}
		}
		return " required='" + yn(n.Required) + "'"
	}
	var members func(nodes []*specxml.Node, indent string)
	members = func(nodes []*specxml.Node, indent string) {
		for _, n := range nodes {
			switch n.Kind {
			case "group":
				fmt.Fprintf(&b, "%s<group name='%s'%s>\n", indent, n.Name, reqAttr(n))
				members(n.Children, indent+" ")
				fmt.Fprintf(&b, "%s</group>\n", indent)
			default:
				fmt.Fprintf(&b, "%s<%s name='%s'%s />\n", indent, n.Kind, n.Name, reqAttr(n))
			}
		}
	}
	b.WriteString("<fix major='4' type='FIX' servicepack='0' minor='9'>\n <header>\n")
	members(g.header, "  ")
	b.WriteString(" </header>\n <messages>\n")
	for _, m := range g.messages {
		fmt.Fprintf(&b, "  <message name='%s' msgcat='app' msgtype='%s'>\n", m.Name, m.MsgType)
		members(m.Members, "   ")
		b.WriteString("  </message>\n")
	}
	b.WriteString(" </messages>\n <trailer>\n")
	members(g.trailer, "  ")
	b.WriteString(" </trailer>\n <components>\n")
	for _, cn := range g.comps {
		fmt.Fprintf(&b, "  <component name='%s'>\n", cn)
		members(g.compBody[cn], "   ")
		b.WriteString("  </component>\n")
	}
	b.WriteString(" </components>\n <fields>\n")
	for _, f := range g.fields {
		if len(f.Enums) == 0 {
			fmt.Fprintf(&b, "  <field number='%d' name='%s' type='%s' />\n", f.Number, f.Name, f.Type)
			continue
		}
		fmt.Fprintf(&b, "  <field number='%d' name='%s' type='%s'>\n", f.Number, f.Name, f.Type)
		for _, e := range f.Enums {
			fmt.Fprintf(&b, "   <value enum='%s' description='D_%s' />\n", e, e)
		}
		b.WriteString("  </field>\n")
	}
	b.WriteString(" </fields>\n</fix>\n")
	return b.Bytes()
}

// danglingReachable: is the dangling reference reachable from a message/header/trailer, or only
// sitting in an unused component? (The statement refuses the file either way.)
func c19Property(t *rapid.T) {
	c := c19()
	g := genSpecification(t)
	text := g.xml()
	c.Eval()
	sp, err := specxml.Parse(bytes.NewReader(text))
	if err != nil {
		t.Fatalf("harness: own XML reader failed: %v\n%s", err, text)
	}
	var dd *datadictionary.DataDictionary
	var derr error
	if pan := catchPanic(func() { dd, derr = datadictionary.ParseSrc(bytes.NewReader(text)) }); pan != nil {
		vk.Violation(t, c, "C19/generated/panic", "%v on\n%s", pan, text)
	}
	if g.dangling != "" {
		c.Class("generated:dangling-" + g.dangling)
		if g.danglingIn != "" {
			c.Class("generated:dangling-in-" + g.danglingIn)
		}
		c.NonTrivial(stats.Hash(text))
		if derr == nil {
			vk.Violation(t, c, "C19/generated/dangling-"+g.dangling+"-accepted", "a reference to an undefined %s was accepted:\n%s", g.dangling, text)
		}
		return
	}
	c.Class("generated:wellformed")
	if g.bareOptional > 0 {
		c.Class("generated:optional-members-without-a-required-attribute")
	}
	if g.memberRepeated {
		c.Class("generated:group-member-also-a-top-level-field")
	}
	if derr != nil {
		vk.Violation(t, c, "C19/generated/load-error", "%v on\n%s", derr, text)
	}
	diffs, nt := compareDict(sp, dd)
	if len(nt) > 0 {
		c.Class("generated:with-nested-component")
		c.NonTrivial(stats.Hash(text))
		c.SampleClass("generated", map[string]interface{}{"fields": len(g.fields), "components": len(g.comps), "messages": len(g.messages), "definitions_with_nested_components": nt, "xml_bytes": len(text)})
	}
	for _, d := range diffs {
		vk.Violation(t, c, "C19/generated/"+d.sig, "%s\n%s", d.detail, text)
	}
}

func catchPanic(f func()) (p interface{}) {
	defer func() { p = recover() }()
	f()
	return nil
}

func TestC19_Rapid(t *testing.T) {
	rapid.Check(t, func(t *rapid.T) {
		vk.Guard(func() { c19Property(t) })
	})
}

var _ = os.Getenv
var _ = strings.Join

// TestReplay_C19_Fixed: plain regression example (required component > optional component > required field).
func TestReplay_C19_Fixed(t *testing.T) {
	text := []byte(`<fix major='4' type='FIX' servicepack='0' minor='9'>
 <header><field name='F1' required='N' /></header>
 <messages><message name='Msg0' msgcat='app' msgtype='U0'><component name='Comp0' required='Y' /></message></messages>
 <trailer><field name='F1' required='Y' /></trailer>
 <components>
  <component name='Comp0'><component name='Comp2' required='N' /><field name='F2' required='Y' /></component>
  <component name='Comp2'><field name='F0' required='Y' /></component>
 </components>
 <fields><field number='1000' name='F0' type='STRING' /><field number='1001' name='F1' type='STRING' /><field number='1002' name='F2' type='STRING' /></fields>
</fix>`)
	sp, err := specxml.Parse(bytes.NewReader(text))
	if err != nil {
		t.Fatal(err)
	}
	dd, err := datadictionary.ParseSrc(bytes.NewReader(text))
	if err != nil {
		t.Fatal(err)
	}
	diffs, _ := compareDict(sp, dd)
	for _, d := range diffs {
		d := d
		vk.Guard(func() { vk.Violation(t, c19(), "C19/generated/"+d.sig, "%s", d.detail) })
	}
}

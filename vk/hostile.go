package vk

import (
	"fmt"
	"math/big"
	"strings"

	"pgregory.net/rapid"
)

// boundaries at which integer parsing, int/int32/uint conversions and offset arithmetic change
// behaviour; HostileNumber draws values at and around them.
var numberBoundaries = []string{"0", "255", "65535", "2147483647", "4294967295", "9223372036854775807", "18446744073709551615", "-2147483648", "-9223372036854775808"}

// HostileNumber draws a numeric-looking field value: a fixed malformed/extreme literal from
// base, or a boundary value plus/minus a small generated distance (so that "boundary minus the
// length of what precedes it" is reached, which is where offset additions wrap).
func HostileNumber(t *rapid.T, label string, base []string) string {
	if rapid.IntRange(0, 2).Draw(t, label+"-boundary") != 0 {
		return rapid.SampledFrom(base).Draw(t, label)
	}
	b, _ := new(big.Int).SetString(rapid.SampledFrom(numberBoundaries).Draw(t, label+"-at"), 10)
	d := int64(rapid.IntRange(-80, 80).Draw(t, label+"-distance"))
	return b.Add(b, big.NewInt(d)).String()
}

// PanicClass turns a recovered panic value into a short signature fragment (digits dropped).
func PanicClass(p interface{}) string {
	s := strings.Split(fmt.Sprint(p), "\n")[0]
	out := strings.Map(func(r rune) rune {
		switch {
		case r >= '0' && r <= '9':
			return -1
		case r == ' ' || r == ':' || r == '[' || r == ']':
			return '-'
		}
		return r
	}, s)
	if len(out) > 60 {
		out = out[:60]
	}
	return out
}

// HostileTimestamp draws a value around the UTCTimestamp shapes (seconds, milli, micro, nano
// precision): the exact shape, or the shape with a generated number of characters appended,
// removed or replaced.
func HostileTimestamp(t *rapid.T, label string) string {
	base := rapid.SampledFrom([]string{"20160208-22:07:16", "20160208-22:07:16.954", "20160208-22:07:16.954123", "20160208-22:07:16.954123123"}).Draw(t, label+"-shape")
	switch rapid.SampledFrom([]string{"exact", "append", "append", "cut", "replace"}).Draw(t, label+"-edit") {
	case "append":
		return base + rapid.StringMatching(`[0-9Z.:\-]{1,6}`).Draw(t, label+"-tail")
	case "cut":
		return base[:rapid.IntRange(0, len(base)-1).Draw(t, label+"-len")]
	case "replace":
		i := rapid.IntRange(0, len(base)-1).Draw(t, label+"-at")
		return base[:i] + rapid.SampledFrom([]string{"0", "9", "-", ":", ".", "x", " "}).Draw(t, label+"-char") + base[i+1:]
	}
	return base
}

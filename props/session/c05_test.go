package session

// C05 - two engines deliver every application message exactly once across disconnects.
// Deterministic simulation: an initiator and an acceptor session built by the real factory run
// in one process; the harness is the network (two FIFO queues of frames) and both run loops.

import (
	"fmt"
	"os"
	"strconv"
	"strings"
	"testing"

	"github.com/quickfixgo/quickfix"
	"pgregory.net/rapid"

	"verif/fixwire"
	"verif/rig"
	"verif/stats"
	"verif/storekit"
	"verif/vk"
)

const c05Rule = "two real sessions (initiator + acceptor, mirrored SessionIDs, memory or file stores) wired through two FIFO frame queues owned by the harness; actions: send on either side (also while disconnected), deliver next frame in either direction, send-queue flush, heartbeat tick on either side, cut (a generated prefix of each queue is delivered, the rest dropped, both sides notified in a generated order), reconnect, restart of an engine on its file store; then stabilisation rounds (deliver everything, tick both heartbeats); oracle = each side's FromApp list equals the other side's accepted-send list; non-trivial = an application frame lost in flight or sent while disconnected, or a restart, and a delivery in each direction; distinct = distinct action history"

func c05() *stats.Collector {
	c := stats.Get("C05")
	c.SetRule(c05Rule)
	return c
}

type duoSide struct {
	name     string
	cfg      rig.Config
	r        *rig.Rig
	dir      string
	accepted []string // ClOrdIDs whose send returned nil, in submission order
	received []string // ClOrdIDs seen by FromApp, in order
	seen     int      // trace entries already scanned
	q        [][]byte // frames written by this side, in flight to the other
	n        int
}

type duo struct {
	t     vk.TB
	c     *stats.Collector
	a, b  *duoSide
	log   []string
	feat  map[string]bool
	begin string
}

func (d *duo) logf(format string, a ...interface{}) { d.log = append(d.log, fmt.Sprintf(format, a...)) }

func (d *duo) history() string {
	l := d.log
	if len(l) > 80 {
		l = l[len(l)-80:]
	}
	return fmt.Sprintf("BeginString %s, stores %s/%s\nhistory:\n  %s\n-- A trace tail:\n%s-- B trace tail:\n%s", d.begin, storeKind(d.a), storeKind(d.b), strings.Join(l, "\n  "), d.a.r.TraceString(25), d.b.r.TraceString(25))
}

func storeKind(s *duoSide) string {
	if s.dir != "" {
		return "file"
	}
	return "memory"
}

func (d *duo) other(s *duoSide) *duoSide {
	if s == d.a {
		return d.b
	}
	return d.a
}

// absorb records what a step on side s produced.
func (d *duo) absorb(s *duoSide, st rig.StepResult, what string) {
	if st.Panic != nil {
		vk.Violation(d.t, d.c, "C05/engine-panic", "side %s panicked during %s: %v\n%s", s.name, what, st.Panic, d.history())
	}
	for _, f := range st.Frames {
		s.q = append(s.q, f)
		d.logf("%s writes %s", s.name, vk.Show(f))
	}
	tr := s.r.Trace
	for ; s.seen < len(tr); s.seen++ {
		if e := tr[s.seen]; e.Kind == "FromApp" {
			id := fixwire.GetS(e.Fields, 11)
			s.received = append(s.received, id)
			d.logf("%s FromApp %s (seq %d)", s.name, id, e.Seq)
		}
	}
}

func (d *duo) flush(s *duoSide) {
	st, took := s.r.Flush()
	if took {
		d.absorb(s, st, "flush")
	}
}

func (d *duo) newRig(s *duoSide) {
	r, err := rig.New(s.cfg)
	if err != nil {
		d.t.Fatalf("harness: %v", err)
	}
	s.r = r
	s.seen = 0
}

func (d *duo) connectBoth() {
	if d.a.r.V.IsConnected() || d.b.r.V.IsConnected() {
		return
	}
	stB, okB := d.b.r.Connect()
	d.absorb(d.b, stB, "connect")
	stA, okA := d.a.r.Connect()
	d.absorb(d.a, stA, "connect")
	d.logf("connect: acceptor %v initiator %v", okB, okA)
}

func (d *duo) deliver(from *duoSide) bool {
	if len(from.q) == 0 {
		return false
	}
	f := from.q[0]
	from.q = from.q[1:]
	to := d.other(from)
	if !to.r.V.IsConnected() {
		return true // nobody is listening: the frame is gone
	}
	st := to.r.In(f)
	d.absorb(to, st, "inbound frame")
	d.flush(to)
	return true
}

func (d *duo) cut(prefixA, prefixB int, aFirst bool) {
	for i := 0; i < prefixA && len(d.a.q) > 0; i++ {
		d.deliver(d.a)
	}
	for i := 0; i < prefixB && len(d.b.q) > 0; i++ {
		d.deliver(d.b)
	}
	lost := 0
	for _, s := range []*duoSide{d.a, d.b} {
		for _, f := range s.q {
			fs, _ := fixwire.Scan(f, nil)
			if !fixwire.IsAdminMsgType(fixwire.GetS(fs, 35)) {
				lost++
			}
		}
		s.q = nil
	}
	if lost > 0 {
		d.feat["application-frame-lost-in-flight"] = true
	}
	order := []*duoSide{d.a, d.b}
	if !aFirst {
		order = []*duoSide{d.b, d.a}
	}
	for _, s := range order {
		st := s.r.Disconnect()
		d.absorb(s, st, "disconnect")
		s.q = nil // written to a dead connection
	}
	d.logf("cut (%d application frames lost)", lost)
}

func (d *duo) send(s *duoSide) {
	s.n++
	id := s.name + strconv.Itoa(s.n)
	m := quickfix.NewMessage()
	m.Header.SetString(35, "D")
	m.Body.SetString(11, id)
	m.Body.SetString(55, "IBM")
	if !s.r.V.IsLoggedOn() {
		d.feat["sent-while-not-logged-on"] = true
	}
	st, err := s.r.Send(m)
	d.logf("%s sends %s -> %v (state %s)", s.name, id, err, s.r.V.StateName())
	if err == nil {
		s.accepted = append(s.accepted, id)
	}
	d.absorb(s, st, "send")
}

func (d *duo) settle(rounds int) {
	for r := 0; r < rounds; r++ {
		d.connectBoth()
		for i := 0; i < 20000 && (len(d.a.q) > 0 || len(d.b.q) > 0); i++ {
			if !d.deliver(d.a) {
				d.deliver(d.b)
			} else {
				d.deliver(d.b)
			}
		}
		for _, s := range []*duoSide{d.a, d.b} {
			d.flush(s)
			st := s.r.Timeout(1)
			d.absorb(s, st, "heartbeat tick")
		}
	}
	for i := 0; i < 20000 && (len(d.a.q) > 0 || len(d.b.q) > 0); i++ {
		d.deliver(d.a)
		d.deliver(d.b)
	}
}

func c05Property(t *rapid.T) {
	c := c05()
	d := &duo{t: t, c: c, feat: map[string]bool{}}
	d.begin = rapid.SampledFrom(allBegins).Draw(t, "begin")
	mk := func(name string, initiator bool, file bool, id quickfix.SessionID) *duoSide {
		s := &duoSide{name: name}
		s.cfg = rig.Config{ID: id, Initiator: initiator, HeartBt: 30}
		if file {
			s.dir = vk.Scratch("c05-" + name + "-")
			s.cfg.Factory = storekit.FileFactory(s.dir, false, id)
		}
		s.cfg.Settings = map[string]string{}
		if rapid.IntRange(0, 3).Draw(t, name+"-chunk") == 0 {
			s.cfg.Settings["ResendRequestChunkSize"] = strconv.Itoa(rapid.IntRange(1, 4).Draw(t, name+"-chunksize"))
		}
		return s
	}
	idA := quickfix.SessionID{BeginString: d.begin, SenderCompID: "AAA", TargetCompID: "BBB"}
	idB := quickfix.SessionID{BeginString: d.begin, SenderCompID: "BBB", TargetCompID: "AAA"}
	if rapid.IntRange(0, 2).Draw(t, "identity-with-optional-fields") == 0 {
		// mirrored optional identity fields (part of the store key, stamped on every header)
		idA.SenderSubID, idA.SenderLocationID, idA.TargetSubID, idA.Qualifier = "DESK7", "NY", "GW", "q1"
		idB.TargetSubID, idB.TargetLocationID, idB.SenderSubID, idB.Qualifier = "DESK7", "NY", "GW", "q2"
		c.Class("identity-with-optional-fields")
	}
	d.a = mk("A", true, rapid.Bool().Draw(t, "a-file"), idA)
	d.b = mk("B", false, rapid.Bool().Draw(t, "b-file"), idB)
	for _, sd := range []*duoSide{d.a, d.b} {
		if rapid.IntRange(0, 2).Draw(t, sd.name+"-refresh-on-logon") == 0 {
			sd.cfg.Settings["RefreshOnLogon"] = "Y"
			c.Class("setting:RefreshOnLogon")
		}
		if rapid.IntRange(0, 3).Draw(t, sd.name+"-lastmsgseqnumprocessed") == 0 {
			sd.cfg.Settings["EnableLastMsgSeqNumProcessed"] = "Y"
		}
		if p := rapid.SampledFrom([]string{"", "", "SECONDS", "MICROS", "NANOS"}).Draw(t, sd.name+"-timestampprecision"); p != "" {
			sd.cfg.Settings["TimeStampPrecision"] = p
		}
	}
	d.newRig(d.a)
	d.newRig(d.b)
	defer func() {
		for _, s := range []*duoSide{d.a, d.b} {
			s.r.Close()
			if s.dir != "" {
				os.RemoveAll(s.dir)
			}
		}
	}()
	side := func(t *rapid.T) *duoSide {
		if rapid.Bool().Draw(t, "side-a") {
			return d.a
		}
		return d.b
	}
	t.Repeat(map[string]func(*rapid.T){
		"connect": func(t *rapid.T) { d.connectBoth() },
		"send":    func(t *rapid.T) { d.send(side(t)) },
		"deliver": func(t *rapid.T) {
			s := side(t)
			n := rapid.IntRange(1, 6).Draw(t, "frames")
			for i := 0; i < n; i++ {
				d.deliver(s)
			}
		},
		"flush": func(t *rapid.T) { d.flush(side(t)) },
		"tick": func(t *rapid.T) {
			s := side(t)
			st := s.r.Timeout(1)
			d.absorb(s, st, "heartbeat tick")
		},
		"cut": func(t *rapid.T) {
			if !d.a.r.V.IsConnected() && !d.b.r.V.IsConnected() {
				return
			}
			if d.a.r.V.StateName() == "resend" || d.b.r.V.StateName() == "resend" {
				d.feat["cut-during-recovery"] = true
			}
			if d.a.r.V.StateName() == "logon" || d.b.r.V.StateName() == "logon" {
				d.feat["cut-during-logon"] = true
			}
			d.cut(rapid.IntRange(0, len(d.a.q)).Draw(t, "prefix-a"), rapid.IntRange(0, len(d.b.q)).Draw(t, "prefix-b"), rapid.Bool().Draw(t, "a-notified-first"))
			d.feat["cut"] = true
		},
		"restart": func(t *rapid.T) {
			s := side(t)
			if s.dir == "" {
				return
			}
			if s.r.V.IsLoggedOn() && rapid.Bool().Draw(t, "discarded-gracefully") {
				// the engine is stopped the regular way: it sends its Logout and waits; the other side
				// gets some of what is in flight (perhaps the Logout, perhaps its answer comes back),
				// and if no answer arrives the wait times out
				d.absorb(s, s.r.Stop(), "stop")
				other := d.a
				if s == d.a {
					other = d.b
				}
				for i, n := 0, rapid.IntRange(0, 8).Draw(t, "frames-after-stop"); i < n; i++ {
					d.deliver(other)
					d.deliver(s)
				}
				if s.r.V.StateName() == "logout" {
					d.absorb(s, s.r.Timeout(3), "logout timeout")
					d.feat["restart-after-an-unanswered-logout"] = true
				}
				d.feat["restart-after-stop"] = true
			}
			if d.a.r.V.IsConnected() || d.b.r.V.IsConnected() {
				d.cut(0, 0, true)
			} else {
				// both ends have given the connection up: what was still in flight is gone with it
				d.a.q, d.b.q = nil, nil
			}
			s.r.Close()
			d.newRig(s)
			d.logf("restart %s on its file store (next out %d, next in %d)", s.name, s.r.S(), s.r.T())
			d.feat["restart-"+s.name] = true
		},
	})
	// ---- stabilise: the link stays up for a few heartbeat intervals
	d.logf("--- stabilise")
	d.settle(8)
	c.Eval()
	check := func(to, from *duoSide) {
		got, want := strings.Join(to.received, ","), strings.Join(from.accepted, ",")
		if got == want {
			return
		}
		kind := "order-or-content"
		switch {
		case len(to.received) < len(from.accepted):
			kind = "lost"
		case len(to.received) > len(from.accepted):
			kind = "duplicated"
		}
		feature := ""
		if d.feat["restart-A"] || d.feat["restart-B"] {
			feature = "/with-restart"
		}
		vk.Violation(t, c, "C05/end-state/"+kind+feature, "%s received %v\n%s accepted %v\n%s", to.name, to.received, from.name, from.accepted, d.history())
	}
	check(d.b, d.a)
	check(d.a, d.b)
	for k := range d.feat {
		c.Class("history-with:" + k)
	}
	c.Class("stores:" + storeKind(d.a) + "/" + storeKind(d.b))
	faulty := d.feat["application-frame-lost-in-flight"] || d.feat["sent-while-not-logged-on"] || d.feat["restart-A"] || d.feat["restart-B"]
	if faulty && len(d.a.received) > 0 && len(d.b.received) > 0 {
		c.NonTrivial(stats.Hash(strings.Join(d.log, "\n")))
		c.SampleClass(storeKind(d.a)+"/"+storeKind(d.b), map[string]interface{}{"begin": d.begin, "a_accepted": len(d.a.accepted), "b_accepted": len(d.b.accepted), "features": fmt.Sprint(d.feat), "history_tail": tail(d.log, 14)})
	}
}

func TestC05_Rapid(t *testing.T) {
	rapid.Check(t, func(t *rapid.T) {
		vk.Guard(func() { c05Property(t) })
	})
}

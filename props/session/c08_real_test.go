package session

// C08, real-loop stage (thorough tier): the counterparty pipelines messages - everything is
// already in the inbound channel when the session's real run loop starts reading - including
// messages placed behind its own Logout. Two orders are reliable across goroutines and are the
// ones judged: the order of application callbacks (all made by the session goroutine) and the
// order of frames on the wire (all received by one reader).

import (
	"bytes"
	"fmt"
	"strconv"
	"strings"
	"sync"
	"testing"
	"time"

	"github.com/quickfixgo/quickfix"
	"github.com/quickfixgo/quickfix/config"
	"pgregory.net/rapid"

	"verif/fixwire"
	"verif/peer"
	"verif/stats"
	"verif/vk"
)

type pipeApp struct {
	mu        sync.Mutex
	callbacks []string
	v         *quickfix.VerifSession
	answer    bool
}

func (a *pipeApp) add(s string) {
	a.mu.Lock()
	a.callbacks = append(a.callbacks, s)
	a.mu.Unlock()
}
func (a *pipeApp) OnCreate(quickfix.SessionID)                       {}
func (a *pipeApp) OnLogon(quickfix.SessionID)                        { a.add("OnLogon") }
func (a *pipeApp) OnLogout(quickfix.SessionID)                       { a.add("OnLogout") }
func (a *pipeApp) ToAdmin(*quickfix.Message, quickfix.SessionID)     {}
func (a *pipeApp) ToApp(*quickfix.Message, quickfix.SessionID) error { return nil }
func (a *pipeApp) FromAdmin(m *quickfix.Message, _ quickfix.SessionID) quickfix.MessageRejectError {
	return nil
}
func (a *pipeApp) FromApp(m *quickfix.Message, _ quickfix.SessionID) quickfix.MessageRejectError {
	n, _ := m.Header.GetInt(34)
	a.add("FromApp" + strconv.Itoa(n))
	if a.answer {
		r := quickfix.NewMessage()
		r.Header.SetString(35, "8")
		r.Body.SetString(37, "o"+strconv.Itoa(n)).SetString(17, "e").SetString(150, "0").SetString(39, "0").SetString(55, "IBM").SetString(54, "1")
		_ = a.v.Send(r)
	}
	return nil
}

func TestC08_RealLoop(t *testing.T) {
	if !vk.Thorough() {
		t.Skip("thorough tier only")
	}
	c := stats.Get("C08")
	run := 0
	rapid.Check(t, func(t *rapid.T) {
		vk.Guard(func() {
			run++
			id := quickfix.SessionID{BeginString: "FIX.4.2", SenderCompID: "ENG", TargetCompID: "PEER", Qualifier: "pipe" + strconv.Itoa(run) + "x" + strconv.FormatInt(time.Now().UnixNano()%100000, 10)}
			ss := quickfix.NewSessionSettings()
			ss.Set(config.BeginString, id.BeginString)
			ss.Set(config.SenderCompID, id.SenderCompID)
			ss.Set(config.TargetCompID, id.TargetCompID)
			app := &pipeApp{answer: rapid.Bool().Draw(t, "application-answers-orders")}
			v, err := quickfix.VerifNewSession(id, quickfix.NewMemoryStoreFactory(), ss, quickfix.NewNullLogFactory(), app, false)
			if err != nil {
				t.Fatalf("harness: %v", err)
			}
			app.v = v
			p := peer.New("FIX.4.2", "PEER", "ENG")
			var pipeline []string
			in := make(chan *bytes.Buffer, 64)
			push := func(mt string, body []fixwire.Field) {
				_, f := p.Next(mt, body)
				in <- bytes.NewBuffer(f)
				pipeline = append(pipeline, mt)
			}
			push("A", p.LogonBody(30, false))
			order := func(i int) []fixwire.Field {
				return []fixwire.Field{fixwire.F(11, "id"+strconv.Itoa(i)), fixwire.F(21, "1"), fixwire.F(55, "IBM"), fixwire.F(54, "1"), fixwire.F(60, p.Stamp(time.Now())), fixwire.F(40, "1")}
			}
			before := rapid.IntRange(0, 3).Draw(t, "before-logout")
			for i := 0; i < before; i++ {
				switch rapid.SampledFrom([]string{"D", "0", "1"}).Draw(t, "type") {
				case "D":
					push("D", order(i))
				case "1":
					push("1", []fixwire.Field{fixwire.F(112, "t"+strconv.Itoa(i))})
				default:
					push("0", nil)
				}
			}
			push("5", nil)
			behind := rapid.IntRange(0, 3).Draw(t, "behind-logout")
			for i := 0; i < behind; i++ {
				switch rapid.SampledFrom([]string{"D", "D", "1", "5"}).Draw(t, "type") {
				case "D":
					push("D", order(100+i))
				case "5":
					push("5", nil)
				default:
					push("1", []fixwire.Field{fixwire.F(112, "late"+strconv.Itoa(i))})
				}
			}
			out := make(chan []byte)
			var mu sync.Mutex
			var wire []string
			done := make(chan struct{})
			go func() {
				defer close(done)
				for b := range out {
					fs, _ := fixwire.Scan(b, nil)
					pd := ""
					if fixwire.GetS(fs, 43) == "Y" {
						pd = "(PossDup)"
					}
					mu.Lock()
					wire = append(wire, fixwire.GetS(fs, 35)+pd)
					mu.Unlock()
				}
			}()
			go v.RunLoop()
			if err := v.ConnectAsync(in, out); err != nil {
				v.StopAsync()
				c.Class("real-loop:connect-refused")
				return
			}
			select {
			case <-done: // the engine closed the connection
			case <-time.After(10 * time.Second):
				v.StopAsync()
				c.Class("real-loop:inconclusive(connection-not-closed-within-10s)")
				return
			}
			time.Sleep(20 * time.Millisecond)
			v.StopAsync()
			app.mu.Lock()
			cbs := append([]string(nil), app.callbacks...)
			app.mu.Unlock()
			mu.Lock()
			w := append([]string(nil), wire...)
			mu.Unlock()
			c.Eval()
			c.Class("real-loop:pipelined")
			if behind > 0 {
				c.Class("real-loop:messages-behind-the-logout")
				c.NonTrivial(stats.Hash("pipe", strings.Join(pipeline, ","), app.answer))
			}
			desc := fmt.Sprintf("pipelined inbound %v (application answers orders: %v)\ncallbacks: %v\nwire:      %v", pipeline, app.answer, cbs, w)
			// callbacks: nothing is delivered after the logout notification, which comes exactly once
			logouts, after := 0, false
			for _, cb := range cbs {
				switch {
				case cb == "OnLogout":
					logouts++
					after = true
				case cb == "OnLogon":
					after = false
				case strings.HasPrefix(cb, "FromApp") && after:
					vk.Violation(t, c, "C08/real-loop/delivery-after-logout-notification", "%s delivered after OnLogout\n%s", cb, desc)
				}
			}
			if logouts != 1 {
				vk.Violation(t, c, "C08/real-loop/logout-notifications", "%d logout notifications for one logged-on period\n%s", logouts, desc)
			}
			// wire: first frame Logon or Logout; no first-time application message after the engine's Logout
			if len(w) > 0 && w[0] != "A" && w[0] != "5" {
				vk.Violation(t, c, "C08/real-loop/first-frame", "the first frame on the connection is %s\n%s", w[0], desc)
			}
			sentLogout := false
			for _, f := range w {
				if f == "5" {
					sentLogout = true
				} else if sentLogout && !fixwire.IsAdminMsgType(strings.TrimSuffix(f, "(PossDup)")) && !strings.HasSuffix(f, "(PossDup)") {
					vk.Violation(t, c, "C08/real-loop/application-message-after-logout", "application message %s transmitted for the first time after the engine's Logout\n%s", f, desc)
				}
			}
			c.SampleClass("real-loop", desc)
		})
	})
}

// pipeRun plays one fixed pipeline (message types, pushed before the run loop starts) and
// returns the callbacks and the wire frames.
func pipeRun(t vk.TB, types []string, answer bool) (cbs, w []string, closed bool) {
	id := quickfix.SessionID{BeginString: "FIX.4.2", SenderCompID: "ENG", TargetCompID: "PEER", Qualifier: "fixed" + strconv.FormatInt(time.Now().UnixNano()%1000000, 10)}
	ss := quickfix.NewSessionSettings()
	ss.Set(config.BeginString, id.BeginString)
	ss.Set(config.SenderCompID, id.SenderCompID)
	ss.Set(config.TargetCompID, id.TargetCompID)
	app := &pipeApp{answer: answer}
	v, err := quickfix.VerifNewSession(id, quickfix.NewMemoryStoreFactory(), ss, quickfix.NewNullLogFactory(), app, false)
	if err != nil {
		t.Fatalf("harness: %v", err)
	}
	app.v = v
	p := peer.New("FIX.4.2", "PEER", "ENG")
	in := make(chan *bytes.Buffer, 64)
	for i, mt := range types {
		var body []fixwire.Field
		switch mt {
		case "A":
			body = p.LogonBody(30, false)
		case "D":
			body = []fixwire.Field{fixwire.F(11, "id"+strconv.Itoa(i)), fixwire.F(21, "1"), fixwire.F(55, "IBM"), fixwire.F(54, "1"), fixwire.F(60, p.Stamp(time.Now())), fixwire.F(40, "1")}
		case "1":
			body = []fixwire.Field{fixwire.F(112, "t"+strconv.Itoa(i))}
		}
		_, f := p.Next(mt, body)
		in <- bytes.NewBuffer(f)
	}
	out := make(chan []byte)
	var mu sync.Mutex
	done := make(chan struct{})
	go func() {
		defer close(done)
		for b := range out {
			fs, _ := fixwire.Scan(b, nil)
			mu.Lock()
			w = append(w, fixwire.GetS(fs, 35))
			mu.Unlock()
		}
	}()
	go v.RunLoop()
	defer v.StopAsync()
	if err := v.ConnectAsync(in, out); err != nil {
		return nil, nil, false
	}
	select {
	case <-done:
		closed = true
	case <-time.After(10 * time.Second):
	}
	time.Sleep(20 * time.Millisecond)
	app.mu.Lock()
	cbs = append([]string(nil), app.callbacks...)
	app.mu.Unlock()
	mu.Lock()
	defer mu.Unlock()
	return cbs, append([]string(nil), w...), closed
}

// TestReplay_C08_RealLoopFixed: messages pipelined behind the counterparty's Logout are neither
// delivered after the logout notification nor answered; a second Logout does not notify twice.
func TestReplay_C08_RealLoopFixed(t *testing.T) {
	c := stats.Get("C08")
	vk.Guard(func() {
		cbs, w, closed := pipeRun(t, []string{"A", "5", "D", "1", "5"}, true)
		if !closed {
			return // the machine did not get there within the budget: not judged
		}
		desc := fmt.Sprintf("pipelined [A 5 D 1 5]\ncallbacks: %v\nwire: %v", cbs, w)
		logouts, after := 0, false
		for _, cb := range cbs {
			if cb == "OnLogout" {
				logouts++
				after = true
			} else if after && strings.HasPrefix(cb, "FromApp") {
				vk.Violation(t, c, "C08/real-loop/delivery-after-logout-notification", "%s delivered after OnLogout\n%s", cb, desc)
			}
		}
		if logouts != 1 {
			vk.Violation(t, c, "C08/real-loop/logout-notifications", "%d logout notifications for one logged-on period\n%s", logouts, desc)
		}
	})
}

#!/usr/bin/env python3
"""Runs /repo's test suite with the verif guard OFF and compares with the stable_pass list of BASELINE.json."""
import json, os, subprocess, sys
env = dict(os.environ, GOFLAGS="-mod=mod", GOPROXY="off", GOSUMDB="off", GOTOOLCHAIN="local")
repo = sys.argv[1] if len(sys.argv) > 1 else "/repo"
p = subprocess.run(["go", "test", "-json", "-vet=off", "-count=1", "-timeout", "25m", "./..."], cwd=repo, env=env, capture_output=True, text=True)
passed = set()
for line in p.stdout.splitlines():
    try:
        e = json.loads(line)
    except Exception:
        continue
    if e.get("Action") == "pass" and e.get("Test"):
        passed.add("%s::%s" % (e["Package"], e["Test"]))
base = set(json.load(open("/root/.vp/BASELINE.json"))["stable_pass"])
missing = sorted(base - passed)
print("baseline stable_pass: %d, passed now: %d, missing: %d" % (len(base), len(base & passed), len(missing)))
for m in missing[:40]:
    print("  MISSING", m)
sys.exit(1 if missing else 0)

package session

// C09, real-socket stage (thorough tier): hostile byte streams against a listening Acceptor.
// The bytes go through the production path - TCP accept, stream parser, first-message session
// lookup (acceptor.go), read loop, session run loop. A panic on any of those goroutines ends the
// test process (reported by the driver); after every stream the acceptor must still serve a
// well-formed logon.

import (
	"bytes"
	"fmt"
	"net"
	"strconv"
	"testing"
	"time"

	"github.com/quickfixgo/quickfix"
	"github.com/quickfixgo/quickfix/config"
	"pgregory.net/rapid"

	"verif/fixwire"
	"verif/peer"
	"verif/stats"
	"verif/storekit"
	"verif/vk"
)

type sockRig struct {
	port int
	acc  *quickfix.Acceptor
	id   quickfix.SessionID
}

func newSockRig(t *testing.T, dynamic bool) (*sockRig, error) {
	return newSockRigWithApp(t, dynamic, &realApp{t0: time.Now()})
}

// sockRigProxy: the next rig listens behind the PROXY protocol (UseTCPProxy=Y).
var sockRigProxy bool

func newSockRigWithApp(t *testing.T, dynamic bool, app quickfix.Application) (*sockRig, error) {
	tag := strconv.FormatInt(time.Now().UnixNano()%1000000, 10)
	id := quickfix.SessionID{BeginString: "FIX.4.2", SenderCompID: "ACC" + tag, TargetCompID: "CLI" + tag}
	port := freePort()
	g := map[string]string{config.SocketAcceptPort: strconv.Itoa(port), config.ResetOnLogon: "Y"}
	if dynamic {
		g[config.DynamicSessions] = "Y"
	}
	if sockRigProxy {
		g[config.UseTCPProxy] = "Y"
	}
	set := storekit.Settings(g, id)
	acc, err := quickfix.NewAcceptor(app, quickfix.NewMemoryStoreFactory(), set, quickfix.NewNullLogFactory())
	if err != nil {
		return nil, err
	}
	if err := acc.Start(); err != nil {
		return nil, err
	}
	return &sockRig{port: port, acc: acc, id: id}, nil
}

// alive: a fresh connection with a well-formed Logon gets a Logon back. Returns ok, or the
// reason and whether the machine looked stalled meanwhile (then the verdict is not used).
func (r *sockRig) alive() (ok bool, why string, stalled bool) {
	a := time.Now()
	time.Sleep(20 * time.Millisecond)
	if time.Since(a) > 500*time.Millisecond {
		return false, "machine stalled", true
	}
	c, err := net.DialTimeout("tcp", "127.0.0.1:"+strconv.Itoa(r.port), 5*time.Second)
	if err != nil {
		return false, "dial: " + err.Error(), false
	}
	defer c.Close()
	p := peer.New("FIX.4.2", r.id.TargetCompID, r.id.SenderCompID)
	_, f := p.Next("A", p.LogonBody(30, true))
	if _, err := c.Write(f); err != nil {
		return false, "write: " + err.Error(), false
	}
	_ = c.SetReadDeadline(time.Now().Add(10 * time.Second))
	buf := make([]byte, 4096)
	var got []byte
	for !bytes.Contains(got, []byte("\x0110=")) {
		n, err := c.Read(buf)
		got = append(got, buf[:n]...)
		if err != nil {
			return false, fmt.Sprintf("no Logon answer (%v), got %q", err, got), false
		}
	}
	if !bytes.Contains(got, []byte("\x0135=A\x01")) {
		return false, fmt.Sprintf("answer is not a Logon: %q", got), false
	}
	_, lo := p.Next("5", nil)
	_, _ = c.Write(lo)
	return true, "", false
}

func TestC09_AcceptorSocket(t *testing.T) {
	if !vk.Thorough() {
		t.Skip("thorough tier only")
	}
	c := c09()
	shard, _ := vk.Shard()
	dynamic := (int(vk.Seed())+shard)%2 == 0
	proxied := shard%2 == 1 // odd shards: the acceptor listens behind the PROXY protocol
	sockRigProxy = proxied
	r, err := newSockRig(t, dynamic)
	sockRigProxy = false
	if err != nil {
		t.Skipf("cannot listen on loopback: %v", err)
	}
	defer r.acc.Stop()
	if ok, why, _ := r.alive(); !ok {
		t.Skipf("acceptor not reachable before the first stream: %s", why)
	}
	n := 0
	rapid.Check(t, func(t *rapid.T) {
		vk.Guard(func() {
			p := peer.New("FIX.4.2", r.id.TargetCompID, r.id.SenderCompID)
			var stream []byte
			if proxied {
				// a PROXY protocol preamble in front of the FIX stream: well-formed TCP ones, ones that
				// describe a non-TCP endpoint (legal for the protocol), unknown and broken ones
				pre := rapid.SampledFrom(proxyPreambles).Draw(t, "proxy-preamble")
				stream = append(stream, pre...)
				if len(pre) > 0 {
					c.Class("socket:proxy-preamble")
				}
			}
			first := rapid.SampledFrom([]string{"logon", "logon", "logon-unknown-session", "logon-other-begin", "heartbeat", "garbage"}).Draw(t, "first")
			switch first {
			case "logon":
				_, f := p.Next("A", p.LogonBody(30, true))
				stream = append(stream, mutateFrameBytes(t, f)...)
			case "logon-unknown-session":
				q := peer.New("FIX.4.2", "NOBODY", "NOWHERE")
				_, f := q.Next("A", q.LogonBody(30, false))
				stream = append(stream, f...)
			case "logon-other-begin":
				q := peer.New(rapid.SampledFrom([]string{"FIX.4.4", "FIXT.1.1", "FIX.9.9"}).Draw(t, "begin"), r.id.TargetCompID, r.id.SenderCompID)
				_, f := q.Next("A", q.LogonBody(30, false))
				stream = append(stream, f...)
			case "heartbeat":
				_, f := p.Next("0", nil)
				stream = append(stream, f...)
			}
			for i, k := 0, rapid.IntRange(0, 6).Draw(t, "more"); i < k; i++ {
				switch rapid.IntRange(0, 3).Draw(t, "kind") {
				case 0:
					stream = append(stream, rapid.SampledFrom(sockSoup).Draw(t, "soup")...)
				case 1:
					_, f := p.Next(rapid.SampledFrom([]string{"D", "0", "1", "2", "4", "5", "A"}).Draw(t, "type"), []fixwire.Field{fixwire.F(112, "x"), fixwire.F(7, vk.HostileNumber(t, "b", []string{"1", "0"})), fixwire.F(16, "0"), fixwire.F(36, vk.HostileNumber(t, "n", []string{"5"})), fixwire.F(123, "Y")})
					stream = append(stream, mutateFrameBytes(t, f)...)
				case 2:
					_, f := p.Next("D", []fixwire.Field{fixwire.F(11, "id"), fixwire.F(55, "IBM")})
					stream = append(stream, f[:rapid.IntRange(1, len(f)).Draw(t, "cut")]...)
				default:
					stream = append(stream, rapid.SliceOfN(rapid.Byte(), 1, 40).Draw(t, "bytes")...)
				}
			}
			chunks := rapid.SliceOfN(rapid.IntRange(1, 200), 1, 5).Draw(t, "chunks")
			conn, err := net.DialTimeout("tcp", "127.0.0.1:"+strconv.Itoa(r.port), 5*time.Second)
			if err != nil {
				c.Class("socket:dial-failed")
				return
			}
			for off, i := 0, 0; off < len(stream); i++ {
				end := off + chunks[i%len(chunks)]
				if end > len(stream) {
					end = len(stream)
				}
				if _, err := conn.Write(stream[off:end]); err != nil {
					break // the acceptor hung up: fine
				}
				off = end
			}
			if rapid.Bool().Draw(t, "linger") {
				_ = conn.SetReadDeadline(time.Now().Add(30 * time.Millisecond))
				_, _ = conn.Read(make([]byte, 1024))
			}
			conn.Close()
			n++
			c.Eval()
			c.Class("target:acceptor-socket")
			if dynamic {
				c.Class("socket:dynamic-sessions")
			}
			c.Class("socket-first:" + first)
			c.NonTrivial(stats.Hash("sock", stream))
			c.SampleClass("acceptor-socket/"+first, vk.Show(clipB(stream)))
			// still alive?
			var why string
			for attempt := 0; attempt < 3; attempt++ {
				ok, w, stalled := r.alive()
				if ok {
					return
				}
				if stalled {
					c.Class("socket:inconclusive(machine-stalled)")
					return
				}
				why = w
				time.Sleep(300 * time.Millisecond)
			}
			vk.Violation(t, c, "C09/acceptor-socket/not-alive-after-stream", "after the stream below the acceptor does not answer a well-formed Logon on a new connection (%s)\nstream (%d bytes, chunks %v): %s", why, len(stream), chunks, vk.Show(clipB(stream)))
		})
	})
}

func clipB(b []byte) []byte {
	if len(b) > 700 {
		return append(append([]byte{}, b[:500]...), append([]byte(" ... "), b[len(b)-150:]...)...)
	}
	return b
}

var proxyV2Sig = "\r\n\r\n\x00\r\nQUIT\n"

var proxyPreambles = [][]byte{
	nil, nil,
	[]byte("PROXY TCP4 10.1.1.1 10.1.1.2 40000 5001\r\n"),
	[]byte("PROXY TCP6 ::1 ::1 40000 5001\r\n"),
	[]byte("PROXY UNKNOWN\r\n"),
	[]byte("PROXY TCP4 300.1.1.1 x 1 2\r\n"),
	[]byte(proxyV2Sig + "\x21\x11\x00\x0c\x0a\x01\x01\x01\x0a\x01\x01\x02\x9c\x40\x13\x89"), // v2 TCP over IPv4
	[]byte(proxyV2Sig + "\x21\x12\x00\x0c\x0a\x01\x01\x01\x0a\x01\x01\x02\x9c\x40\x13\x89"), // v2 UDP over IPv4
	append([]byte(proxyV2Sig+"\x21\x31\x00\xd8"), append(append(make([]byte, 0, 216), padTo([]byte("/tmp/a.sock"), 108)...), padTo([]byte("/tmp/b.sock"), 108)...)...), // v2 AF_UNIX stream
	[]byte(proxyV2Sig + "\x20\x00\x00\x00"),     // v2 LOCAL
	[]byte(proxyV2Sig + "\x21\x11\xff\xff\x0a"), // v2 with a length that lies
	[]byte(proxyV2Sig[:7]),
}

func padTo(b []byte, n int) []byte {
	out := make([]byte, n)
	copy(out, b)
	return out
}

var sockSoup = [][]byte{
	[]byte("8=FIX.4.2\x019=5\x0135=0\x0110=000\x01"), []byte("8=\x019=\x0135=\x0110=\x01"), []byte("8=FIX.4.2\x019=99999999999999999999\x01"),
	[]byte("8=FIX.4.2\x019=9223372036854775807\x0135=A\x0110=000\x01"), []byte("8=FIX.4.2\x019=12\x0135=A\x0134=\x0110=000\x01"), []byte("8=FIX.4.2\x01"),
	[]byte("8=FIX.4.2\x019=0\x0110=000\x01"), []byte("\x01\x01\x01"), []byte("10=000\x01"), []byte("8=FIX.4.2\x019=20\x0135=A\x0149=\x0156=\x0110=000\x01"),
	[]byte("8=FIX.4.2\x019=40\x0135=A\x01212=9223372036854775807\x01213=<a/>\x0110=000\x01"), []byte("GET / HTTP/1.1\r\nHost: x\r\n\r\n"),
}

// mutateFrameBytes: zero to two field-level edits of a frame, optionally re-framed.
func mutateFrameBytes(t *rapid.T, msg []byte) []byte {
	n := rapid.SampledFrom([]int{0, 0, 1, 2}).Draw(t, "nmut")
	for i := 0; i < n; i++ {
		fields := bytes.SplitAfter(msg, []byte{1})
		if len(fields) > 0 && len(fields[len(fields)-1]) == 0 {
			fields = fields[:len(fields)-1]
		}
		if len(fields) < 2 {
			break
		}
		idx := rapid.IntRange(0, len(fields)-1).Draw(t, "field")
		eq := bytes.IndexByte(fields[idx], '=')
		switch rapid.SampledFrom([]string{"hostile", "time", "empty", "drop", "dup"}).Draw(t, "mutation") {
		case "hostile":
			if eq >= 0 {
				fields[idx] = append(append(append([]byte{}, fields[idx][:eq+1]...), vk.HostileNumber(t, "v", c09Hostile)...), 1)
			}
		case "time":
			if eq >= 0 {
				fields[idx] = append(append(append([]byte{}, fields[idx][:eq+1]...), vk.HostileTimestamp(t, "ts")...), 1)
			}
		case "empty":
			if eq >= 0 {
				fields[idx] = append(append([]byte{}, fields[idx][:eq+1]...), 1)
			}
		case "drop":
			fields = append(fields[:idx], fields[idx+1:]...)
		case "dup":
			fields = append(fields[:idx+1], append([][]byte{fields[idx]}, fields[idx+1:]...)...)
		}
		msg = bytes.Join(fields, nil)
	}
	if n > 0 && rapid.Bool().Draw(t, "reframe") {
		if fs, err := fixwire.Scan(msg, map[int]int{212: 213}); err == nil && len(fs) > 3 && fs[0].Tag == 8 && fs[1].Tag == 9 && fs[len(fs)-1].Tag == 10 {
			msg = fixwire.Build(string(fs[0].Value), fs[2:len(fs)-1])
		}
	}
	return msg
}

package session

// C06 - messages failing session-level checks never reach the application.
// One inbound message built from a header-defect matrix is delivered in each logged-on state
// (and in the logon state); the reaction is compared with a decision table written from the
// statement (DESIGN.md Appendix C).

import (
	"bytes"
	"fmt"
	"sort"
	"strconv"
	"strings"
	"testing"
	"time"

	"github.com/quickfixgo/quickfix/config"
	"pgregory.net/rapid"

	"verif/fixwire"
	"verif/peer"
	"verif/rig"
	"verif/stats"
	"verif/storekit"
	"verif/vk"
)

const c06Rule = "one inbound message built field by field from a defect matrix (BeginString ok/other/junk; Sender/TargetCompID ok/swapped/foreign/empty/absent/a prefix/other case/characters shifted across the boundary between the two; optional Sub/Location/OnBehalfOf/DeliverTo IDs; SendingTime now / inside / outside the latency window / malformed / empty / absent; MsgSeqNum at/above/below expected, absent/empty/junk; PossDup and OrigSendingTime combinations; application and administrative types) delivered in the normal, recovering, test-request-pending and combined states and in the logon state (the Logon plain, carrying ResetSeqNumFlag=Y, or met by ResetOnLogon), for every BeginString, CheckLatency on/off, MaxLatency 60/120/3600 s, with and without a dictionary; when the number was above the expected one the gap is then filled and the callbacks are looked at again; non-trivial = a parsable message with at least one defect, or a defect-free control; distinct = distinct (configuration, state, message shape)"

func c06() *stats.Collector {
	c := stats.Get("C06")
	c.SetRule(c06Rule)
	return c
}

type c06defects struct {
	begin   string // ok | other | junk
	sender  string // ok | swapped | foreign | empty | absent   (the inbound SenderCompID)
	target  string
	stime   string // now | inside | outside-past | outside-future | outside-centuries-past/-future | malformed | empty | absent
	seq     string // at | high | low | absent | empty | junk
	possdup string // "" | Y | N
	orig    string // "" | earlier | later
	subs    bool
}

func (d c06defects) list(checkLatency, recovering, useDict bool) []string {
	var l []string
	if d.begin != "ok" {
		l = append(l, "begin:"+d.begin)
	}
	if d.sender != "ok" || d.target != "ok" {
		l = append(l, "compid:"+d.sender+"/"+d.target)
	}
	windowChecked := checkLatency && !recovering
	switch d.stime {
	case "outside-past", "outside-future", "outside-centuries-past", "outside-centuries-future":
		if windowChecked {
			l = append(l, "time:stale")
		}
	case "malformed", "empty", "absent":
		switch {
		case windowChecked || useDict:
			// checked by the latency check, or by dictionary validation (required header field of type UTCTimestamp)
			l = append(l, "time:"+d.stime)
		default:
			// neither the window nor a dictionary looks at the field: the statement does not say
			l = append(l, "time:unspecified")
		}
	}
	switch d.seq {
	case "low":
		l = append(l, "seq:low/"+d.possdup+"/"+d.orig)
	case "high", "absent", "empty", "junk":
		l = append(l, "seq:"+d.seq)
	}
	return l
}

func c06Property(t *rapid.T) {
	c := c06()
	begin := rapid.SampledFrom(allBegins).Draw(t, "begin")
	checkLatency := rapid.IntRange(0, 3).Draw(t, "check-latency") != 0
	maxLatency := rapid.SampledFrom([]int{60, 120, 3600}).Draw(t, "max-latency")
	useDict := rapid.IntRange(0, 2).Draw(t, "dict") == 0
	cfg := simCfg{begin: begin, initiator: rapid.Bool().Draw(t, "initiator"), hb: 30, store: "memory", settings: map[string]string{config.MaxLatency: strconv.Itoa(maxLatency)}}
	if !checkLatency {
		cfg.settings[config.CheckLatency] = "N"
	}
	if useDict {
		spec := storekit.RepoDir() + "/spec/"
		if begin == "FIXT.1.1" {
			cfg.settings[config.TransportDataDictionary] = spec + "FIXT11.xml"
			cfg.settings[config.AppDataDictionary] = spec + "FIX50SP2.xml"
		} else {
			cfg.settings[config.DataDictionary] = spec + dictForBegin[begin] + ".xml"
		}
	}
	// options that shape what the engine writes into its answers (not which answer it gives)
	if rapid.IntRange(0, 2).Draw(t, "last-msgseqnum-processed") == 0 {
		cfg.settings[config.EnableLastMsgSeqNumProcessed] = "Y"
		c.Class("setting:EnableLastMsgSeqNumProcessed")
	}
	if p := rapid.SampledFrom([]string{"", "", "", "SECONDS", "MICROS", "NANOS"}).Draw(t, "timestamp-precision"); p != "" {
		cfg.settings[config.TimeStampPrecision] = p
	}
	state := rapid.SampledFrom([]string{"normal", "normal", "recovering", "pending", "pending+recovering", "logon"}).Draw(t, "state")
	// a Logon may come in on the path that resets the store first (it carries ResetSeqNumFlag=Y, or
	// the acceptor is configured with ResetOnLogon): the same checks gate it
	resetPath := ""
	if state == "logon" {
		resetPath = rapid.SampledFrom([]string{"", "", "flag", "option"}).Draw(t, "logon-reset-path")
		if resetPath == "flag" && begin == "FIX.4.0" || resetPath == "option" && cfg.initiator {
			resetPath = ""
		}
		if resetPath == "option" {
			cfg.settings[config.ResetOnLogon] = "Y"
		}
	}
	s := newSim(t, c, cfg)
	defer s.close()
	// ---- bring the session into the state
	if state == "logon" {
		if !s.connect() {
			t.Fatalf("harness: connect refused")
		}
	} else {
		if !s.logon(0) {
			t.Fatalf("harness: logon failed\n%s", s.history())
		}
		// some ordinary traffic so that T > 1 and "low" is possible
		for i := 0; i < rapid.IntRange(1, 4).Draw(t, "warmup"); i++ {
			s.peerLive("0", false)
			s.pumpOne()
		}
		if strings.Contains(state, "recovering") {
			s.peerLive("0", true)
			s.peerLive("0", false)
			s.pumpOne() // too high -> ResendRequest; the replay is owed, not delivered
			if got := s.r.V.StateName(); got != "resend" {
				t.Fatalf("harness: expected resend state, got %s\n%s", got, s.history())
			}
		}
		if strings.Contains(state, "pending") {
			s.timer(0)
			if got := s.r.V.StateName(); !strings.HasPrefix(got, "pending(") {
				t.Fatalf("harness: expected pending state, got %s\n%s", got, s.history())
			}
			s.link = nil // the heartbeat answer is withheld
		}
	}
	recovering := strings.Contains(state, "recovering")
	T := s.r.T()
	// ---- the message
	d := c06defects{begin: "ok", sender: "ok", target: "ok", stime: "now", seq: "at"}
	nDefects := rapid.SampledFrom([]int{0, 1, 1, 1, 1, 1, 2, 3}).Draw(t, "ndefects")
	kinds := rapid.Permutation([]string{"begin", "compid", "time", "seq"}).Draw(t, "defect-kinds")
	for _, k := range kinds[:min(nDefects, 4)] {
		switch k {
		case "begin":
			d.begin = rapid.SampledFrom([]string{"other", "junk"}).Draw(t, "d-begin")
		case "compid":
			which := rapid.SampledFrom([]string{"sender", "target", "both"}).Draw(t, "d-which")
			v := rapid.SampledFrom([]string{"swapped", "foreign", "empty", "absent", "shifted-right", "shifted-left", "prefix", "other-case"}).Draw(t, "d-compid")
			if strings.HasPrefix(v, "shifted") {
				which = "both" // characters moved across the boundary between the two fields: both are wrong, their concatenation is not
			}
			if which != "target" {
				d.sender = v
			}
			if which != "sender" {
				d.target = v
				if which == "both" && v == "swapped" {
					d.target = "swapped"
				}
			}
		case "time":
			d.stime = rapid.SampledFrom([]string{"outside-past", "outside-future", "outside-past", "outside-future", "outside-centuries-past", "outside-centuries-future", "malformed", "empty", "absent"}).Draw(t, "d-time")
		case "seq":
			opts := []string{"high", "absent", "empty", "junk"}
			if T > 1 && state != "logon" {
				opts = append(opts, "low", "low", "low")
			}
			d.seq = rapid.SampledFrom(opts).Draw(t, "d-seq")
			if d.seq == "low" {
				d.possdup = rapid.SampledFrom([]string{"", "N", "Y", "Y"}).Draw(t, "d-possdup")
				if d.possdup == "Y" {
					d.orig = rapid.SampledFrom([]string{"", "earlier", "later"}).Draw(t, "d-orig")
				}
			}
		}
	}
	if nDefects == 0 && rapid.Bool().Draw(t, "inside-window") {
		d.stime = "inside"
	}
	// a message at or above the expected number may be flagged as a retransmission (PossDupFlag=Y
	// with an earlier OrigSendingTime): that is no defect and exempts it from nothing
	if d.seq != "low" && rapid.IntRange(0, 3).Draw(t, "flagged-possdup") == 0 {
		d.possdup, d.orig = "Y", "earlier"
	}
	d.subs = rapid.Bool().Draw(t, "sub-ids")
	msgType := rapid.SampledFrom([]string{"D", "D", "0", "1", "3"}).Draw(t, "type")
	if state == "logon" {
		msgType = "A"
	}
	now := time.Now()
	o := peer.Opt{PossDup: d.possdup}
	switch d.begin {
	case "other":
		o.Begin = map[string]string{"FIX.4.0": "FIX.4.1", "FIX.4.1": "FIX.4.2", "FIX.4.2": "FIX.4.3", "FIX.4.3": "FIX.4.4", "FIX.4.4": "FIX.4.2", "FIXT.1.1": "FIX.4.4"}[begin]
	case "junk":
		o.Begin = "FOO"
	}
	val := func(kind, ok, other string) *string {
		var v string
		switch kind {
		case "ok":
			return nil
		case "swapped":
			v = other
		case "foreign":
			v = "ELSE"
		case "empty":
			v = ""
		case "absent":
			v = "\x00absent"
		case "shifted-right":
			v = map[string]string{"PEER": "PEERE", "ENG": "NG"}[ok]
		case "shifted-left":
			v = map[string]string{"PEER": "PEE", "ENG": "RENG"}[ok]
		case "prefix":
			v = ok[:len(ok)-1]
		case "other-case":
			v = strings.ToLower(ok)
		}
		return &v
	}
	o.Sender = val(d.sender, "PEER", "ENG")
	o.Target = val(d.target, "ENG", "PEER")
	window := time.Duration(maxLatency) * time.Second
	stamp := s.p.Stamp
	sending := now
	switch d.stime {
	case "inside":
		sending = now.Add(-(window - 30*time.Second))
		o.SendingTime = stamp(sending)
	case "outside-past":
		sending = now.Add(-(window + 30*time.Second))
		o.SendingTime = stamp(sending)
	case "outside-future":
		sending = now.Add(window + 30*time.Second)
		o.SendingTime = stamp(sending)
	case "outside-centuries-past":
		// (a well-formed timestamp further from now than a 64-bit nanosecond count can express)
		sending = now.Add(-window - time.Hour)
		o.SendingTime = rapid.SampledFrom([]string{"00020101-00:00:00", "16000229-12:00:00", "17200101-00:00:00"}).Draw(t, "centuries-past")
	case "outside-centuries-future":
		sending = now.Add(window + time.Hour)
		o.SendingTime = rapid.SampledFrom([]string{"99981231-23:59:59", "24260101-00:00:00", "23300101-00:00:00"}).Draw(t, "centuries-future")
	case "malformed":
		o.SendingTime = "2024-01-01"
	case "empty":
		o.SendingTime = "\x00empty"
	case "absent":
		o.SendingTime = "\x00absent"
	}
	seq := T
	switch d.seq {
	case "high":
		seq = T + rapid.IntRange(1, 5).Draw(t, "up")
	case "low":
		seq = T - rapid.IntRange(1, min(T-1, 3)).Draw(t, "down")
	case "absent":
		o.NoSeq = true
	case "empty":
		o.SeqText = "\x00empty"
	case "junk":
		o.SeqText = rapid.SampledFrom([]string{"1x", "x", "-", "1.0"}).Draw(t, "junk")
	}
	switch d.orig {
	case "earlier":
		o.OrigSending = stamp(sending.Add(-5 * time.Second))
		if d.stime == "outside-centuries-past" {
			o.OrigSending = "00010101-00:00:00"
		}
	case "later":
		o.OrigSending = stamp(sending.Add(45 * time.Second))
		if d.stime == "outside-centuries-future" {
			o.OrigSending = "99991231-23:59:59"
		}
	}
	if d.subs {
		o.ExtraHeader = []fixwire.Field{fixwire.F(50, "ssub"), fixwire.F(57, "tsub"), fixwire.F(115, "obo"), fixwire.F(128, "dto"), fixwire.F(116, "obosub"), fixwire.F(129, "dtosub")}
		if begin != "FIX.4.0" {
			// the location IDs exist from FIX.4.1
			o.ExtraHeader = append(o.ExtraHeader, fixwire.F(142, "sloc"), fixwire.F(143, "tloc"), fixwire.F(144, "oboloc"), fixwire.F(145, "dtoloc"))
		}
	}
	var body []fixwire.Field
	switch msgType {
	case "D":
		body = []fixwire.Field{fixwire.F(11, "ID1"), fixwire.F(21, "1"), fixwire.F(55, "IBM"), fixwire.F(54, "1"), fixwire.F(60, stamp(now)), fixwire.F(40, "1")}
		if begin == "FIX.4.0" || begin == "FIX.4.1" {
			body = []fixwire.Field{fixwire.F(11, "ID1"), fixwire.F(21, "1"), fixwire.F(55, "IBM"), fixwire.F(54, "1"), fixwire.F(38, "100"), fixwire.F(40, "1")}
		} else if begin == "FIX.4.2" {
			body = []fixwire.Field{fixwire.F(11, "ID1"), fixwire.F(21, "1"), fixwire.F(55, "IBM"), fixwire.F(54, "1"), fixwire.F(60, stamp(now)), fixwire.F(40, "1")}
		}
	case "1":
		body = []fixwire.Field{fixwire.F(112, "PING")}
	case "3":
		body = []fixwire.Field{fixwire.F(45, "1")}
	case "A":
		body = s.p.LogonBody(30, resetPath == "flag")
		if resetPath != "" {
			c.Class("logon:on-the-reset-path/" + resetPath)
		}
	}
	raw := s.p.Frame(msgType, seq, body, o)
	s.logf("TEST MESSAGE in state %s: %s", state, vk.Show(raw))
	stateBefore := s.r.V.StateName()
	st := s.r.In(raw)
	if stalled := time.Since(now); stalled > 10*time.Second {
		// the SendingTime offsets were computed from 'now'; after a long stall of the machine the
		// verdict would depend on the wall clock: discard the case instead of judging it
		c.Class("discarded:machine-stalled")
		return
	}
	if st.Panic != nil {
		vk.Violation(t, c, "C06/engine-panic", "%v\n%s", st.Panic, s.history())
	}
	st2, _ := s.r.Flush()
	outs := append(s.r.Outs(st), s.r.Outs(st2)...)
	var cbs []rig.Entry
	onLogon := false
	for _, e := range append(append([]rig.Entry{}, s.r.Entries(st)...), s.r.Entries(st2)...) {
		if (e.Kind == "FromApp" || e.Kind == "FromAdmin") && bytes.Equal(e.Raw, raw) {
			cbs = append(cbs, e)
		}
		if e.Kind == "OnLogon" {
			onLogon = true
		}
	}
	T2 := s.r.T()
	// follow-up: a message kept for later (number above the expected one) is judged again when the
	// gap before it is filled; the gate must hold then as well
	var lateCbs []rig.Entry
	if d.seq == "high" && state != "logon" && s.r.V.IsConnected() && seq > T2 {
		gf := s.p.Frame("4", T2, []fixwire.Field{fixwire.F(123, "Y"), fixwire.F(36, strconv.Itoa(seq))}, peer.Opt{PossDup: "Y", OrigSending: stamp(now)})
		s.logf("FOLLOW-UP gap fill %d -> %d", T2, seq)
		st3 := s.r.In(gf)
		if st3.Panic != nil {
			vk.Violation(t, c, "C06/engine-panic", "%v\n%s", st3.Panic, s.history())
		}
		st4, _ := s.r.Flush()
		for _, e := range append(append([]rig.Entry{}, s.r.Entries(st3)...), s.r.Entries(st4)...) {
			if (e.Kind == "FromApp" || e.Kind == "FromAdmin") && bytes.Equal(e.Raw, raw) {
				lateCbs = append(lateCbs, e)
			}
		}
		c.Class("follow-up:gap-filled")
		if len(lateCbs) > 0 {
			c.Class("follow-up:kept-message-delivered")
		}
	}
	c.Eval()
	defects := d.list(checkLatency, recovering, useDict)
	var types []string
	for _, e := range outs {
		types = append(types, e.MsgType)
	}
	desc := func() string {
		var l []string
		for _, e := range outs {
			l = append(l, vk.Show(e.Raw))
		}
		return fmt.Sprintf("state %s(%s) T=%d->%d checkLatency=%v maxLatency=%d dict=%v defects=%v\n message: %s\n reaction: %v\n   %s\n%s", state, stateBefore, T, T2, checkLatency, maxLatency, useDict, defects, vk.Show(raw), types, strings.Join(l, "\n   "), s.history())
	}
	cls := strings.Join(defectKinds(defects), "+")
	if cls == "" {
		cls = "control"
	}
	c.Class("state:" + state)
	c.Class("defects:" + cls)
	// ---------------- gate: no callback for a defective message
	gateDefect := false
	unspecified := false
	for _, k := range defects {
		if k == "time:unspecified" {
			unspecified = true
			continue
		}
		if !strings.HasPrefix(k, "seq:high") {
			gateDefect = true
		}
	}
	if gateDefect && len(cbs) > 0 && msgType != "A" {
		vk.Violation(t, c, "C06/gate/callback-for-defective-message/"+cls, "callback %v for a message with defects %v\n%s", cbs[0], defects, desc())
	}
	if gateDefect && len(lateCbs) > 0 && msgType != "A" {
		vk.Violation(t, c, "C06/gate/callback-after-gap-fill/"+cls, "callback %v, once the gap before it was filled, for a message with defects %v\n%s", lateCbs[0], defects, desc())
	}
	if unspecified {
		c.Class("unspecified(time field not looked at)")
		if !gateDefect {
			return
		}
	}
	if state == "logon" {
		if gateDefect && (onLogon || s.r.V.IsLoggedOn()) {
			vk.Violation(t, c, "C06/gate/logon-established/"+cls, "a defective Logon established the session\n%s", desc())
		}
		if len(defects) == 0 && !(onLogon && s.r.V.IsLoggedOn()) {
			vk.Violation(t, c, "C06/control/logon-not-established", "a defect-free Logon was not accepted\n%s", desc())
		}
		c.NonTrivial(stats.Hash("logon", cfg.String(), fmt.Sprint(d), msgType))
		c.SampleClass("logon/"+cls, map[string]interface{}{"message": vk.Show(raw), "reaction": types, "logged_on": s.r.V.IsLoggedOn()})
		return
	}
	c.NonTrivial(stats.Hash(cfg.String(), state, fmt.Sprint(d), msgType))
	c.SampleClass(state+"/"+cls, map[string]interface{}{"message": vk.Show(raw), "reaction": types, "T": []int{T, T2}})
	// ---------------- reactions
	expectTypes := func(want ...string) {
		if strings.Join(types, ",") != strings.Join(want, ",") {
			vk.Violation(t, c, "C06/reaction/"+cls+"/sent-"+strings.Join(types, "."), "expected outbound %v, got %v\n%s", want, types, desc())
		}
	}
	fatal := func() {
		if T2 != T {
			vk.Violation(t, c, "C06/reaction/"+cls+"/expected-number-advanced", "expected number moved %d -> %d\n%s", T, T2, desc())
		}
	}
	checkReject := func(e rig.Entry, reason int, refTag int) {
		if begin >= "FIX.4.2" {
			if got, ok := fixwire.GetInt(e.Fields, 373); (!ok || got != reason) && !(begin == "FIX.4.2" && reason > 11 && !ok) {
				alt := reason == 4 && ok && got == 6 // "empty" may be reported as bad format: both name the field
				if !alt {
					vk.Violation(t, c, fmt.Sprintf("C06/reject/%s/reason-%d-instead-of-%d", cls, got, reason), "SessionRejectReason %d (present %v), expected %d\n%s", got, ok, reason, desc())
				}
			}
			if refTag != 0 {
				if got, ok := fixwire.GetInt(e.Fields, 371); !ok || got != refTag {
					vk.Violation(t, c, "C06/reject/"+cls+"/reftag", "RefTagID %d (present %v), expected %d\n%s", got, ok, refTag, desc())
				}
			}
		} else if refTag != 0 {
			if !strings.Contains(fixwire.GetS(e.Fields, 58), strconv.Itoa(refTag)) {
				vk.Violation(t, c, "C06/reject/"+cls+"/text-does-not-name-field", "Text %q does not name tag %d\n%s", fixwire.GetS(e.Fields, 58), refTag, desc())
			}
		}
		// quotes the offending MsgSeqNum
		if in, ok := fixwire.GetInt(ctxFields(raw), 34); ok {
			if got, ok2 := fixwire.GetInt(e.Fields, 45); !ok2 || got != in {
				vk.Violation(t, c, "C06/reject/refseqnum", "RefSeqNum %d (present %v), inbound MsgSeqNum %d\n%s", got, ok2, in, desc())
			}
		}
		// reversed routing
		in := ctxFields(raw)
		pairs := [][2]int{{50, 57}, {57, 50}, {115, 128}, {128, 115}, {116, 129}, {129, 116}}
		if begin != "FIX.4.0" {
			pairs = append(pairs, [2]int{142, 143}, [2]int{143, 142}, [2]int{144, 145}, [2]int{145, 144})
		}
		if d.sender == "ok" && d.target == "ok" {
			pairs = append(pairs, [2]int{49, 56}, [2]int{56, 49})
		}
		for _, p := range pairs {
			if v, ok := fixwire.Get(in, p[0]); ok && len(v) > 0 {
				if got, ok2 := fixwire.Get(e.Fields, p[1]); !ok2 || !bytes.Equal(got, v) {
					vk.Violation(t, c, "C06/reject/routing-not-reversed", "inbound %d=%s should come back as %d, got %q (present %v)\n%s", p[0], v, p[1], got, ok2, desc())
				}
			}
		}
	}
	if len(defects) == 0 {
		// control: accepted, exactly one callback, no Reject/Logout
		if len(cbs) != 1 {
			vk.Violation(t, c, "C06/control/callbacks", "a defect-free message produced %d callbacks\n%s", len(cbs), desc())
		}
		for _, ty := range types {
			if ty == "3" || ty == "5" || ty == "j" {
				vk.Violation(t, c, "C06/control/rejected", "a defect-free message was answered by %v\n%s", types, desc())
			}
		}
		if T2 != T+1 && !(recovering && T2 > T+1) {
			vk.Violation(t, c, "C06/control/expected-number", "expected number %d -> %d\n%s", T, T2, desc())
		}
		return
	}
	if len(defects) > 1 || unspecified {
		c.Class("multi-defect")
		return // gate only
	}
	switch k := defects[0]; {
	case strings.HasPrefix(k, "begin:"):
		expectTypes("5")
		fatal()
	case strings.HasPrefix(k, "compid:"):
		switch {
		case d.sender == "absent":
			expectTypes("3")
			checkReject(outs[0], 1, 49)
		case d.target == "absent":
			expectTypes("3")
			checkReject(outs[0], 1, 56)
		case d.target == "empty":
			expectTypes("3")
			checkReject(outs[0], 4, 56)
		case d.sender == "empty":
			expectTypes("3")
			checkReject(outs[0], 4, 49)
		default:
			expectTypes("3", "5")
			checkReject(outs[0], 9, 0)
			fatal()
		}
	case k == "time:stale":
		expectTypes("3", "5")
		checkReject(outs[0], 10, 0)
		fatal()
	case k == "time:absent":
		expectTypes("3")
		checkReject(outs[0], 1, 52)
	case k == "time:malformed":
		expectTypes("3")
		checkReject(outs[0], 6, 52)
	case k == "time:empty":
		expectTypes("3")
		checkReject(outs[0], 4, 52)
	case k == "seq:absent":
		expectTypes("3")
		checkReject(outs[0], 1, 34)
	case k == "seq:junk":
		expectTypes("3")
		checkReject(outs[0], 6, 34)
	case k == "seq:empty":
		expectTypes("3")
		checkReject(outs[0], 4, 34)
	case k == "seq:high":
		// C04's business; only the gate applies (no callback now)
		if len(cbs) > 0 {
			vk.Violation(t, c, "C06/gate/too-high-delivered", "a too-high message was delivered\n%s", desc())
		}
	case strings.HasPrefix(k, "seq:low"):
		switch {
		case d.possdup != "Y":
			expectTypes("5")
			fatal()
		case d.orig == "":
			expectTypes("3")
			checkReject(outs[0], 1, 122)
		case d.orig == "later":
			expectTypes("3", "5")
			checkReject(outs[0], 10, 0)
			fatal()
		default:
			expectTypes()
			fatal()
		}
	}
}

func ctxFields(raw []byte) []fixwire.Field {
	fs, _ := fixwire.Scan(raw, nil)
	return fs
}

func defectKinds(defects []string) []string {
	var l []string
	for _, d := range defects {
		l = append(l, d)
	}
	sort.Strings(l)
	return l
}

func min(a, b int) int {
	if a < b {
		return a
	}
	return b
}

func TestC06_Rapid(t *testing.T) {
	rapid.Check(t, func(t *rapid.T) {
		vk.Guard(func() { c06Property(t) })
	})
}

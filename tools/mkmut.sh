#!/bin/bash
# tools/mkmut.sh <name> <file> <python-expr-old> <python-expr-new>  -> writes mutants/<name>.diff (a one-replacement edit of /repo's HEAD)
set -e
name=$1; file=$2; old=$3; new=$4
wt=/tmp/mkmut-$$
git -C /repo worktree add -q $wt HEAD
python3 - "$wt/$file" "$old" "$new" <<'PY'
import sys
p,old,new=sys.argv[1:4]
s=open(p).read()
old=old.encode().decode('unicode_escape'); new=new.encode().decode('unicode_escape')
assert s.count(old)>=1, "pattern not found: "+old
open(p,'w').write(s.replace(old,new,1))
PY
git -C $wt diff > /verif/mutants/$name.diff
(cd $wt && GOFLAGS=-mod=mod GOPROXY=off GOSUMDB=off GOTOOLCHAIN=local go build ./... ) || echo "WARNING: $name does not build"
git -C /repo worktree remove --force $wt
echo "wrote mutants/$name.diff"

#!/usr/bin/env python3
"""Writes /verif/MANIFEST.json from tools/registry.py (claimed checks) and tools/registry.py:NOT_APPLICABLE."""
import json
import os
import sys

VERIF = os.path.dirname(os.path.dirname(os.path.abspath(__file__)))
sys.path.insert(0, os.path.join(VERIF, "tools"))
import registry  # noqa: E402

ALL = ["C%02d" % i for i in range(1, 21)]
checks = []
for pid in sorted(registry.PROPS):
    sp = registry.PROPS[pid]
    checks.append(dict(
        property_id=pid,
        quick_cmd="./check %s quick" % pid,
        thorough_cmd="./check %s thorough" % pid,
        evidence_file="/verif/evidence/%s.json" % pid,
        replay_cmd_template="./check %s --replay {path}" % pid,
        engine="go-rapid-harness",
        level_claimed=dict(category=sp["level"], text=sp.get("level_text", ""), design_ref=sp.get("design_ref", "")),
        level_note=sp.get("level_note", "Trusted base: the Go toolchain, pgregory.net/rapid v1.3.0, the independent oracle code under /verif (fixwire, specxml and the per-property models). Never establishes absence of violations."),
        technique=sp.get("technique", ""),
    ))
na = []
for pid in ALL:
    if pid not in registry.PROPS:
        na.append(dict(property_id=pid, reason=registry.NOT_APPLICABLE.get(pid, "check not built yet (work in progress in this session); not claimed")))
m = dict(
    version=1,
    setup_cmd="./setup.sh",
    hooks=dict(
        guard="verif",
        enable="go test -c -tags verif (./check builds every test binary from /repo's working tree with -tags verif)",
        baseline_off_cmd="cd /repo && GOFLAGS=-mod=mod GOPROXY=off GOSUMDB=off GOTOOLCHAIN=local go test -json -vet=off -count=1 -timeout 25m ./...",
        source_commits=registry.HOOK_COMMITS,
        add_only=True,
    ),
    engines=[dict(name="go-rapid-harness", path="/verif/check", serves_properties=sorted(registry.PROPS),
                  kind_free_text="property-based testing (pgregory.net/rapid v1.3.0: value generators and state-machine mode), bounded-exhaustive enumeration and Go native fuzzing against explicit oracles; driver tools/check.py shards rapid across processes and merges measured coverage into evidence")],
    checks=checks,
    not_applicable=na,
    notes=registry.NOTES,
)
json.dump(m, open(os.path.join(VERIF, "MANIFEST.json"), "w"), indent=1)
print("MANIFEST.json: %d checks, %d not claimed" % (len(checks), len(na)))

package session

// C07 - sequence numbers persist across connections and reset only when agreed.
// State machine over connect / logon (with and without ResetSeqNumFlag) / traffic / logout /
// disconnect / reset-time crossings / SequenceReset messages, for all 16 option combinations.
// Oracle: every store reset in the trace must be justified by one of the conditions of the
// statement, every such condition must produce the reset (counters at 1 at that moment, Logon
// number 1, flag echoed), and outside of them counters and stored messages are stable.

import (
	"bytes"
	"fmt"
	"strconv"
	"strings"
	"testing"
	"time"

	"github.com/quickfixgo/quickfix"
	"github.com/quickfixgo/quickfix/config"
	"pgregory.net/rapid"

	"verif/fixwire"
	"verif/peer"
	"verif/rig"
	"verif/stats"
	"verif/vk"
)

const c07Rule = "all 16 combinations of ResetOnLogon/ResetOnLogout/ResetOnDisconnect/RefreshOnLogon x role x BeginString x store (memory, file, sqlite) x plain / optional-field session identity, generated starting counters, then a state machine: traffic, peer logout, disconnect, reconnect with a faithful or a ResetSeqNumFlag-carrying counterparty, an application that leaves its Logon alone, adds ResetSeqNumFlag=N or (initiator) sets ResetSeqNumFlag=Y in ToAdmin, reset-time crossings, restarts on the persistent store, SequenceReset messages over NewSeqNo {<,=,>expected} x GapFillFlag {Y,N,absent} x MsgSeqNum {expected, above, below+PossDup}, ResetSeqTime at a drawn hour in a drawn zone with the tick values expressed in another; non-trivial = history with a reconnect at non-initial counters, a reset negotiation, or a SequenceReset that changes or must not change the expected number; distinct = distinct history"

func c07() *stats.Collector {
	c := stats.Get("C07")
	c.SetRule(c07Rule)
	return c
}

type c07opts struct {
	resetOnLogon, resetOnLogout, resetOnDisconnect, refreshOnLogon bool
	resetSeqTime                                                   bool
}

type c07mon struct {
	o        c07opts
	feat     map[string]bool
	stored   map[int][]byte // messages seen in the store, by number (cleared on a justified reset)
	lastS    int
	lastT    int
	sentFlag bool // the engine's last Logon on this connection carried 141=Y
}

func (m *c07mon) after(s *sim, st rig.StepResult, ctx stepCtx) {
	c := s.c
	S, T := s.r.S(), s.r.T()
	connectedAfter := s.r.V.IsConnected()
	inbound141 := ctx.kind == "in" && ctx.msgType == "A" && fixwire.GetS(ctx.fields, 141) == "Y"
	// outbound Logons of this step
	sentLogonWithFlag := false
	for _, e := range s.r.Outs(st) {
		if e.MsgType != "A" {
			continue
		}
		if fixwire.GetS(e.Fields, 141) == "Y" {
			sentLogonWithFlag = true
			m.sentFlag = true
			if e.Seq != 1 {
				vk.Violation(s.t, c, "C07/logon-with-reset-flag-not-number-1", "outbound Logon carries ResetSeqNumFlag=Y but MsgSeqNum %d\n%s", e.Seq, s.history())
			}
		} else {
			m.sentFlag = false
		}
	}
	resets := 0
	for _, e := range s.r.Entries(st) {
		if e.Kind == "store.Reset" {
			resets++
		}
	}
	disconnectedNow := ctx.connectedBefore && !connectedAfter
	justified := false
	var why []string
	echoOfOwnReset := inbound141 && s.cfg.initiator && m.sentFlag && ctx.stateBefore == "logon" && !sentLogonWithFlag
	// a Logon only negotiates or triggers anything if it is accepted: one that the application (or
	// validation) refuses leaves counters and stored messages alone
	logonAccepted := ctx.kind == "in" && ctx.msgType == "A" && s.r.V.IsLoggedOn()
	if inbound141 && !echoOfOwnReset && logonAccepted {
		// (the answer to the engine's own Logon-with-flag only echoes a reset that has already happened)
		justified, why = true, append(why, "Logon with ResetSeqNumFlag=Y received")
	}
	if sentLogonWithFlag {
		justified, why = true, append(why, "Logon with ResetSeqNumFlag=Y sent")
	}
	if logonAccepted && !s.cfg.initiator && m.o.resetOnLogon {
		justified, why = true, append(why, "acceptor with ResetOnLogon received a Logon")
	}
	if ctx.kind == "connect" && s.cfg.initiator && m.o.resetOnLogon {
		justified, why = true, append(why, "initiator with ResetOnLogon connects")
	}
	if ctx.kind == "in" && ctx.msgType == "5" && m.o.resetOnLogout {
		justified, why = true, append(why, "ResetOnLogout at logout")
	}
	if disconnectedNow && m.o.resetOnDisconnect {
		justified, why = true, append(why, "ResetOnDisconnect at disconnect")
	}
	if resets > 0 && !justified {
		vk.Violation(s.t, c, "C07/unjustified-reset/"+ctx.kind+"-"+ctx.msgType, "the store was reset in a %s step (%s) although no reset option or negotiation applies (options %+v)\n%s", ctx.kind, ctx.msgType, m.o, s.history())
	}
	if resets > 0 {
		m.stored = map[int][]byte{}
		m.feat["reset"] = true
	}
	// ---- conditions that must produce the reset
	if disconnectedNow && m.o.resetOnDisconnect && (S != 1 || T != 1) {
		vk.Violation(s.t, c, "C07/reset-on-disconnect-missing", "after the disconnect the counters are S=%d T=%d, expected 1/1\n%s", S, T, s.history())
	}
	if ctx.kind == "in" && ctx.msgType == "5" && ctx.wellFormed && ctx.loggedOnBefore && m.o.resetOnLogout && !connectedAfter && !(m.o.resetOnDisconnect) {
		if S != 1 || T != 1 {
			vk.Violation(s.t, c, "C07/reset-on-logout-missing", "after the logout the counters are S=%d T=%d, expected 1/1\n%s", S, T, s.history())
		}
	}
	// ResetOnLogon applies: the Logon the engine sends (initiator: at connect; acceptor: in reply to
	// the accepted Logon) is number 1 of a reset store. The option is the same for every BeginString;
	// only the flag that announces the reset does not exist before FIX.4.1.
	if m.o.resetOnLogon && (ctx.kind == "connect" && s.cfg.initiator || logonAccepted && !s.cfg.initiator) {
		for _, e := range s.r.Outs(st) {
			if e.MsgType != "A" {
				continue
			}
			m.feat["logon-under-ResetOnLogon"] = true
			role := "acceptor"
			if s.cfg.initiator {
				role = "initiator"
			}
			if e.Seq != 1 || resets == 0 {
				vk.Violation(s.t, c, "C07/reset-on-logon-missing/"+role, "ResetOnLogon=Y: the %s's Logon has MsgSeqNum %d, store resets in this step: %d (counters before S=%d T=%d, after S=%d T=%d)\n%s", role, e.Seq, resets, ctx.sBefore, ctx.tBefore, S, T, s.history())
			}
			if s.cfg.initiator && (S != 2 || T != 1) {
				vk.Violation(s.t, c, "C07/reset-on-logon-missing/initiator-counters", "ResetOnLogon=Y: after the initiator's Logon the counters are S=%d T=%d, expected 2/1\n%s", S, T, s.history())
			}
		}
	}
	if inbound141 && ctx.wellFormed && ctx.stateBefore == "logon" && s.r.V.IsLoggedOn() && s.cfg.begin != "FIX.4.0" {
		m.feat["reset-negotiated"] = true
		if ctx.seq != 1 {
			// a Logon with the flag that is not number 1 is outside the statement
		} else if !s.cfg.initiator {
			var reply *rig.Entry
			for _, e := range s.r.Outs(st) {
				if e.MsgType == "A" {
					e := e
					reply = &e
				}
			}
			if reply == nil || fixwire.GetS(reply.Fields, 141) != "Y" || reply.Seq != 1 {
				vk.Violation(s.t, c, "C07/reset-not-echoed", "the reply to a Logon with ResetSeqNumFlag=Y must be number 1 and echo the flag\n%s", s.history())
			}
			if T != 2 {
				vk.Violation(s.t, c, "C07/negotiated-reset-counters", "after the negotiated reset the expected number is %d, want 2\n%s", T, s.history())
			}
		} else if m.sentFlag {
			if T != 2 {
				vk.Violation(s.t, c, "C07/negotiated-reset-counters", "after the negotiated reset the expected number is %d, want 2\n%s", T, s.history())
			}
		} else {
			// the engine's own Logon on this connection did not carry the flag: the counterparty's
			// Logon (number 1, flag set) is a reset the engine has to follow - both sides number from 1
			m.feat["reset-requested-by-logon-answer"] = true
			if resets == 0 || T != 2 || S != 1 {
				vk.Violation(s.t, c, "C07/received-reset-flag-not-followed", "Logon answer with ResetSeqNumFlag=Y (number 1): store resets in this step %d, counters S=%d T=%d, expected a reset and S=1 T=2\n%s", resets, S, T, s.history())
			}
		}
	}
	// ---- stability outside of resets
	if resets == 0 {
		if S < m.lastS {
			vk.Violation(s.t, c, "C07/outbound-counter-moved-backwards", "S %d -> %d without a reset\n%s", m.lastS, S, s.history())
		}
		if T < m.lastT {
			vk.Violation(s.t, c, "C07/inbound-counter-moved-backwards", "T %d -> %d without a reset\n%s", m.lastT, T, s.history())
		}
		if ctx.kind == "disconnect" || ctx.kind == "connect" && !s.cfg.initiator {
			if S != m.lastS || T != m.lastT {
				vk.Violation(s.t, c, "C07/counters-changed-by-"+ctx.kind, "S %d -> %d, T %d -> %d\n%s", m.lastS, S, m.lastT, T, s.history())
			}
		}
		// stored messages never change or vanish
		if msgs, err := s.r.Store().GetMessages(1, S-1); err == nil {
			byNum := map[int][]byte{}
			for _, b := range msgs {
				fs, _ := fixwire.Scan(b, map[int]int{212: 213})
				if n, ok := fixwire.GetInt(fs, 34); ok {
					byNum[n] = b
				}
			}
			for n, old := range m.stored {
				if cur, ok := byNum[n]; !ok || !bytes.Equal(cur, old) {
					vk.Violation(s.t, c, "C07/stored-message-changed", "message %d in the store changed or vanished without a reset (present %v)\n%s", n, ok, s.history())
				}
			}
			m.stored = byNum
		}
	}
	m.lastS, m.lastT = S, T
	// ---- outbound Logon without the flag continues the numbering
	for _, e := range s.r.Outs(st) {
		if e.MsgType == "A" && fixwire.GetS(e.Fields, 141) != "Y" && resets == 0 && e.Seq != ctx.sBefore {
			vk.Violation(s.t, c, "C07/logon-does-not-continue-numbering", "outbound Logon has MsgSeqNum %d, the next outbound number was %d\n%s", e.Seq, ctx.sBefore, s.history())
		}
	}
}

// seqReset injects one SequenceReset and checks the forward-only rule.
func (m *c07mon) seqReset(t *rapid.T, s *sim) {
	c := s.c
	T := s.r.T()
	S := s.r.S()
	rel := rapid.SampledFrom([]string{"lower", "lower", "equal", "higher", "higher"}).Draw(t, "newseq")
	ns := T
	switch rel {
	case "lower":
		if T == 1 {
			rel = "equal"
		} else {
			ns = T - rapid.IntRange(1, min(T-1, 5)).Draw(t, "down")
		}
	case "higher":
		ns = T + rapid.IntRange(1, 20).Draw(t, "up")
	}
	gf := rapid.SampledFrom([]string{"Y", "N", ""}).Draw(t, "gapfill")
	seqRel := rapid.SampledFrom([]string{"at", "at", "above", "below"}).Draw(t, "seq")
	seq := T
	o := peer.Opt{}
	switch seqRel {
	case "above":
		seq = T + rapid.IntRange(1, 4).Draw(t, "seq-up")
	case "below":
		if T == 1 {
			seqRel = "at"
		} else {
			seq = T - 1
			o.PossDup = "Y"
			o.OrigSending = s.p.Stamp(time.Now().Add(-time.Second))
		}
	}
	body := []fixwire.Field{fixwire.F(36, strconv.Itoa(ns))}
	if gf != "" {
		body = append([]fixwire.Field{fixwire.F(123, gf)}, body...)
	}
	f := s.p.Frame("4", seq, body, o)
	ctx := s.ctxFor("in", f, false)
	ctx.wellFormed = true
	s.logf("SequenceReset gapfill=%q seq=%s(%d) NewSeqNo=%s(%d) T=%d: %s", gf, seqRel, seq, rel, ns, T, vk.Show(f))
	st := s.r.In(f)
	s.observe(st, ctx)
	s.react(st)
	s.flush()
	T2 := s.r.T()
	gapFill := gf == "Y"
	applies := !gapFill || seqRel == "at" // Reset mode ignores MsgSeqNum; GapFill mode only in sequence
	cls := fmt.Sprintf("%s/gapfill=%s/seq=%s", rel, gf, seqRel)
	m.feat["sequence-reset:"+rel] = true
	rejects := 0
	for _, e := range s.r.Outs(st) {
		if e.MsgType == "3" {
			rejects++
		}
	}
	switch {
	case rel == "lower" && applies:
		if T2 != T {
			vk.Violation(s.t, c, "C07/sequence-reset-moved-backwards/"+cls, "NewSeqNo %d below the expected %d changed it to %d\n%s", ns, T, T2, s.history())
		}
		if rejects != 1 {
			vk.Violation(s.t, c, "C07/sequence-reset-lower-not-rejected/"+cls, "NewSeqNo %d below the expected %d: %d Rejects sent\n%s", ns, T, rejects, s.history())
		}
	case rel == "higher" && applies:
		if T2 != ns {
			vk.Violation(s.t, c, "C07/sequence-reset-forward-not-applied/"+cls, "NewSeqNo %d, expected number now %d (was %d)\n%s", ns, T2, T, s.history())
		}
	case rel == "equal" && applies:
		if T2 != T {
			vk.Violation(s.t, c, "C07/sequence-reset-equal-changed/"+cls, "NewSeqNo equal to the expected %d changed it to %d\n%s", T, T2, s.history())
		}
	default:
		// gap fill out of sequence: must not move the expected number at all
		if T2 != T {
			vk.Violation(s.t, c, "C07/gapfill-out-of-sequence-applied/"+cls, "a GapFill with MsgSeqNum %d (expected %d) moved the expected number to %d\n%s", seq, T, T2, s.history())
		}
	}
	_ = S
}

func c07Property(t *rapid.T) {
	c := c07()
	o := c07opts{
		resetOnLogon: rapid.Bool().Draw(t, "ResetOnLogon"), resetOnLogout: rapid.Bool().Draw(t, "ResetOnLogout"),
		resetOnDisconnect: rapid.Bool().Draw(t, "ResetOnDisconnect"), refreshOnLogon: rapid.Bool().Draw(t, "RefreshOnLogon"),
		resetSeqTime: rapid.IntRange(0, 3).Draw(t, "ResetSeqTime") == 0,
	}
	cfg := simCfg{begin: rapid.SampledFrom(allBegins).Draw(t, "begin"), initiator: rapid.Bool().Draw(t, "initiator"), hb: 30,
		store: rapid.SampledFrom([]string{"memory", "file", "sql"}).Draw(t, "store"), settings: map[string]string{}}
	cfg.richID = rapid.Bool().Draw(t, "identity-with-optional-fields")
	cfg.peerNoReset = rapid.Bool().Draw(t, "peer-logons-say-141=N")
	yn := func(b bool) string {
		if b {
			return "Y"
		}
		return "N"
	}
	cfg.settings[config.ResetOnLogon] = yn(o.resetOnLogon)
	cfg.settings[config.ResetOnLogout] = yn(o.resetOnLogout)
	cfg.settings[config.ResetOnDisconnect] = yn(o.resetOnDisconnect)
	cfg.settings[config.RefreshOnLogon] = yn(o.refreshOnLogon)
	// the reset time is a time of day in the configured zone; the ticks that reach the session carry
	// the same instants expressed in whatever zone the machine's clock uses
	resetZone, tickZone := time.UTC, time.UTC
	resetHour := 12
	if o.resetSeqTime {
		load := func(n string) *time.Location {
			if l, err := time.LoadLocation(n); err == nil {
				return l
			}
			return time.UTC
		}
		resetZone = load(rapid.SampledFrom([]string{"UTC", "UTC", "Asia/Tokyo", "America/New_York"}).Draw(t, "reset-zone"))
		tickZone = load(rapid.SampledFrom([]string{"UTC", "UTC", "Asia/Tokyo", "America/New_York", "Australia/Sydney"}).Draw(t, "tick-zone"))
		resetHour = rapid.SampledFrom([]int{12, 12, 0, 1, 8, 22, 23}).Draw(t, "reset-hour")
		cfg.settings[config.ResetSeqTime] = fmt.Sprintf("%02d:00:00", resetHour)
		if resetZone != time.UTC {
			cfg.settings[config.TimeZone] = resetZone.String()
		}
		if resetZone.String() != tickZone.String() {
			c.Class("reset-time:zone-of-the-ticks-differs-from-the-configured-zone")
		}
	}
	s := newSim(t, c, cfg)
	defer s.close()
	// starting counters
	S0 := rapid.SampledFrom([]int{1, 1, 2, 7, 40}).Draw(t, "S0")
	T0 := rapid.SampledFrom([]int{1, 1, 3, 9, 25}).Draw(t, "T0")
	_ = s.r.Store().SetNextSenderMsgSeqNum(S0)
	_ = s.r.Store().SetNextTargetMsgSeqNum(T0)
	s.p.NextOut = T0
	mon := &c07mon{o: o, feat: map[string]bool{}, stored: map[int][]byte{}, lastS: S0, lastT: T0}
	s.after = append(s.after, mon.after)
	anyResetOption := o.resetOnLogon || o.resetOnLogout || o.resetOnDisconnect
	logonCycle := func(t *rapid.T) {
		if s.r.V.IsConnected() {
			return
		}
		s.link, s.pendingReplays = nil, nil
		peerResets := s.cfg.begin != "FIX.4.0" && rapid.IntRange(0, 3).Draw(t, "peer-sends-reset-flag") == 0
		// the application may edit its outgoing Logon in ToAdmin: an explicit ResetSeqNumFlag=N
		// (changes nothing), or - initiator - ResetSeqNumFlag=Y (asks for a reset: a negotiation)
		appEdit := rapid.SampledFrom([]string{"", "", "", "N", "N", "Y"}).Draw(t, "application-edits-logon")
		if appEdit == "Y" && (!s.cfg.initiator || s.cfg.begin == "FIX.4.0") {
			appEdit = ""
		}
		s.r.EditAdmin = func(m *quickfix.Message) {
			if mt, _ := m.Header.GetString(35); mt != "A" {
				return
			}
			switch appEdit {
			case "N":
				if !m.Body.Has(141) {
					m.Body.SetBool(141, false)
				}
			case "Y":
				m.Body.SetBool(141, true)
			}
		}
		defer func() { s.r.EditAdmin = nil }()
		// the application may refuse the counterparty's Logon (FromAdmin returns RejectLogon)
		refuseLogon := rapid.IntRange(0, 5).Draw(t, "application-refuses-logon") == 0
		s.r.FromAdminErr = func(m *quickfix.Message) quickfix.MessageRejectError {
			if mt, _ := m.Header.GetString(35); mt == "A" && refuseLogon {
				mon.feat["application-refused-logon"] = true
				return quickfix.RejectLogon{Text: "refused by the application"}
			}
			return nil
		}
		defer func() { s.r.FromAdminErr = nil }()
		if appEdit != "" {
			mon.feat["application-sets-ResetSeqNumFlag="+appEdit] = true
			s.logf("the application will set 141=%s on its Logon", appEdit)
		}
		if !s.connect() {
			t.Fatalf("harness: connect refused\n%s", s.history())
		}
		if s.cfg.initiator && rapid.IntRange(0, 4).Draw(t, "logon-unanswered") == 0 {
			// nobody answers: the logon times out (no disconnect event is delivered on this path)
			how := rapid.SampledFrom([]string{"logon-timeout", "connection-closed"}).Draw(t, "ends-by")
			if how == "logon-timeout" {
				s.timer(2)
			} else {
				s.disconnect()
			}
			mon.feat["unanswered-logon:"+how] = true
			if s.r.V.IsConnected() {
				s.disconnect()
			}
			if !s.connect() {
				t.Fatalf("harness: reconnect refused\n%s", s.history())
			}
		}
		// an initiator whose Logon carries the flag has reset: a faithful counterparty follows
		engineFlag := false
		for i := len(s.r.Trace) - 1; i >= 0 && s.r.Trace[i].Step == s.r.Step; i-- {
			if e := s.r.Trace[i]; e.Kind == "out" && e.MsgType == "A" && fixwire.GetS(e.Fields, 141) == "Y" {
				engineFlag = true
			}
		}
		if engineFlag || peerResets {
			s.p.NextOut = 1
			s.p.History = map[int]*peer.Sent{}
		} else if !s.cfg.initiator && o.resetOnLogon {
			// an acceptor configured with ResetOnLogon expects the counterparty to start at 1 as well
			s.p.NextOut = 1
			s.p.History = map[int]*peer.Sent{}
		} else if s.p.NextOut < s.r.T() {
			s.p.NextOut = s.r.T()
		}
		if S, T := s.r.S(), s.r.T(); (S > 2 || T > 1) && !anyResetOption && !peerResets {
			mon.feat["reconnect-at-non-initial-counters"] = true
		}
		_, f := s.p.Next("A", s.p.LogonBody(30, engineFlag || peerResets))
		s.deliver(f, true)
		if !s.r.V.IsLoggedOn() {
			// e.g. the engine refused; bring the link down cleanly so that the machine can go on
			if s.r.V.IsConnected() {
				s.disconnect()
			}
		}
	}
	logonCycle(t)
	resetAt := time.Date(2024, 5, 6, resetHour, 0, 0, 0, resetZone) // today's reset instant
	resetClock := resetAt.Add(-time.Hour)
	nextDay := func() {
		resetAt = resetAt.AddDate(0, 0, 1)
		resetClock = resetAt.Add(-time.Hour)
	}
	afterNoon, quietTicks := false, 0
	quiet := func(now time.Time, what string) {
		ctx := s.ctxFor("resetcheck", nil, false)
		st := s.r.CheckResetTime(now.In(tickZone))
		s.logf("%s (virtual clock %s)", what, now.Format("Jan 2 15:04"))
		s.observe(st, ctx)
		resets := 0
		for _, e := range s.r.Entries(st) {
			if e.Kind == "store.Reset" {
				resets++
			}
		}
		if outs := s.r.Outs(st); resets > 0 || len(outs) > 0 {
			vk.Violation(t, c, "C07/reset-time-acts-without-crossing", "%s: %d store resets, %d messages sent although the reset time was not crossed while connected\n%s", what, resets, len(outs), s.history())
		}
	}
	t.Repeat(map[string]func(*rapid.T){
		"traffic": func(t *rapid.T) {
			if !s.r.V.IsLoggedOn() {
				return // not logged on (a no-op step: rapid gives up when too many draws in a row are skipped)
			}
			if rapid.Bool().Draw(t, "inbound") {
				s.peerLive(rapid.SampledFrom([]string{"D", "0", "1"}).Draw(t, "type"), false)
				s.pumpOne()
			} else {
				s.engineSend()
				s.flush()
			}
		},
		"peerLogout": func(t *rapid.T) {
			if !s.r.V.IsLoggedOn() {
				return // not logged on (a no-op step: rapid gives up when too many draws in a row are skipped)
			}
			// the Logout usually carries the next number; a counterparty whose counter is behind
			// (or ahead) still logs out, and ResetOnLogout still applies
			var f []byte
			switch d := rapid.SampledFrom([]int{0, 0, 0, 0, -1, -2, 2}).Draw(t, "logout-number"); {
			case d == 0 || s.r.T()+d < 1:
				_, f = s.p.Next("5", nil)
			default:
				f = s.p.Frame("5", s.r.T()+d, nil, peer.Opt{})
				mon.feat[fmt.Sprintf("logout-numbered-%+d", d)] = true
			}
			s.deliver(f, true)
			if s.r.V.IsConnected() {
				s.disconnect()
			}
			mon.feat["logout"] = true
		},
		"disconnect": func(t *rapid.T) {
			if !s.r.V.IsConnected() {
				return // not connected (a no-op step: rapid gives up when too many draws in a row are skipped)
			}
			s.disconnect()
			mon.feat["disconnect"] = true
		},
		"reconnect": func(t *rapid.T) {
			if s.r.V.IsConnected() {
				return // connected (a no-op step: rapid gives up when too many draws in a row are skipped)
			}
			logonCycle(t)
		},
		"restart": func(t *rapid.T) {
			// the engine is discarded and recreated on its persistent store: counters and stored
			// messages are what they were (a reset at logout / disconnect has been persisted too)
			if cfg.store == "memory" {
				return
			}
			if s.r.V.IsConnected() {
				s.disconnect()
			}
			S, T := s.r.S(), s.r.T()
			before, _ := s.r.Store().GetMessages(1, S-1)
			s.restart()
			mon.feat["restart"] = true
			if s.r.S() != S || s.r.T() != T {
				vk.Violation(t, c, "C07/counters-changed-by-restart/"+cfg.store, "before the restart S=%d T=%d, after it S=%d T=%d\n%s", S, T, s.r.S(), s.r.T(), s.history())
			}
			after, _ := s.r.Store().GetMessages(1, S-1)
			if len(after) != len(before) {
				vk.Violation(t, c, "C07/stored-messages-changed-by-restart/"+cfg.store, "%d stored messages before the restart, %d after it\n%s", len(before), len(after), s.history())
			}
			for i := range before {
				if i < len(after) && !bytes.Equal(before[i], after[i]) {
					vk.Violation(t, c, "C07/stored-messages-changed-by-restart/"+cfg.store, "stored message %d differs after the restart\n%s", i, s.history())
				}
			}
		},
		"apiSetCounters": func(t *rapid.T) {
			// the operator sets a counter through the API between connections (also to a lower
			// value): that value is the counter from then on, across reconnects and restarts
			if s.r.V.IsConnected() {
				return
			}
			S, T := s.r.S(), s.r.T()
			if rapid.Bool().Draw(t, "sender") {
				// (outbound: only upwards - numbers that still have stored messages are not handed
				// out again; what a store does with a second save under one number is not specified)
				v := rapid.IntRange(S, S+120).Draw(t, "value")
				if err := s.r.Store().SetNextSenderMsgSeqNum(v); err != nil {
					t.Fatalf("harness: SetNextSenderMsgSeqNum: %v", err)
				}
				s.logf("API: next outbound number %d -> %d", S, v)
				for n := range mon.stored {
					if n >= v {
						delete(mon.stored, n) // numbers from v on will be used again
					}
				}
				mon.lastS = v
			} else {
				v := rapid.OneOf(rapid.IntRange(1, T), rapid.IntRange(T, T+120)).Draw(t, "value")
				if err := s.r.Store().SetNextTargetMsgSeqNum(v); err != nil {
					t.Fatalf("harness: SetNextTargetMsgSeqNum: %v", err)
				}
				s.logf("API: next inbound number %d -> %d", T, v)
				mon.lastT = v
				s.p.NextOut = v
			}
			mon.feat["counter-set-through-api"] = true
		},
		"sequenceReset": func(t *rapid.T) {
			if s.r.V.StateName() != "inSession" {
				return // not in the normal logged-on state (a no-op step: rapid gives up when too many draws in a row are skipped)
			}
			mon.seqReset(t, s)
			if !s.r.V.IsConnected() {
				return
			}
			// keep the counterparty in step with the expected number
			if s.p.NextOut < s.r.T() {
				s.p.NextOut = s.r.T()
			}
		},
		"quietTick": func(t *rapid.T) {
			// a once-a-second tick that does not cross the reset time (it is 11:xx, or already past
			// noon after the time went by while nobody was connected): nothing is reset, nothing sent
			if !o.resetSeqTime || quietTicks >= 50 {
				return
			}
			quietTicks++
			resetClock = resetClock.Add(time.Minute)
			quiet(resetClock, "quiet tick")
			if afterNoon && s.r.V.IsLoggedOn() {
				mon.feat["tick-after-the-reset-time-went-by-while-down"] = true
				// next day, 11:00
				nextDay()
				afterNoon, quietTicks = false, 0
			}
		},
		"resetTimeWhileDown": func(t *rapid.T) {
			// the configured time goes by while nobody is connected: that resets nothing, neither now
			// nor at the first tick after the next logon
			if !o.resetSeqTime || s.r.V.IsConnected() || afterNoon {
				return
			}
			quiet(resetClock, "tick before the reset time, not connected")
			resetClock = resetAt.Add(time.Hour)
			quiet(resetClock, "tick after the reset time, not connected")
			afterNoon, quietTicks = true, 0
			mon.feat["reset-time-went-by-while-down"] = true
		},
		"resetTime": func(t *rapid.T) {
			if !o.resetSeqTime || !s.r.V.IsLoggedOn() || afterNoon {
				return // no ResetSeqTime / not logged on (a no-op step: rapid gives up when too many draws in a row are skipped)
			}
			// two run-loop ticks: one before, one after the configured reset time
			ctx := s.ctxFor("resetcheck", nil, false)
			st := s.r.CheckResetTime(resetClock.In(tickZone))
			s.observe(st, ctx)
			// (the run loop ticks once a second: the tick before the configured instant and the one after)
			ctx = s.ctxFor("resetcheck", nil, false)
			st = s.r.CheckResetTime(resetAt.Add(-time.Second).In(tickZone))
			s.observe(st, ctx)
			resetClock = resetAt.Add(time.Second)
			ctx = s.ctxFor("resetcheck", nil, false)
			st = s.r.CheckResetTime(resetClock.In(tickZone))
			s.observe(st, ctx)
			s.logf("reset time crossed (virtual clock %s)", resetClock.Format("15:04"))
			afterReset := resetClock.Add(5 * time.Minute)
			nextDay()
			quietTicks = 0
			sent := false
			for _, e := range s.r.Outs(st) {
				if e.MsgType == "A" && fixwire.GetS(e.Fields, 141) == "Y" {
					sent = true
				}
			}
			if !sent && s.cfg.begin != "FIX.4.0" {
				vk.Violation(t, c, "C07/reset-time-no-logon", "crossing ResetSeqTime did not send a Logon with ResetSeqNumFlag=Y\n%s", s.history())
			}
			if sent {
				mon.feat["reset-time-crossed"] = true
				// the faithful counterparty resets too and answers
				s.p.NextOut = 1
				s.p.History = map[int]*peer.Sent{}
				_, f := s.p.Next("A", s.p.LogonBody(30, true))
				s.deliver(f, true)
				if s.r.V.IsConnected() && s.r.T() != 2 {
					vk.Violation(t, c, "C07/negotiated-reset-counters", "after the reset-time negotiation the expected number is %d, want 2\n%s", s.r.T(), s.history())
				}
				// the reset happens once: the ticks that follow on the same day do nothing
				quiet(afterReset, "tick a few minutes after the reset")
			}
		},
	})
	c.Eval()
	c.Class(fmt.Sprintf("options:logon=%v,logout=%v,disconnect=%v,refresh=%v", o.resetOnLogon, o.resetOnLogout, o.resetOnDisconnect, o.refreshOnLogon))
	c.Class("role:" + map[bool]string{true: "initiator", false: "acceptor"}[cfg.initiator])
	c.Class("store:" + cfg.store)
	for k := range mon.feat {
		c.Class("history-with:" + k)
	}
	if mon.feat["reconnect-at-non-initial-counters"] || mon.feat["reset-negotiated"] || mon.feat["sequence-reset:lower"] || mon.feat["sequence-reset:higher"] || mon.feat["reset-time-crossed"] {
		c.NonTrivial(stats.Hash(strings.Join(s.log, "\n")))
		c.SampleClass(fmt.Sprintf("logon=%v,logout=%v,disconnect=%v", o.resetOnLogon, o.resetOnLogout, o.resetOnDisconnect), map[string]interface{}{"config": cfg.String(), "start": []int{S0, T0}, "history_tail": tail(s.log, 18)})
	}
}

func TestC07_Rapid(t *testing.T) {
	rapid.Check(t, func(t *rapid.T) {
		vk.Guard(func() { c07Property(t) })
	})
}

package store

// C16 - every message store behaves like the same abstract store, durably.
// rapid state machine; reference model = two counters, creation time, map seq -> bytes.

import (
	"bytes"
	"errors"
	"fmt"
	"os"
	"path/filepath"
	"sort"
	"strings"
	"testing"
	"time"

	"github.com/quickfixgo/quickfix"
	"pgregory.net/rapid"

	"verif/stats"
	"verif/storekit"
	"verif/vk"
)

const c16Rule = "rapid state machine over 1-3 sessions sharing one directory/database: set/incr counters, save, save-and-increment (ascending numbers per epoch, gaps allowed), get/iterate over arbitrary ranges, iterate with aborting callback, refresh, reset, close+reopen, second fresh instance; every return value compared with an in-memory model after every action, a store reopened on a session file left empty or half-written; non-trivial = history with a save later followed by a refresh/reopen/second instance and a read; distinct = distinct operation trace"

func c16() *stats.Collector {
	c := stats.Get("C16")
	c.SetRule(c16Rule)
	return c
}

type storeModel struct {
	sender, target int
	msgs           map[int][]byte
	created        time.Time
	lastSaved      int
}

func newStoreModel() *storeModel { return &storeModel{sender: 1, target: 1, msgs: map[int][]byte{}} }

func (m *storeModel) rangeOf(b, e int) [][]byte {
	var keys []int
	for k := range m.msgs {
		if k >= b && k <= e {
			keys = append(keys, k)
		}
	}
	sort.Ints(keys)
	var out [][]byte
	for _, k := range keys {
		out = append(out, m.msgs[k])
	}
	return out
}

type storeUnderTest struct {
	id      quickfix.SessionID
	st      quickfix.MessageStore
	model   *storeModel
	factory quickfix.MessageStoreFactory
	// sessionFile: (file stores) the file this store keeps its creation time in, learnt by looking at
	// what appeared in the directory when the store was first created ("" when that was not exactly one file)
	sessionFile string
}

func genSessionIDs(t *rapid.T, n int) []quickfix.SessionID {
	comp := rapid.SampledFrom([]string{"A", "B", "AB", "A_B", "A-B", "X"})
	opt := rapid.SampledFrom([]string{"", "", "B", "S", "L", "A_B"})
	seen := map[quickfix.SessionID]bool{}
	var ids []quickfix.SessionID
	for len(ids) < n {
		id := quickfix.SessionID{
			BeginString:  rapid.SampledFrom([]string{"FIX.4.2", "FIX.4.4", "FIXT.1.1"}).Draw(t, "begin"),
			SenderCompID: comp.Draw(t, "sender"), TargetCompID: comp.Draw(t, "target"),
			SenderSubID: opt.Draw(t, "ssub"), SenderLocationID: opt.Draw(t, "sloc"),
			TargetSubID: opt.Draw(t, "tsub"), TargetLocationID: opt.Draw(t, "tloc"),
			Qualifier: rapid.SampledFrom([]string{"", "", "q", "B"}).Draw(t, "qual"),
		}
		if len(ids) > 0 && rapid.Bool().Draw(t, "near") {
			// differ from the first session in exactly one component
			id = ids[0]
			switch rapid.IntRange(0, 9).Draw(t, "which") {
			case 7:
				id.TargetSubID += "x"
			case 8:
				id.SenderLocationID += "x"
			case 9:
				id.TargetCompID += "x"
			case 5:
				// same characters, different split between CompID and SubID
				if i := strings.IndexByte(id.SenderCompID, '_'); i > 0 && id.SenderSubID == "" {
					id.SenderCompID, id.SenderSubID = id.SenderCompID[:i], id.SenderCompID[i+1:]
				} else if id.SenderSubID != "" {
					id.SenderCompID, id.SenderSubID = id.SenderCompID+"_"+id.SenderSubID, ""
				} else {
					id.SenderSubID = "y"
				}
			case 6:
				// same characters, different split between TargetCompID and qualifier
				if i := strings.IndexByte(id.TargetCompID, '-'); i > 0 && id.Qualifier == "" && id.TargetSubID == "" && id.TargetLocationID == "" {
					id.TargetCompID, id.Qualifier = id.TargetCompID[:i], id.TargetCompID[i+1:]
				} else if id.Qualifier != "" && id.TargetSubID == "" && id.TargetLocationID == "" {
					id.TargetCompID, id.Qualifier = id.TargetCompID+"-"+id.Qualifier, ""
				} else {
					id.Qualifier += "z"
				}
			case 0:
				id.Qualifier += "x"
			case 1:
				id.SenderSubID += "x"
			case 2:
				id.TargetLocationID += "x"
			case 3:
				id.SenderCompID += "x"
			case 4:
				id.BeginString = map[string]string{"FIX.4.2": "FIX.4.4", "FIX.4.4": "FIXT.1.1", "FIXT.1.1": "FIX.4.2"}[id.BeginString]
			}
		}
		if !seen[id] {
			seen[id] = true
			ids = append(ids, id)
		}
	}
	return ids
}

// fileNamePrefix mirrors how a reader would expect distinct sessions to map to distinct files;
// computed independently to classify (not to judge) a collision.
func idKey(id quickfix.SessionID) string {
	join := func(p ...string) string {
		var l []string
		for _, x := range p {
			if x != "" {
				l = append(l, x)
			}
		}
		return strings.Join(l, "_")
	}
	k := id.BeginString + "-" + join(id.SenderCompID, id.SenderSubID, id.SenderLocationID) + "-" + join(id.TargetCompID, id.TargetSubID, id.TargetLocationID)
	if id.Qualifier != "" {
		k += "-" + id.Qualifier
	}
	return k
}

func genMsgBytes(t *rapid.T) []byte {
	switch rapid.IntRange(0, 9).Draw(t, "mk") {
	case 0:
		return []byte{}
	case 1:
		return []byte("a,b\nc\r\n1,2,3\n")
	case 2:
		return []byte{0, 1, 0, 255, 254, 0}
	case 3:
		return bytes.Repeat([]byte("0123456789abcdef"), rapid.IntRange(1, 256).Draw(t, "rep"))
	case 4:
		return rapid.SliceOfN(rapid.Byte(), 1, 40).Draw(t, "raw")
	default:
		return []byte("8=FIX.4.2\x019=12\x0135=D\x0111=" + rapid.StringMatching(`[a-z0-9]{1,8}`).Draw(t, "id") + "\x0110=000\x01")
	}
}

func c16Machine(t *rapid.T, kind string) {
	c := c16()
	dir := vk.Scratch("c16-")
	defer os.RemoveAll(dir)
	nSess := rapid.IntRange(1, 3).Draw(t, "nsess")
	ids := genSessionIDs(t, nSess)
	collide := false
	keys := map[string]bool{}
	for _, id := range ids {
		if keys[idKey(id)] {
			collide = true
		}
		keys[idKey(id)] = true
	}
	var factory quickfix.MessageStoreFactory
	switch kind {
	case "memory":
		factory = quickfix.NewMemoryStoreFactory()
	case "file-sync":
		factory = storekit.FileFactory(dir, true, ids...)
	case "file-nosync":
		factory = storekit.FileFactory(dir, false, ids...)
	case "sql":
		db := filepath.Join(dir, "store.db")
		if err := storekit.CreateSQLite(db); err != nil {
			t.Fatalf("harness: %v", err)
		}
		factory = storekit.SQLFactory("sqlite3", db, ids...)
	}
	persistent := kind != "memory"
	if collide && strings.HasPrefix(kind, "file") {
		// Two distinct SessionIDs whose components concatenate to the same file-name prefix: probe
		// directly whether they interfere; if so this is the listed finding and the case ends here.
		var a, b quickfix.SessionID
		seen := map[string]quickfix.SessionID{}
		for _, id := range ids {
			if o, ok := seen[idKey(id)]; ok {
				a, b = o, id
			}
			seen[idKey(id)] = id
		}
		if sessionsShareFiles(a, b) {
			vk.Violation(t, c, sigShareFiles, "sessions %v and %v share their store files", a, b)
		}
	}
	fail := func(sig, format string, args ...interface{}) {
		vk.Violation(t, c, "C16/"+kind+"/"+sig, format, args...)
	}
	var suts []*storeUnderTest
	var trace []string
	sessionFiles := func() map[string]bool {
		m := map[string]bool{}
		l, _ := filepath.Glob(filepath.Join(dir, "*.session"))
		for _, f := range l {
			m[f] = true
		}
		return m
	}
	for _, id := range ids {
		before := time.Now()
		had := sessionFiles()
		st, err := factory.Create(id)
		if err != nil {
			fail("create-error", "%v", err)
		}
		after := time.Now()
		mine := ""
		if strings.HasPrefix(kind, "file") && !collide {
			for f := range sessionFiles() {
				if !had[f] {
					if mine != "" {
						mine = ""
						break
					}
					mine = f
				}
			}
		}
		m := newStoreModel()
		ct := st.CreationTime()
		if ct.Before(before.Add(-time.Second)) || ct.After(after.Add(time.Second)) {
			fail("creation-time-not-now", "fresh store creation time %v outside [%v,%v]", ct, before, after)
		}
		m.created = ct
		suts = append(suts, &storeUnderTest{id: id, st: st, model: m, factory: factory, sessionFile: mine})
	}
	defer func() {
		for _, s := range suts {
			if s.st != nil {
				_ = s.st.Close()
			}
		}
	}()
	feat := map[string]bool{}
	savedSinceReopen := false
	compare := func(s *storeUnderTest, st quickfix.MessageStore, who string) {
		if st.NextSenderMsgSeqNum() != s.model.sender {
			fail("sender-counter", "%s: NextSender %d model %d after %v", who, st.NextSenderMsgSeqNum(), s.model.sender, trace)
		}
		if st.NextTargetMsgSeqNum() != s.model.target {
			fail("target-counter", "%s: NextTarget %d model %d after %v", who, st.NextTargetMsgSeqNum(), s.model.target, trace)
		}
		if !st.CreationTime().Equal(s.model.created) {
			fail("creation-time", "%s: creation time %v model %v after %v", who, st.CreationTime(), s.model.created, trace)
		}
		got, err := st.GetMessages(1, s.model.lastSaved+5)
		if err != nil {
			fail("get-error", "%s: GetMessages: %v after %v", who, err, trace)
		}
		want := s.model.rangeOf(1, s.model.lastSaved+5)
		if !sameMsgs(got, want) {
			fail("messages-differ", "%s: GetMessages(all) = %s, model %s after %v", who, showMsgs(got), showMsgs(want), trace)
		}
	}
	t.Repeat(map[string]func(*rapid.T){
		"setCounter": func(t *rapid.T) {
			s := suts[rapid.IntRange(0, len(suts)-1).Draw(t, "s")]
			// small numbers mostly; also values at the 32-bit boundaries and a very large one
			// (increments after those stay far from the integer limit)
			v := rapid.OneOf(rapid.IntRange(1, 2000), rapid.IntRange(1, 2000), rapid.SampledFrom([]int{2147483646, 2147483647, 2147483648, 4294967295, 4294967296, 999999999999, 4611686018427387904})).Draw(t, "v")
			if rapid.Bool().Draw(t, "sender") {
				trace = append(trace, fmt.Sprintf("%d.SetNextSender(%d)", idx(suts, s), v))
				if err := s.st.SetNextSenderMsgSeqNum(v); err != nil {
					fail("op-error", "SetNextSender: %v", err)
				}
				s.model.sender = v
			} else {
				trace = append(trace, fmt.Sprintf("%d.SetNextTarget(%d)", idx(suts, s), v))
				if err := s.st.SetNextTargetMsgSeqNum(v); err != nil {
					fail("op-error", "SetNextTarget: %v", err)
				}
				s.model.target = v
			}
		},
		"incr": func(t *rapid.T) {
			s := suts[rapid.IntRange(0, len(suts)-1).Draw(t, "s")]
			if rapid.Bool().Draw(t, "sender") {
				trace = append(trace, fmt.Sprintf("%d.IncrSender", idx(suts, s)))
				if err := s.st.IncrNextSenderMsgSeqNum(); err != nil {
					fail("op-error", "IncrSender: %v", err)
				}
				s.model.sender++
			} else {
				trace = append(trace, fmt.Sprintf("%d.IncrTarget", idx(suts, s)))
				if err := s.st.IncrNextTargetMsgSeqNum(); err != nil {
					fail("op-error", "IncrTarget: %v", err)
				}
				s.model.target++
			}
		},
		"save": func(t *rapid.T) {
			s := suts[rapid.IntRange(0, len(suts)-1).Draw(t, "s")]
			seq := s.model.lastSaved + 1 + rapid.SampledFrom([]int{0, 0, 0, 1, 3}).Draw(t, "gap")
			b := genMsgBytes(t)
			if rapid.Bool().Draw(t, "andIncr") {
				trace = append(trace, fmt.Sprintf("%d.SaveAndIncr(%d,%dB)", idx(suts, s), seq, len(b)))
				if err := s.st.SaveMessageAndIncrNextSenderMsgSeqNum(seq, b); err != nil {
					fail("op-error", "SaveMessageAndIncr(%d,%q): %v", seq, b, err)
				}
				s.model.sender++
			} else {
				trace = append(trace, fmt.Sprintf("%d.Save(%d,%dB)", idx(suts, s), seq, len(b)))
				if err := s.st.SaveMessage(seq, b); err != nil {
					fail("op-error", "SaveMessage(%d,%q): %v", seq, b, err)
				}
			}
			s.model.msgs[seq] = b
			s.model.lastSaved = seq
			savedSinceReopen = true
			feat["save"] = true
		},
		"get": func(t *rapid.T) {
			s := suts[rapid.IntRange(0, len(suts)-1).Draw(t, "s")]
			hi := s.model.lastSaved + 10
			b := rapid.IntRange(-3, hi).Draw(t, "b")
			e := rapid.OneOf(rapid.IntRange(-3, hi), rapid.SampledFrom([]int{0, 999999, hi})).Draw(t, "e")
			trace = append(trace, fmt.Sprintf("%d.Get(%d,%d)", idx(suts, s), b, e))
			want := s.model.rangeOf(b, e)
			// (a store that panics on a range - the abstract store never does - is reported as such)
			var got [][]byte
			var err error
			iterate := rapid.Bool().Draw(t, "iterate")
			pan := func() (p interface{}) {
				defer func() { p = recover() }()
				if iterate {
					err = s.st.IterateMessages(b, e, func(m []byte) error { got = append(got, append([]byte(nil), m...)); return nil })
				} else {
					got, err = s.st.GetMessages(b, e)
				}
				return nil
			}()
			if pan != nil {
				fail("range-panics", "retrieving [%d,%d] (iterate %v) panicked: %v after %v", b, e, iterate, pan, trace)
			}
			if err != nil || !sameMsgs(got, want) {
				fail("range-differs", "retrieving [%d,%d] (iterate %v) = %s err %v, model %s after %v", b, e, iterate, showMsgs(got), err, showMsgs(want), trace)
			}
			if feat["reopen-after-save"] {
				feat["read-after-reopen"] = true
			}
		},
		"iterateAbort": func(t *rapid.T) {
			s := suts[rapid.IntRange(0, len(suts)-1).Draw(t, "s")]
			want := s.model.rangeOf(1, s.model.lastSaved)
			if len(want) == 0 {
				t.Skip("nothing saved")
			}
			k := rapid.IntRange(1, len(want)).Draw(t, "k")
			trace = append(trace, fmt.Sprintf("%d.IterateAbort(%d)", idx(suts, s), k))
			stop := errors.New("stop here")
			calls := 0
			err := s.st.IterateMessages(1, s.model.lastSaved, func(m []byte) error {
				calls++
				if !bytes.Equal(m, want[calls-1]) {
					fail("range-differs", "aborting iterate: message %d differs", calls)
				}
				if calls == k {
					return stop
				}
				return nil
			})
			if calls != k || !errors.Is(err, stop) {
				fail("abort-semantics", "callback aborting at %d was called %d times, error %v", k, calls, err)
			}
			feat["abort"] = true
		},
		"refresh": func(t *rapid.T) {
			s := suts[rapid.IntRange(0, len(suts)-1).Draw(t, "s")]
			trace = append(trace, fmt.Sprintf("%d.Refresh", idx(suts, s)))
			if err := s.st.Refresh(); err != nil {
				fail("op-error", "Refresh: %v after %v", err, trace)
			}
			if persistent && savedSinceReopen {
				feat["reopen-after-save"] = true
			}
		},
		"reset": func(t *rapid.T) {
			s := suts[rapid.IntRange(0, len(suts)-1).Draw(t, "s")]
			trace = append(trace, fmt.Sprintf("%d.Reset", idx(suts, s)))
			before := time.Now()
			if err := s.st.Reset(); err != nil {
				fail("op-error", "Reset: %v after %v", err, trace)
			}
			after := time.Now()
			ct := s.st.CreationTime()
			if ct.Before(before.Add(-time.Millisecond)) || ct.After(after.Add(time.Millisecond)) {
				fail("reset-creation-time", "creation time after reset %v not in [%v,%v]", ct, before, after)
			}
			s.model = newStoreModel()
			s.model.created = ct
			feat["reset"] = true
		},
		"reopen": func(t *rapid.T) {
			if !persistent {
				t.Skip("memory store")
			}
			s := suts[rapid.IntRange(0, len(suts)-1).Draw(t, "s")]
			trace = append(trace, fmt.Sprintf("%d.CloseReopen", idx(suts, s)))
			if err := s.st.Close(); err != nil {
				fail("op-error", "Close: %v", err)
			}
			st, err := s.factory.Create(s.id)
			if err != nil {
				s.st = nil
				fail("reopen-error", "reopen: %v after %v", err, trace)
			}
			s.st = st
			if savedSinceReopen {
				feat["reopen-after-save"] = true
			}
		},
		"reopenAfterInterruptedSessionFileWrite": func(t *rapid.T) {
			// the directory a process leaves behind that died between creating its session file and
			// writing the time into it (or lost power before the data reached the disk): the file is
			// there and empty. The store opened on it gives itself a creation time - and from then
			// on that is the session's creation time, after a refresh and for a fresh store alike
			s := suts[rapid.IntRange(0, len(suts)-1).Draw(t, "s")]
			if s.sessionFile == "" {
				t.Skip("not a file store with its own session file")
			}
			trace = append(trace, fmt.Sprintf("%d.Close,session-file-emptied,Reopen", idx(suts, s)))
			if err := s.st.Close(); err != nil {
				fail("op-error", "Close: %v", err)
			}
			if err := os.WriteFile(s.sessionFile, rapid.SampledFrom([][]byte{{}, []byte("2024-"), []byte("\x00\x00\x00")}).Draw(t, "left-in-the-file"), 0660); err != nil {
				t.Fatalf("harness: %v", err)
			}
			before := time.Now()
			st, err := s.factory.Create(s.id)
			if err != nil {
				s.st = nil
				fail("reopen-error", "reopen on an empty session file: %v after %v", err, trace)
			}
			s.st = st
			ct := st.CreationTime()
			if ct.Before(before.Add(-time.Second)) || ct.After(time.Now().Add(time.Second)) {
				fail("creation-time-not-now", "store opened on an empty session file: creation time %v outside [%v,now]", ct, before)
			}
			s.model.created = ct
			compare(s, st, "store reopened on an empty session file")
			feat["reopen-on-an-empty-session-file"] = true
		},
		"externalChange": func(t *rapid.T) {
			// another instance on the same backing store (a standby process, an operator's tool)
			// changes the session's state; after Refresh - which is what RefreshOnLogon is for - this
			// instance continues from that state, for reads and for writes
			if !persistent {
				t.Skip("memory store")
			}
			s := suts[rapid.IntRange(0, len(suts)-1).Draw(t, "s")]
			st2, err := s.factory.Create(s.id)
			if err != nil {
				fail("reopen-error", "second instance: %v after %v", err, trace)
			}
			what := rapid.SampledFrom([]string{"reset", "reset", "set-sender", "set-target", "save"}).Draw(t, "what")
			trace = append(trace, fmt.Sprintf("%d.External(%s)+Refresh", idx(suts, s), what))
			switch what {
			case "reset":
				if err := st2.Reset(); err != nil {
					fail("op-error", "external Reset: %v after %v", err, trace)
				}
				s.model = newStoreModel()
				s.model.created = st2.CreationTime()
			case "set-sender":
				v := s.model.sender + rapid.IntRange(0, 50).Draw(t, "up")
				if err := st2.SetNextSenderMsgSeqNum(v); err != nil {
					fail("op-error", "external SetNextSender: %v after %v", err, trace)
				}
				s.model.sender = v
			case "set-target":
				v := rapid.IntRange(1, s.model.target+50).Draw(t, "v")
				if err := st2.SetNextTargetMsgSeqNum(v); err != nil {
					fail("op-error", "external SetNextTarget: %v after %v", err, trace)
				}
				s.model.target = v
			case "save":
				seq := s.model.lastSaved + 1
				msg := []byte(fmt.Sprintf("external-%d", seq))
				if err := st2.SaveMessage(seq, msg); err != nil {
					fail("op-error", "external SaveMessage: %v after %v", err, trace)
				}
				s.model.msgs[seq] = msg
				s.model.lastSaved = seq
			}
			if err := st2.Close(); err != nil {
				fail("op-error", "external Close: %v after %v", err, trace)
			}
			if err := s.st.Refresh(); err != nil {
				fail("op-error", "Refresh after an external change: %v after %v", err, trace)
			}
			feat["external-change-then-refresh"] = true
		},
		"secondInstance": func(t *rapid.T) {
			if !persistent {
				t.Skip("memory store")
			}
			s := suts[rapid.IntRange(0, len(suts)-1).Draw(t, "s")]
			trace = append(trace, fmt.Sprintf("%d.SecondInstance", idx(suts, s)))
			st2, err := s.factory.Create(s.id)
			if err != nil {
				fail("reopen-error", "second instance: %v after %v", err, trace)
			}
			compare(s, st2, "fresh second instance")
			_ = st2.Close()
			if savedSinceReopen {
				feat["reopen-after-save"] = true
				feat["read-after-reopen"] = true
			}
		},
		"": func(t *rapid.T) {
			for _, s := range suts {
				compare(s, s.st, fmt.Sprintf("store %d", idx(suts, s)))
			}
		},
	})
	c.Eval()
	c.Class("store:" + kind)
	if len(suts) > 1 {
		c.Class("multi-session")
	}
	if collide {
		c.Class("session-ids-with-colliding-file-prefix")
	}
	for k := range feat {
		c.Class("history-with:" + k)
	}
	if feat["save"] && (feat["read-after-reopen"] || !persistent && feat["save"]) {
		c.NonTrivial(stats.Hash(kind, strings.Join(trace, ";")))
		c.SampleClass(kind, map[string]interface{}{"sessions": len(suts), "trace": trace})
	}
}

func idx(l []*storeUnderTest, s *storeUnderTest) int {
	for i, x := range l {
		if x == s {
			return i
		}
	}
	return -1
}

func sameMsgs(a, b [][]byte) bool {
	if len(a) != len(b) {
		return false
	}
	for i := range a {
		if !bytes.Equal(a[i], b[i]) {
			return false
		}
	}
	return true
}

func showMsgs(l [][]byte) string {
	var sb strings.Builder
	sb.WriteString("[")
	for i, m := range l {
		if i > 0 {
			sb.WriteString(" ")
		}
		if len(m) > 24 {
			fmt.Fprintf(&sb, "%q...(%dB)", m[:24], len(m))
		} else {
			fmt.Fprintf(&sb, "%q", m)
		}
	}
	sb.WriteString("]")
	return sb.String()
}

func TestC16_MemFile(t *testing.T) {
	rapid.Check(t, func(t *rapid.T) {
		kind := rapid.SampledFrom([]string{"memory", "file-sync", "file-nosync", "file-sync"}).Draw(t, "store")
		vk.Guard(func() { c16Machine(t, kind) })
	})
}

func TestC16_SQL(t *testing.T) {
	rapid.Check(t, func(t *rapid.T) {
		vk.Guard(func() { c16Machine(t, "sql") })
	})
}

const sigShareFiles = "C16/file/distinct-sessions-share-files"

// sessionsShareFiles: increment a counter through the store of session a; a fresh store of
// session b in the same directory must still be at 1.
func sessionsShareFiles(a, b quickfix.SessionID) bool {
	dir := vk.Scratch("c16-probe-")
	defer os.RemoveAll(dir)
	f := storekit.FileFactory(dir, false, a, b)
	sa, err := f.Create(a)
	if err != nil {
		return false
	}
	defer sa.Close()
	_ = sa.IncrNextSenderMsgSeqNum()
	_ = sa.SaveMessage(1, []byte("from-a"))
	sb, err := f.Create(b)
	if err != nil {
		return false
	}
	defer sb.Close()
	msgs, _ := sb.GetMessages(1, 10)
	return sb.NextSenderMsgSeqNum() != 1 || len(msgs) != 0
}

// TestKnown_C16 reports whether the listed open finding still reproduces.
func TestKnown_C16(t *testing.T) {
	a := quickfix.SessionID{BeginString: "FIX.4.2", SenderCompID: "A_B", TargetCompID: "T"}
	b := quickfix.SessionID{BeginString: "FIX.4.2", SenderCompID: "A", SenderSubID: "B", TargetCompID: "T"}
	yn := "no"
	if sessionsShareFiles(a, b) {
		yn = "yes"
	}
	fmt.Printf("KNOWN-REPRO %s %s\n", sigShareFiles, yn)
}

package store

// C17 (SQL part): a failure of any statement of save-and-increment leaves neither the message
// nor the increment behind. Faults are injected by a database/sql driver wrapping sqlite3.

import (
	"context"
	"database/sql"
	"database/sql/driver"
	"errors"
	"fmt"
	"os"
	"path/filepath"
	"sync"
	"testing"

	sqlite3 "github.com/mattn/go-sqlite3"
	"github.com/quickfixgo/quickfix"
	"pgregory.net/rapid"

	"verif/stats"
	"verif/storekit"
	"verif/vk"
)

type faultPlan struct {
	mu     sync.Mutex
	armed  bool
	failAt string // begin | exec | commit
	n      int    // which exec (1-based) inside the armed window
	execs  int
	fired  bool
}

var plan faultPlan

var errInjected = errors.New("injected statement failure")

func (p *faultPlan) hit(kind string) bool {
	p.mu.Lock()
	defer p.mu.Unlock()
	if !p.armed || p.fired {
		return false
	}
	if kind == "exec" {
		p.execs++
		if p.failAt == "exec" && p.execs == p.n {
			p.fired = true
			return true
		}
		return false
	}
	if p.failAt == kind {
		p.fired = true
		return true
	}
	return false
}

type faultDriver struct{}

func (faultDriver) Open(dsn string) (driver.Conn, error) {
	c, err := (&sqlite3.SQLiteDriver{}).Open(dsn)
	if err != nil {
		return nil, err
	}
	return &faultConn{c.(*sqlite3.SQLiteConn)}, nil
}

type faultConn struct{ c *sqlite3.SQLiteConn }

func (f *faultConn) Prepare(q string) (driver.Stmt, error) { return f.c.Prepare(q) }
func (f *faultConn) Close() error                          { return f.c.Close() }
func (f *faultConn) Begin() (driver.Tx, error) {
	return f.BeginTx(context.Background(), driver.TxOptions{})
}
func (f *faultConn) BeginTx(ctx context.Context, o driver.TxOptions) (driver.Tx, error) {
	if plan.hit("begin") {
		return nil, errInjected
	}
	tx, err := f.c.BeginTx(ctx, o)
	if err != nil {
		return nil, err
	}
	return &faultTx{tx}, nil
}
func (f *faultConn) ExecContext(ctx context.Context, q string, args []driver.NamedValue) (driver.Result, error) {
	if plan.hit("exec") {
		return nil, errInjected
	}
	return f.c.ExecContext(ctx, q, args)
}
func (f *faultConn) QueryContext(ctx context.Context, q string, args []driver.NamedValue) (driver.Rows, error) {
	return f.c.QueryContext(ctx, q, args)
}
func (f *faultConn) Ping(ctx context.Context) error { return f.c.Ping(ctx) }

type faultTx struct{ tx driver.Tx }

func (t *faultTx) Commit() error {
	if plan.hit("commit") {
		_ = t.tx.Rollback()
		return errInjected
	}
	return t.tx.Commit()
}
func (t *faultTx) Rollback() error { return t.tx.Rollback() }

var registerOnce sync.Once

func c17SQLProperty(t *rapid.T) {
	c := c17()
	registerOnce.Do(func() { sql.Register("sqlite3-fault", faultDriver{}) })
	dir := vk.Scratch("c17sql-")
	defer os.RemoveAll(dir)
	db := filepath.Join(dir, "s.db")
	if err := storekit.CreateSQLite(db); err != nil {
		t.Fatalf("harness: %v", err)
	}
	id := quickfix.SessionID{BeginString: "FIX.4.4", SenderCompID: "S", TargetCompID: "T"}
	factory := storekit.SQLFactory("sqlite3-fault", db, id)
	st, err := factory.Create(id)
	if err != nil {
		t.Fatalf("harness: %v", err)
	}
	defer func() { _ = st.Close() }()
	model := newStoreModel()
	nOps := rapid.IntRange(0, 8).Draw(t, "nops")
	var hist []string
	for i := 0; i < nOps; i++ {
		op := c17op{kind: rapid.SampledFrom([]string{"saveincr", "saveincr", "incrtarget", "settarget", "reset", "refresh"}).Draw(t, "op")}
		if op.kind == "saveincr" {
			op.msg = []byte(rapid.StringMatching(`[a-z]{1,2}=[A-Z0-9]{0,12}`).Draw(t, "msg"))
		}
		if op.kind == "settarget" {
			op.arg = rapid.IntRange(1, 300).Draw(t, "target")
		}
		if err := applyOp(&st, model, op, factory, id); err != nil {
			t.Fatalf("harness: op %v failed: %v", op, err)
		}
		hist = append(hist, op.String())
	}
	failAt := rapid.SampledFrom([]string{"begin", "exec1", "exec2", "commit"}).Draw(t, "failAt")
	msg := []byte(rapid.StringMatching(`[a-z]{1,2}=[A-Z0-9]{0,12}`).Draw(t, "victim"))
	plan.mu.Lock()
	plan.armed, plan.fired, plan.execs = true, false, 0
	switch failAt {
	case "exec1":
		plan.failAt, plan.n = "exec", 1
	case "exec2":
		plan.failAt, plan.n = "exec", 2
	default:
		plan.failAt, plan.n = failAt, 0
	}
	plan.mu.Unlock()
	seq := model.sender
	opErr := st.SaveMessageAndIncrNextSenderMsgSeqNum(seq, msg)
	plan.mu.Lock()
	fired := plan.fired
	plan.armed = false
	plan.mu.Unlock()
	c.Eval()
	c.Class("sql:fail@" + failAt)
	sig := func(clause string) string { return "C17/sql/save-and-increment/fail@" + failAt + "/" + clause }
	desc := fmt.Sprintf("history %v then SaveAndIncr(%d,%q) failing at %s", hist, seq, msg, failAt)
	if !fired {
		t.Fatalf("harness: the injected fault at %s never fired (%s)", failAt, desc)
	}
	if opErr == nil {
		vk.Violation(t, c, sig("no-error-returned"), "%s", desc)
	}
	check := func(s quickfix.MessageStore, who string) {
		if s.NextSenderMsgSeqNum() != model.sender {
			vk.Violation(t, c, sig("increment-left-behind"), "%s: NextSender %d, model %d; %s", who, s.NextSenderMsgSeqNum(), model.sender, desc)
		}
		if s.NextTargetMsgSeqNum() != model.target {
			vk.Violation(t, c, sig("target-changed"), "%s: NextTarget %d, model %d; %s", who, s.NextTargetMsgSeqNum(), model.target, desc)
		}
		got, gerr := s.GetMessages(1, model.sender+5)
		if gerr != nil || !sameMsgs(got, model.rangeOf(1, model.sender+5)) {
			vk.Violation(t, c, sig("message-left-behind"), "%s: messages %s err %v, model %s; %s", who, showMsgs(got), gerr, showMsgs(model.rangeOf(1, model.sender+5)), desc)
		}
	}
	check(st, "same store")
	if err := st.Refresh(); err != nil {
		vk.Violation(t, c, sig("refresh-error"), "%v; %s", err, desc)
	}
	check(st, "same store after refresh")
	st2, err := factory.Create(id)
	if err != nil {
		vk.Violation(t, c, sig("reopen-error"), "%v; %s", err, desc)
	}
	check(st2, "fresh store")
	_ = st2.Close()
	// and the same call succeeds once the fault is gone
	if err := st.SaveMessageAndIncrNextSenderMsgSeqNum(seq, msg); err != nil {
		vk.Violation(t, c, sig("retry-fails"), "retry: %v; %s", err, desc)
	}
	model.msgs[seq] = msg
	model.sender++
	check(st, "after successful retry")
	c.NonTrivial(stats.Hash("sql", failAt, fmt.Sprint(hist), msg))
	c.SampleClass("sql:fail@"+failAt, map[string]interface{}{"history": hist, "victim": fmt.Sprintf("SaveAndIncr(%d,%q)", seq, msg)})
}

func TestC17_SQLFault(t *testing.T) {
	rapid.Check(t, func(t *rapid.T) {
		vk.Guard(func() { c17SQLProperty(t) })
	})
}

package session

// The once-a-second tick of the real run loop is what applies ResetSeqTime (C07) and the session
// schedule (C18) in production; the deterministic stages call the same two entry points
// (CheckResetTime, CheckSessionTime) directly with generated instants. These two thorough-only
// stages check the wiring: a session on its real run loop, with a reset time / a window end a few
// seconds ahead of the wall clock, does what the deterministic stages say it does, at about that time.

import (
	"bytes"
	"fmt"
	"strconv"
	"sync"
	"testing"
	"time"

	"github.com/quickfixgo/quickfix"
	"github.com/quickfixgo/quickfix/config"

	"verif/fixwire"
	"verif/peer"
	"verif/stats"
	"verif/vk"
)

type tickFrame struct {
	at     time.Time
	fields []fixwire.Field
}

type tickRun struct {
	v      *quickfix.VerifSession
	p      *peer.Peer
	in     chan *bytes.Buffer
	mu     sync.Mutex
	frames []tickFrame
	closed bool
	app    *pipeApp
}

func (r *tickRun) snapshot() ([]tickFrame, bool) {
	r.mu.Lock()
	defer r.mu.Unlock()
	return append([]tickFrame(nil), r.frames...), r.closed
}

// awayFromMidnightUTC keeps a scenario that computes "a few seconds from now" as a time of day on one
// calendar day.
func awayFromMidnightUTC() {
	for {
		n := time.Now().UTC()
		if n.Hour() == 23 && n.Minute() == 59 && n.Second() >= 40 {
			time.Sleep(25 * time.Second)
			continue
		}
		return
	}
}

func startTickRun(t vk.TB, settings map[string]string) *tickRun {
	id := quickfix.SessionID{BeginString: "FIX.4.2", SenderCompID: "ENG", TargetCompID: "PEER", Qualifier: "tick" + strconv.FormatInt(time.Now().UnixNano()%1000000, 10)}
	ss := quickfix.NewSessionSettings()
	ss.Set(config.BeginString, id.BeginString)
	ss.Set(config.SenderCompID, id.SenderCompID)
	ss.Set(config.TargetCompID, id.TargetCompID)
	for k, v := range settings {
		ss.Set(k, v)
	}
	app := &pipeApp{answer: false}
	v, err := quickfix.VerifNewSession(id, quickfix.NewMemoryStoreFactory(), ss, quickfix.NewNullLogFactory(), app, false)
	if err != nil {
		t.Fatalf("harness: %v", err)
	}
	app.v = v
	r := &tickRun{v: v, p: peer.New("FIX.4.2", "PEER", "ENG"), in: make(chan *bytes.Buffer, 64), app: app}
	out := make(chan []byte)
	go func() {
		for b := range out {
			fs, _ := fixwire.Scan(b, nil)
			r.mu.Lock()
			r.frames = append(r.frames, tickFrame{time.Now(), fs})
			r.mu.Unlock()
		}
		r.mu.Lock()
		r.closed = true
		r.mu.Unlock()
	}()
	go v.RunLoop()
	// (the run loop aligns itself to the next full second before it serves requests)
	if err := v.ConnectAsync(r.in, out); err != nil {
		t.Fatalf("harness: connect refused: %v", err)
	}
	return r
}

func (r *tickRun) send(msgType string, body []fixwire.Field) {
	_, f := r.p.Next(msgType, body)
	r.in <- bytes.NewBuffer(f)
}

// waitFor polls until cond holds or the limit passes; it also measures how late this process's own
// sleeps are (a stalled machine makes a missed deadline inconclusive, not a violation).
func waitFor(limit time.Duration, cond func() bool) (ok bool, worstOversleep time.Duration) {
	deadline := time.Now().Add(limit)
	for time.Now().Before(deadline) {
		if cond() {
			return true, worstOversleep
		}
		a := time.Now()
		time.Sleep(50 * time.Millisecond)
		if over := time.Since(a) - 50*time.Millisecond; over > worstOversleep {
			worstOversleep = over
		}
	}
	return cond(), worstOversleep
}

func TestC07_RealLoopResetTime(t *testing.T) {
	if !vk.Thorough() {
		t.Skip("thorough tier only")
	}
	c := stats.Get("C07")
	shard, _ := vk.Shard()
	if shard != 0 {
		return
	}
	vk.Guard(func() {
		awayFromMidnightUTC()
		resetAt := time.Now().UTC().Add(5 * time.Second).Truncate(time.Second)
		r := startTickRun(t, map[string]string{config.ResetSeqTime: resetAt.Format("15:04:05")})
		defer r.v.StopAsync()
		r.send("A", r.p.LogonBody(30, false))
		loggedOn, _ := waitFor(4*time.Second, func() bool { return r.v.IsLoggedOn() })
		if !loggedOn {
			c.Class("real-loop-reset-time-inconclusive:no-logon")
			return
		}
		for i := 0; i < 3; i++ {
			r.send("0", nil)
		}
		_, _ = waitFor(time.Second, func() bool { return r.v.Store().NextTargetMsgSeqNum() >= 5 })
		before := r.v.Store().NextTargetMsgSeqNum()
		resetLogon := func() *tickFrame {
			fr, _ := r.snapshot()
			for i := range fr {
				if i > 0 && fixwire.GetS(fr[i].fields, 35) == "A" && fixwire.GetS(fr[i].fields, 141) == "Y" {
					return &fr[i]
				}
			}
			return nil
		}
		got, oversleep := waitFor(time.Until(resetAt)+6*time.Second, func() bool { return resetLogon() != nil })
		c.Eval()
		c.Class("real-loop:reset-time-on-the-run-loop")
		c.NonTrivial(stats.Hash("real-loop-reset-time"))
		detail := fmt.Sprintf("ResetSeqTime=%s UTC, expected inbound number before %d, this process's sleeps at most %v late", resetAt.Format("15:04:05"), before, oversleep)
		switch {
		case !got && oversleep > 2*time.Second:
			c.Class("real-loop-reset-time-inconclusive:machine-stalled")
		case !got:
			vk.Violation(t, c, "C07/real-loop/reset-time-no-logon", "no Logon with ResetSeqNumFlag=Y within 6 s after the configured reset time on the real run loop (%s)", detail)
		default:
			f := resetLogon()
			if seq, _ := fixwire.GetInt(f.fields, 34); seq != 1 {
				vk.Violation(t, c, "C07/real-loop/reset-logon-not-number-1", "the reset Logon has MsgSeqNum %d (%s)", seq, detail)
			}
			if early := resetAt.Sub(f.at); early > 1500*time.Millisecond {
				vk.Violation(t, c, "C07/real-loop/reset-before-its-time", "the reset Logon left %v before the configured time (%s)", early, detail)
			}
			c.SampleClass("real-loop/reset-time", detail+fmt.Sprintf("; reset Logon %v after the configured time", f.at.Sub(resetAt)))
		}
	})
}

func TestC18_RealLoopSessionEnd(t *testing.T) {
	if !vk.Thorough() {
		t.Skip("thorough tier only")
	}
	c := stats.Get("C18")
	shard, _ := vk.Shard()
	if shard != 0 {
		return
	}
	vk.Guard(func() {
		awayFromMidnightUTC()
		now := time.Now().UTC()
		if now.Hour() == 0 && now.Minute() < 2 {
			time.Sleep(2 * time.Minute) // the window below starts an hour... a minute before now, on the same day
		}
		now = time.Now().UTC()
		endAt := now.Add(5 * time.Second).Truncate(time.Second)
		r := startTickRun(t, map[string]string{config.StartTime: now.Add(-time.Minute).Format("15:04:05"), config.EndTime: endAt.Format("15:04:05")})
		defer r.v.StopAsync()
		r.send("A", r.p.LogonBody(30, false))
		loggedOn, _ := waitFor(4*time.Second, func() bool { return r.v.IsLoggedOn() })
		if !loggedOn {
			c.Class("real-loop-session-end-inconclusive:no-logon")
			return
		}
		// well inside the window the session stays logged on
		stillOn := true
		if d := time.Until(endAt) - 1500*time.Millisecond; d > 0 {
			time.Sleep(d)
			stillOn = r.v.IsLoggedOn()
		}
		insideChecked := time.Until(endAt) > 500*time.Millisecond
		left, oversleep := waitFor(time.Until(endAt)+6*time.Second, func() bool { return !r.v.IsLoggedOn() })
		c.Eval()
		c.Class("real-loop:window-end-on-the-run-loop")
		c.NonTrivial(stats.Hash("real-loop-session-end"))
		detail := fmt.Sprintf("window ends %s UTC; this process's sleeps at most %v late", endAt.Format("15:04:05"), oversleep)
		switch {
		case insideChecked && !stillOn:
			vk.Violation(t, c, "C18/real-loop/logged-out-inside-the-window", "the session left the logged-on state more than a second before the window's end (%s)", detail)
		case !left && oversleep > 2*time.Second:
			c.Class("real-loop-session-end-inconclusive:machine-stalled")
		case !left:
			vk.Violation(t, c, "C18/real-loop/logged-on-after-the-window", "the session is still logged on 6 s after the window's end on the real run loop (%s)", detail)
		default:
			c.SampleClass("real-loop/session-end", detail)
		}
	})
}

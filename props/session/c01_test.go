package session

// C01 - inbound application messages reach the application in order, exactly once.
// Trace invariants over arbitrary inbound histories (faithful counterparty traffic mixed with
// adversarial injections placed relative to the expected number).

import (
	"fmt"
	"strconv"

	"github.com/quickfixgo/quickfix"
	"github.com/quickfixgo/quickfix/config"
	"strings"
	"testing"
	"time"

	"pgregory.net/rapid"

	"verif/fixwire"
	"verif/peer"
	"verif/rig"
	"verif/stats"
	"verif/vk"
)

const c01Rule = "rapid state machine over a logged-on session (both roles, every BeginString, chunk sizes, memory/file store): faithful counterparty traffic with losses and replays, mixed with injected messages of every type whose MsgSeqNum / NewSeqNo / PossDup / OrigSendingTime are drawn relative to the expected number, timer events, engine sends, reconnects, ResetOnLogout / ResetOnDisconnect configured or not; non-trivial = history with a delivery from the stash, a PossDup replay, or a SequenceReset; distinct = distinct history"

func c01() *stats.Collector {
	c := stats.Get("C01")
	c.SetRule(c01Rule)
	return c
}

type c01mon struct {
	lastDelivered  int // highest application MsgSeqNum delivered in this epoch
	lastT          int // last observed expected number in this epoch
	pendingAdvance int // a delivery of n was just observed: the next observation must read n+1
	feat           map[string]bool
}

func (m *c01mon) observeT(s *sim, t int, where string) {
	// the advance is due once the hand-over is complete: it is checked at the next inbound
	// hand-over point or at the end of the step, not inside the callbacks of a reply (a Reject
	// for a refused message is built before the number advances)
	if m.pendingAdvance != 0 && !strings.HasPrefix(where, "inside To") && !strings.HasPrefix(where, "inside On") {
		if t != m.pendingAdvance+1 {
			vk.Violation(s.t, s.c, "C01/expected-number-not-advanced-by-one", "after delivering %d the expected number reads %d (%s)\n%s", m.pendingAdvance, t, where, s.history())
		}
		m.pendingAdvance = 0
	}
	if t < m.lastT {
		vk.Violation(s.t, s.c, "C01/expected-number-moved-backwards", "expected number %d after %d without a reset (%s)\n%s", t, m.lastT, where, s.history())
	}
	m.lastT = t
}

func (m *c01mon) resetInStep(s *sim, st rig.StepResult) bool {
	for _, e := range s.r.Entries(st) {
		if e.Kind == "store.Reset" || e.Kind == "store.SetNextTarget" {
			return true
		}
	}
	return false
}

func (m *c01mon) after(s *sim, st rig.StepResult, ctx stepCtx) {
	c := s.c
	delivered := 0
	for _, e := range s.r.Entries(st) {
		switch e.Kind {
		case "store.Reset":
			m.lastDelivered, m.lastT, m.pendingAdvance = 0, 1, 0
			m.feat["reset"] = true
		case "store.SetNextTarget":
			if e.Value < e.Prev {
				vk.Violation(s.t, c, "C01/expected-number-moved-backwards", "store set to %d from %d without a reset\n%s", e.Value, e.Prev, s.history())
			}
		case "FromApp":
			m.observeT(s, e.NextTarget, "inside FromApp")
			if e.Seq != e.NextTarget {
				vk.Violation(s.t, c, "C01/delivered-at-wrong-number", "FromApp got MsgSeqNum %d while %d was expected\n%s", e.Seq, e.NextTarget, s.history())
			}
			if e.Seq <= m.lastDelivered {
				vk.Violation(s.t, c, "C01/delivered-twice-or-out-of-order", "FromApp got MsgSeqNum %d after %d in the same epoch\n%s", e.Seq, m.lastDelivered, s.history())
			}
			m.lastDelivered = e.Seq
			m.pendingAdvance = e.Seq
			delivered++
			if ctx.kind == "in" && (!ctx.hasSeq || e.Seq != ctx.seq) {
				m.feat["delivery-from-stash"] = true
			}
			if e.PossDup {
				m.feat["possdup-replay-delivered"] = true
			}
		case "FromAdmin", "ToApp", "ToAdmin", "OnLogon", "OnLogout":
			m.observeT(s, e.NextTarget, "inside "+e.Kind)
			if e.Kind == "FromAdmin" && e.MsgType == "4" {
				m.feat["sequence-reset"] = true
			}
		}
	}
	m.observeT(s, s.r.T(), "after the step")
	// a message above the expected number cannot be the one that is consumed: on its arrival the
	// expected number stays where it is (SequenceReset and Logon have rules of their own)
	// (a Logon above the expected number is no exception: accepted, it reveals a gap and does not
	// fill it; refused, it has not used up the expected number either)
	if ctx.kind == "in" && ctx.hasSeq && ctx.seq > ctx.tBefore && ctx.msgType != "4" && !m.resetInStep(s, st) {
		if T := s.r.T(); T != ctx.tBefore {
			vk.Violation(s.t, c, "C01/expected-number-advanced-by-a-message-above-it", "a %s message with MsgSeqNum %d arrived in state %s while %d was expected; afterwards %d is expected\n%s", ctx.msgType, ctx.seq, ctx.stateBefore, ctx.tBefore, T, s.history())
		}
		m.feat["message-above-expected:"+ctx.stateBefore] = true
	}
	// nor can a message below it be: whatever its type and flags, its arrival leaves the expected
	// number alone (the number advances only for the message that carries it)
	if ctx.kind == "in" && ctx.hasSeq && ctx.seq < ctx.tBefore && ctx.msgType != "4" && !m.resetInStep(s, st) {
		if T := s.r.T(); T != ctx.tBefore {
			vk.Violation(s.t, c, "C01/expected-number-advanced-by-a-message-below-it", "a %s message with MsgSeqNum %d arrived in state %s while %d was expected; afterwards %d is expected\n%s", ctx.msgType, ctx.seq, ctx.stateBefore, ctx.tBefore, T, s.history())
		}
		m.feat["message-below-expected:"+ctx.msgType] = true
	}
	// a SequenceReset either leaves the expected number alone or moves it forward to its NewSeqNo;
	// one that is refused or ignored does not use up a number (nothing is kept that could be
	// delivered in the same step: with kept messages the number may move on past NewSeqNo)
	if ctx.kind == "in" && ctx.msgType == "4" && ctx.keptBefore == 0 && ctx.loggedOnBefore && !m.resetInStep(s, st) {
		T := s.r.T()
		ns, ok := fixwire.GetInt(ctx.fields, 36)
		// (a rejected SequenceReset that itself carried the expected number has used that number up)
		if T != ctx.tBefore && !(ok && ns > ctx.tBefore && T == ns) && !(ctx.hasSeq && ctx.seq == ctx.tBefore && T == ctx.tBefore+1) {
			vk.Violation(s.t, c, "C01/expected-number-moved-by-a-refused-sequence-reset", "SequenceReset (MsgSeqNum %d, NewSeqNo %d, GapFillFlag %q) arrived in state %s while %d was expected; afterwards %d is expected\n%s", ctx.seq, ns, fixwire.GetS(ctx.fields, 123), ctx.stateBefore, ctx.tBefore, T, s.history())
		}
	}
	// positive half: an in-sequence, well-formed application message in a logged-on state is delivered in this very step
	if ctx.kind == "in" && ctx.hasSeq && ctx.loggedOnBefore && !fixwire.IsAdminMsgType(ctx.msgType) && ctx.seq == ctx.tBefore && ctx.wellFormed {
		n := 0
		for _, e := range s.r.Entries(st) {
			if e.Kind == "FromApp" && e.Seq == ctx.seq {
				n++
			}
		}
		if n != 1 {
			vk.Violation(s.t, c, "C01/in-sequence-message-not-delivered", "application message %d arrived in sequence in state %s but FromApp saw it %d times\n%s", ctx.seq, ctx.stateBefore, n, s.history())
		}
		m.feat["in-sequence-delivery"] = true
	}
}

// inject builds one adversarial frame relative to the expected number T.
func (s *sim) inject(t *rapid.T) ([]byte, bool) {
	T := s.r.T()
	typ := rapid.SampledFrom([]string{"D", "D", "8", "0", "1", "2", "3", "4gf", "4gf", "4reset", "5"}).Draw(t, "type")
	delta := rapid.SampledFrom([]int{0, 0, 0, 0, 1, 2, 5, -1, -2, -5, 1000}).Draw(t, "delta")
	seq := T + delta
	if seq < 1 {
		seq = 1
	}
	o := peer.Opt{PossDup: rapid.SampledFrom([]string{"", "", "Y", "N"}).Draw(t, "possdup")}
	now := time.Now()
	wellFormed := true
	switch rapid.IntRange(0, 3).Draw(t, "orig") {
	case 1:
		o.OrigSending = s.p.Stamp(now.Add(-30 * time.Second))
	case 2:
		o.OrigSending = s.p.Stamp(now.Add(40 * time.Second))
		wellFormed = false
	default:
		if o.PossDup == "Y" {
			wellFormed = false // PossDup without OrigSendingTime
		}
	}
	// a frame whose SendingTime is missing or unreadable is answered with a Reject whatever its number
	switch rapid.IntRange(0, 11).Draw(t, "sending-time") {
	case 0:
		o.SendingTime, wellFormed = "\x00absent", false
	case 1:
		o.SendingTime, wellFormed = "2024-01-01", false
	}
	var body []fixwire.Field
	mt := typ
	switch typ {
	case "D", "8":
		body = []fixwire.Field{fixwire.F(11, "X"+strconv.Itoa(seq)), fixwire.F(55, "IBM"), fixwire.F(54, "1")}
	case "1":
		body = []fixwire.Field{fixwire.F(112, "inj")}
	case "2":
		b := rapid.IntRange(1, s.r.S()+2).Draw(t, "rr-begin")
		body = []fixwire.Field{fixwire.F(7, strconv.Itoa(b)), fixwire.F(16, strconv.Itoa(rapid.SampledFrom([]int{0, 999999, b, b + 3}).Draw(t, "rr-end")))}
	case "3":
		body = []fixwire.Field{fixwire.F(45, "1"), fixwire.F(58, "x")}
	case "4gf", "4reset":
		mt = "4"
		ns := T + rapid.SampledFrom([]int{-2, 0, 1, 3, 10}).Draw(t, "newseq")
		if ns < 1 {
			ns = 1
		}
		body = []fixwire.Field{fixwire.F(36, strconv.Itoa(ns))}
		if typ == "4gf" {
			body = append([]fixwire.Field{fixwire.F(123, "Y")}, body...)
		} else if rapid.Bool().Draw(t, "gapfill-N") {
			body = append([]fixwire.Field{fixwire.F(123, "N")}, body...)
		}
	}
	return s.p.Frame(mt, seq, body, o), wellFormed
}

func c01Property(t *rapid.T) {
	c := c01()
	cfg := genSimCfg(t)
	drawExtras(t, c, &cfg)
	draw789(t, c, &cfg)
	// the reset options decide what happens to the numbers when a logged-on period ends, not how
	// arrivals are treated while a connection lasts (also while the engine waits for the answer to
	// its own Logout)
	for _, k := range []string{config.ResetOnLogout, config.ResetOnDisconnect} {
		if rapid.IntRange(0, 3).Draw(t, k) == 0 {
			cfg.settings[k] = "Y"
			c.Class("setting:" + k)
		}
	}
	s := newSim(t, c, cfg)
	if rapid.IntRange(0, 2).Draw(t, "writer-sometimes-busy") == 0 {
		s.busyWriter = func() bool { return rapid.IntRange(0, 2).Draw(t, "writer-busy") == 0 }
	}
	defer s.close()
	mon := &c01mon{feat: map[string]bool{}, lastT: 1}
	s.after = append(s.after, mon.after)
	// the application refuses some messages (business reject): they were still handed over at
	// their number, and the expected number still advances by one
	refuseMod := rapid.SampledFrom([]int{0, 0, 3, 5}).Draw(t, "app-refuses-every")
	s.r.FromAppErr = func(m *quickfix.Message) quickfix.MessageRejectError {
		seq, _ := m.Header.GetInt(34)
		if refuseMod != 0 && seq%refuseMod == 0 {
			mon.feat["application-refused-a-message"] = true
			if seq%2 == 0 {
				return quickfix.NewBusinessMessageRejectError("refused by the application", 4, nil)
			}
			return quickfix.ConditionallyRequiredFieldMissing(quickfix.Tag(9999))
		}
		return nil
	}
	refuseLogons := false
	s.r.FromAdminErr = func(m *quickfix.Message) quickfix.MessageRejectError {
		if mt, _ := m.Header.GetString(35); mt == "A" && refuseLogons {
			return quickfix.RejectLogon{Text: "refused by the application"}
		}
		return nil
	}
	if !s.logon(rapid.SampledFrom([]int{0, 0, 1, 3}).Draw(t, "lost-before-logon")) {
		t.Fatalf("harness: logon failed\n%s", s.history())
	}
	relogon := func() {
		for i := 0; i < 3 && !s.r.V.IsConnected(); i++ {
			s.link, s.pendingReplays = nil, nil
			// the counterparty never reuses a number the engine has already passed
			if s.p.NextOut < s.r.T() {
				s.p.NextOut = s.r.T()
			}
			s.logon(rapid.SampledFrom([]int{0, 0, 2}).Draw(t, "lost-before-relogon"))
			mon.feat["reconnect"] = true
		}
	}
	t.Repeat(map[string]func(*rapid.T){
		"peerLive": func(t *rapid.T) {
			s.peerLive(rapid.SampledFrom([]string{"D", "D", "D", "0", "1"}).Draw(t, "type"), rapid.IntRange(0, 4).Draw(t, "lost") == 0)
		},
		"deliver": func(t *rapid.T) {
			if !s.pumpOne() {
				t.Skip("nothing in flight")
			}
			relogon()
		},
		"peerReplays": func(t *rapid.T) {
			if !s.peerReplay(1) {
				t.Skip("no replay owed")
			}
		},
		"inject": func(t *rapid.T) {
			if !s.r.V.IsConnected() {
				t.Skip("not connected")
			}
			f, wf := s.inject(t)
			ctx := s.ctxFor("in", f, false)
			ctx.wellFormed = wf
			s.logf("inj %s (T=%d %s)", vk.Show(f), ctx.tBefore, ctx.stateBefore)
			st := s.r.In(f)
			s.observe(st, ctx)
			s.react(st)
			s.flush()
			relogon()
		},
		"peerTimer":      func(t *rapid.T) { s.timer(0); relogon() },
		"heartbeatTimer": func(t *rapid.T) { s.timer(1) },
		"engineSend":     func(t *rapid.T) { s.engineSend(); s.flush() },
		"disconnect": func(t *rapid.T) {
			s.disconnect()
			relogon()
		},
		"refusedLogon": func(t *rapid.T) {
			// the connection drops; the next Logon - numbered at, below or above the expected number -
			// is refused by the application (RejectLogon); then the regular logon follows. Whatever
			// the refusal does, the expected number does not go backwards
			s.disconnect()
			if !s.connect() {
				relogon()
				return
			}
			T := s.r.T()
			seq := T + rapid.SampledFrom([]int{0, 0, -1, -3, 2}).Draw(t, "refused-logon-number")
			if seq < 1 {
				seq = 1
			}
			o := peer.Opt{}
			if seq < T && rapid.Bool().Draw(t, "refused-logon-possdup") {
				o.PossDup, o.OrigSending = "Y", s.p.Stamp(time.Now().Add(-30*time.Second))
			}
			f := s.p.Frame("A", seq, s.p.LogonBody(30, false), o)
			refuseLogons = true
			ctx := s.ctxFor("in", f, false)
			ctx.wellFormed = true
			s.logf("inj %s (T=%d %s) - the application refuses it", vk.Show(f), ctx.tBefore, ctx.stateBefore)
			st := s.r.In(f)
			s.observe(st, ctx)
			refuseLogons = false
			mon.feat["logon-refused-by-the-application"] = true
			if s.r.V.IsConnected() {
				s.disconnect()
			}
			s.link, s.pendingReplays = nil, nil
			relogon()
		},
	})
	c.Eval()
	c.Class("role:" + map[bool]string{true: "initiator", false: "acceptor"}[cfg.initiator])
	c.Class("begin:" + cfg.begin)
	c.Class(fmt.Sprintf("chunk:%v", cfg.chunk > 0))
	for k := range mon.feat {
		c.Class("history-with:" + k)
	}
	if mon.feat["delivery-from-stash"] || mon.feat["possdup-replay-delivered"] || mon.feat["sequence-reset"] {
		c.NonTrivial(stats.Hash(strings.Join(s.log, "\n")))
		c.SampleClass(fmt.Sprintf("deliveries=%v", len(s.fromApp) > 0), map[string]interface{}{"config": cfg.String(), "delivered": len(s.fromApp), "history_tail": tail(s.log, 20)})
	}
}

func TestC01_Rapid(t *testing.T) {
	rapid.Check(t, func(t *rapid.T) {
		vk.Guard(func() { c01Property(t) })
	})
}

// TestReplay_C01_RejectedFramesFixed: regression for the defect repaired by /repo 393f716. A frame
// that is rejected before its number is looked at (SendingTime missing or unreadable), or a too-low
// PossDup frame without SendingTime, carries a number other than the expected one: the expected
// number must stay where it is, and the message that does carry it is delivered afterwards.
func TestReplay_C01_RejectedFramesFixed(t *testing.T) {
	c := c01()
	for _, tc := range []struct {
		delta       int
		sendingTime string
		possDup     bool
		noLatency   bool
	}{
		{5, "\x00absent", false, false},
		{5, "2024-01-01", false, false},
		{-2, "\x00absent", false, false},
		{-2, "\x00absent", true, true},
	} {
		tc := tc
		vk.Guard(func() {
			cfg := simCfg{begin: "FIX.4.2", hb: 30, store: "memory", settings: map[string]string{}}
			if tc.noLatency {
				cfg.settings[config.CheckLatency] = "N"
			}
			s := newSim(t, c, cfg)
			defer s.close()
			mon := &c01mon{feat: map[string]bool{}, lastT: 1}
			s.after = append(s.after, mon.after)
			if !s.logon(0) {
				t.Fatalf("harness: logon failed\n%s", s.history())
			}
			for i := 0; i < 3; i++ {
				s.peerLive("D", false)
				s.pumpOne()
			}
			T := s.r.T()
			o := peer.Opt{SendingTime: tc.sendingTime}
			if tc.possDup {
				o.PossDup, o.OrigSending = "Y", s.p.Stamp(time.Now().Add(-30*time.Second))
			}
			f := s.p.Frame("D", T+tc.delta, []fixwire.Field{fixwire.F(11, "odd"), fixwire.F(55, "IBM"), fixwire.F(54, "1")}, o)
			ctx := s.ctxFor("in", f, false)
			ctx.wellFormed = false
			s.logf("inj %s (T=%d %s)", vk.Show(f), ctx.tBefore, ctx.stateBefore)
			st := s.r.In(f)
			s.observe(st, ctx)
			// the message that carries the expected number still arrives and is delivered
			if s.r.V.IsLoggedOn() && s.r.V.StateName() == "inSession" {
				s.peerLive("D", false)
				s.pumpOne()
			}
		})
	}
}

// TestReplay_C01_RefusedLogonFixed: regression for the defect repaired by /repo 122180a - a Logon
// that the application refuses leaves the expected number alone unless it carried it.
func TestReplay_C01_RefusedLogonFixed(t *testing.T) {
	c := c01()
	for _, delta := range []int{2, -2} {
		delta := delta
		vk.Guard(func() {
			s := newSim(t, c, simCfg{begin: "FIX.4.2", hb: 30, store: "memory", settings: map[string]string{}})
			defer s.close()
			mon := &c01mon{feat: map[string]bool{}, lastT: 1}
			s.after = append(s.after, mon.after)
			refuse := false
			s.r.FromAdminErr = func(m *quickfix.Message) quickfix.MessageRejectError {
				if mt, _ := m.Header.GetString(35); mt == "A" && refuse {
					return quickfix.RejectLogon{Text: "refused"}
				}
				return nil
			}
			if !s.logon(0) {
				t.Fatalf("harness: logon failed\n%s", s.history())
			}
			for i := 0; i < 4; i++ {
				s.peerLive("D", false)
				s.pumpOne()
			}
			s.disconnect()
			if !s.connect() {
				t.Fatalf("harness: connect refused\n%s", s.history())
			}
			T := s.r.T()
			o := peer.Opt{}
			if delta < 0 {
				o.PossDup, o.OrigSending = "Y", s.p.Stamp(time.Now().Add(-30*time.Second))
			}
			f := s.p.Frame("A", T+delta, s.p.LogonBody(30, false), o)
			refuse = true
			ctx := s.ctxFor("in", f, false)
			ctx.wellFormed = true
			s.logf("inj %s (T=%d %s) - refused by the application", vk.Show(f), ctx.tBefore, ctx.stateBefore)
			st := s.r.In(f)
			s.observe(st, ctx)
		})
	}
}

"""Registry of checks: one entry per claimed property. Used by tools/check.py and tools/mkmanifest.py."""

PROPS = {
    "C14": dict(
        pkg="./props/codec", level="exploration", design_ref="DESIGN.md §3 C14",
        technique="bounded-exhaustive string enumeration + rapid value generation against independent grammars and big-number arithmetic",
        stages=[
            dict(name="enum-int", kind="plain", run="^TestC14_EnumInt$", shards=(8, 16), timeout=(300, 1800)),
            dict(name="enum-float", kind="plain", run="^TestC14_EnumFloat$", shards=(8, 16), timeout=(300, 1800)),
            dict(name="enum-bool", kind="plain", run="^TestC14_EnumBool$", shards=1, timeout=(300, 600)),
            dict(name="enum-ts", kind="plain", run="^TestC14_EnumTimestamp$", shards=(12, 16), timeout=(300, 1800)),
            dict(name="rapid", kind="rapid", run="^TestC14_Rapid$", checks=(20000, 400000), shards=(8, 16), timeout=(300, 1800)),
        ],
        require=["int:must-accept", "int:must-reject", "int:in-grammar-out-of-range", "float:must-accept", "float:must-reject",
                 "timestamp:must-accept", "timestamp:must-reject", "timestamp:value-roundtrip", "decimal:value-roundtrip",
                 "udecimal:value-roundtrip", "bool:must-reject"],
        assumptions=["FIX grammars as written in the FIX 4.x/5.0 data type tables: int -?[0-9]+, float -?[0-9]+(.[0-9]*)?, Boolean Y|N, UTCTimestamp YYYYMMDD-HH:MM:SS[.sss|.ssssss|.sssssssss]",
                     "'.5'-style floats and ss=60 are treated as unspecified and not asserted either way",
                     "int is 64 bit on the build platform"],
    ),
}

NOT_APPLICABLE = {}

HOOK_COMMITS = ["ce15100"]

NOTES = ("Every check rebuilds its test binary from /repo's working tree (tag verif), runs committed regression examples, "
         "then the generated tier (rapid shards / enumerations), merges measured coverage and writes evidence/<id>.json. "
         "Exit 2 = inconclusive (build failure, time-out, vacuous generator), never reported as a violation. "
         "Genuine defects found and repaired are listed as status=fixed in KNOWN_FINDINGS.json; open ones are printed as KNOWN-FINDING.")

package codec

// C09 - no bytes from the wire, a file or the API can crash the engine (codec-side targets:
// T1 parse + typed accessors, T2 stream framing, T3 validation against every shipped dictionary,
// T4 settings text, T5 dictionary text). The session target T6 lives in props/session.
// Generators start from valid material and apply structure-aware mutations; the oracle is
// "returns a value or an error": no panic (recovered, input saved), no hang (read bound),
// no fatal error of the process (dictionary loading runs in a child process).

import (
	"bytes"
	"fmt"
	"os"
	"os/exec"
	"path/filepath"
	"runtime/debug"
	"strconv"
	"strings"
	"testing"
	"time"

	"github.com/quickfixgo/quickfix"
	"github.com/quickfixgo/quickfix/datadictionary"
	"pgregory.net/rapid"

	"verif/fixwire"
	"verif/specxml"
	"verif/stats"
	"verif/vk"
)

const c09Rule = "valid messages / streams / settings / dictionary XML mutated structure-aware (truncate at any byte, drop the CheckSum, empty a value, duplicate or swap fields, huge / negative / non-numeric / boundary-adjacent BodyLength and XMLDataLen, timestamps of every precision lengthened, shortened or with a character replaced, group counts that lie, settings lines before any section, dangling and cyclic component references), plus arbitrary fragment soups; each target is run under recover with a read bound, validation with the five switches all on, all off and in a combination picked by the input, the session stage with drawn validation switches, messages cut off inside or right behind their XMLData with XMLDataLen aimed at what is left; non-trivial = input that gets past the first check of its target (parses / frames / reaches a section or element handler); distinct = distinct input bytes per target"

func c09() *stats.Collector {
	c := stats.Get("C09")
	c.SetRule(c09Rule)
	return c
}

func c09fail(t vk.TB, target, class string, input []byte, detail string) {
	sig := "C09/" + target + "/" + class
	if !vk.IsKnownOpen("C09", sig) {
		saveReplayInput("TestReplay_C09_Input", sig, target+"\n"+strconv.Quote(string(input)))
	}
	vk.Violation(t, c09(), sig, "%s; input %q", detail, clipBytes(input))
}

func clipBytes(b []byte) []byte {
	if len(b) > 600 {
		return append(append([]byte{}, b[:400]...), append([]byte(" ... "), b[len(b)-150:]...)...)
	}
	return b
}

// panicClass turns a recovered value into a short, stable class (first line without addresses/numbers).
func panicClass(p interface{}) string {
	return vk.PanicClass(p)
}

// ---------------------------------------------------------------- message mutations

func genValidMessage(t *rapid.T, d map[string]*dictPair) ([]byte, string) {
	if rapid.Bool().Draw(t, "dict-conforming") {
		name := rapid.SampledFrom(dictNames).Draw(t, "dict")
		dp := d[name]
		md := dp.spec.Messages[rapid.IntRange(0, len(dp.spec.Messages)-1).Draw(t, "msg")]
		members, _ := dp.spec.Expand(md.Members, true)
		items := dp.spec.GenMembers(rapidChooser{t}, members, specxml.GenOpts{OptionalOneIn: rapid.SampledFrom([]int{2, 4}).Draw(t, "optional-one-in"), MaxEntries: 2, MaxDepth: 3, EmptyOneIn: 3}, 0, false)
		rest := []fixwire.Field{fixwire.F(35, md.MsgType), fixwire.F(49, "S"), fixwire.F(56, "T"), fixwire.F(34, "7"), fixwire.F(52, "20240102-03:04:05")}
		for _, f := range specxml.Flatten(items) {
			rest = append(rest, fixwire.F(f.Tag, f.Value))
		}
		begin := dp.spec.BeginString()
		if strings.HasPrefix(name, "FIX50") {
			begin = "FIXT.1.1"
		}
		return fixwire.Build(begin, rest), name
	}
	rest := []fixwire.Field{fixwire.F(35, rapid.SampledFrom([]string{"D", "0", "A", "8", "n"}).Draw(t, "mt")), fixwire.F(49, "S"), fixwire.F(56, "T"), fixwire.F(34, "2"), fixwire.F(52, "20240102-03:04:05.123")}
	if rapid.IntRange(0, 3).Draw(t, "xml") == 0 {
		data := rapid.SliceOfN(rapid.SampledFrom([]byte{1, '<', 'a', '>', '=', '1', '0'}), 0, 20).Draw(t, "xmldata")
		rest = append(rest, fixwire.F(212, strconv.Itoa(len(data))), fixwire.Field{Tag: 213, Value: data})
	}
	n := rapid.IntRange(0, 8).Draw(t, "nbody")
	for i := 0; i < n; i++ {
		rest = append(rest, fixwire.Field{Tag: rapid.IntRange(1, 1200).Draw(t, "tag"), Value: []byte(rapid.StringMatching(`[A-Za-z0-9.:=-]{0,8}`).Draw(t, "v"))})
	}
	return fixwire.Build(rapid.SampledFrom([]string{"FIX.4.2", "FIX.4.4", "FIXT.1.1"}).Draw(t, "begin"), rest), ""
}

var hostileNumbers = []string{"", "-1", "0", "99999", "999999999999999999999", "-9223372036854775808", "1x", "+5", "00000000000000000000001", "2147483648"}

func mutateMessage(t *rapid.T, msg []byte) ([]byte, []string) {
	var applied []string
	n := rapid.IntRange(0, 3).Draw(t, "nmut")
	for i := 0; i < n && len(msg) > 0; i++ {
		kind := rapid.SampledFrom([]string{"truncate", "drop-checksum", "empty-value", "dup-field", "swap-fields", "bodylength", "xmllen", "count-lies", "drop-soh", "insert-bytes", "drop-field", "empty-tag", "only-head", "timestamp", "xml-cut"}).Draw(t, "mutation")
		fields := bytes.SplitAfter(msg, []byte{1})
		if len(fields) > 0 && len(fields[len(fields)-1]) == 0 {
			fields = fields[:len(fields)-1]
		}
		pick := func(label string) int {
			if len(fields) <= 1 {
				return 0
			}
			return rapid.IntRange(0, len(fields)-1).Draw(t, label)
		}
		setValue := func(i int, v string) {
			f := fields[i]
			if eq := bytes.IndexByte(f, '='); eq >= 0 {
				fields[i] = append(append(append([]byte{}, f[:eq+1]...), v...), 1)
			}
		}
		switch kind {
		case "truncate":
			msg = msg[:rapid.IntRange(0, len(msg)-1).Draw(t, "at")]
			applied = append(applied, kind)
			continue
		case "xml-cut":
			// the message ends inside or right behind its XMLData, and XMLDataLen says exactly (or
			// one more or less than) what is left
			if i, j := bytes.Index(msg, []byte("\x01212=")), bytes.Index(msg, []byte("\x01213=")); i >= 0 && j > i {
				dataStart := j + 5
				cut := rapid.IntRange(dataStart, len(msg)).Draw(t, "cut")
				ln := cut - dataStart + rapid.SampledFrom([]int{0, 0, 1, -1, 2}).Draw(t, "xml-len-delta")
				if ln < 0 {
					ln = 0
				}
				cutMsg := append([]byte{}, msg[:i+5]...)
				cutMsg = append(cutMsg, strconv.Itoa(ln)...)
				msg = append(cutMsg, msg[j:cut]...)
			}
			applied = append(applied, kind)
			continue
		case "drop-checksum":
			if i := bytes.LastIndex(msg, []byte("\x0110=")); i >= 0 {
				msg = msg[:i+1]
			}
			applied = append(applied, kind)
			continue
		case "only-head":
			k := rapid.IntRange(1, 4).Draw(t, "nhead")
			if k < len(fields) {
				fields = fields[:k]
			}
		case "empty-value":
			setValue(pick("f"), "")
		case "timestamp":
			// a time-typed field when there is one (half of the time), otherwise any field
			i := pick("f")
			if rapid.Bool().Draw(t, "time-field") {
				for k, f := range fields {
					if bytes.HasPrefix(f, []byte("52=")) || bytes.HasPrefix(f, []byte("60=")) || bytes.HasPrefix(f, []byte("122=")) {
						i = k
						break
					}
				}
			}
			setValue(i, vk.HostileTimestamp(t, "ts"))
		case "dup-field":
			i := pick("f")
			fields = append(fields[:i+1], append([][]byte{fields[i]}, fields[i+1:]...)...)
		case "swap-fields":
			a, b := pick("a"), pick("b")
			fields[a], fields[b] = fields[b], fields[a]
		case "drop-field":
			i := pick("f")
			fields = append(fields[:i], fields[i+1:]...)
		case "bodylength":
			for i, f := range fields {
				if bytes.HasPrefix(f, []byte("9=")) {
					setValue(i, vk.HostileNumber(t, "len", hostileNumbers))
					break
				}
			}
		case "xmllen":
			done := false
			for i, f := range fields {
				if bytes.HasPrefix(f, []byte("212=")) {
					setValue(i, vk.HostileNumber(t, "xlen", hostileNumbers))
					done = true
					break
				}
			}
			if !done {
				i := pick("f")
				fields = append(fields[:i], append([][]byte{[]byte("212=" + vk.HostileNumber(t, "xlen", hostileNumbers) + "\x01")}, fields[i:]...)...)
			}
		case "count-lies":
			// any numeric field may be a group count under some dictionary: set it to a hostile number
			setValue(pick("f"), vk.HostileNumber(t, "count", hostileNumbers))
		case "drop-soh":
			i := pick("f")
			if len(fields[i]) > 0 {
				fields[i] = fields[i][:len(fields[i])-1]
			}
		case "insert-bytes":
			i := pick("f")
			junk := rapid.SliceOfN(rapid.SampledFrom([]byte{0, 1, '=', '8', '9', '1', '0', 255, 'A'}), 1, 6).Draw(t, "junk")
			fields = append(fields[:i], append([][]byte{junk}, fields[i:]...)...)
		case "empty-tag":
			i := pick("f")
			if eq := bytes.IndexByte(fields[i], '='); eq >= 0 {
				fields[i] = fields[i][eq:]
			}
		}
		msg = bytes.Join(fields, nil)
		applied = append(applied, kind)
	}
	return msg, applied
}

// exerciseMessage runs T1 (parse + accessors) and T3 (validation) on one byte string.
func exerciseMessage(t vk.TB, d map[string]*dictPair, raw []byte, dictName string, muts []string) (parsed bool) {
	mclass := strings.Join(muts, "+")
	if mclass == "" {
		mclass = "unmutated"
	}
	type mode struct {
		name   string
		td, ad *datadictionary.DataDictionary
	}
	modes := []mode{{"nodict", nil, nil}}
	if dictName != "" {
		ad := d[dictName].dd
		if strings.HasPrefix(dictName, "FIX50") {
			modes = append(modes, mode{"fixt", d["FIXT11"].dd, ad})
		} else {
			modes = append(modes, mode{"dict", nil, ad})
		}
	} else {
		modes = append(modes, mode{"dict", nil, d["FIX44"].dd}, mode{"fixt", d["FIXT11"].dd, d["FIX50SP2"].dd})
	}
	for _, md := range modes {
		m := quickfix.NewMessage()
		var err error
		if p := catch(func() {
			// (a copy with no spare capacity behind the message: a read one past the end is a fault, not a silent over-read)
			exact := make([]byte, len(raw))
			copy(exact, raw)
			err = quickfix.ParseMessageWithDataDictionary(m, bytes.NewBuffer(exact), md.td, md.ad)
		}); p != nil {
			c09fail(t, "parse", md.name+"/"+panicClass(p), raw, fmt.Sprintf("ParseMessage panicked: %v (mutations %v)", p, muts))
		}
		// typed accessors on whatever is in the maps, parsed cleanly or not (under a watchdog: "nor hangs")
		if p := catchWatched(t, raw, func() {
			for si, fm := range []*quickfix.FieldMap{&m.Header.FieldMap, &m.Body.FieldMap, &m.Trailer.FieldMap} {
				for _, tag := range fm.Tags() {
					_, _ = fm.GetInt(tag)
					_, _ = fm.GetTime(tag)
					_, _ = fm.GetBool(tag)
					_, _ = fm.GetString(tag)
					_, _ = fm.GetBytes(tag)
					var dec quickfix.FIXDecimal
					_ = fm.GetField(tag, &dec)
					var fl quickfix.FIXFloat
					_ = fm.GetField(tag, &fl)
					if si == 1 {
						g := quickfix.NewRepeatingGroup(tag, quickfix.GroupTemplate{quickfix.GroupElement(tag + 1), quickfix.GroupElement(tag + 2)})
						_ = fm.GetGroup(g)
						if md.ad != nil {
							if mt, e := m.MsgType(); e == nil {
								if def, ok := md.ad.Messages[mt]; ok {
									if fd, ok := def.Fields[int(tag)]; ok && fd.IsGroup() {
										_ = fm.GetGroup(quickfix.NewRepeatingGroup(tag, nestedTemplate(fd.Fields, 0)))
									}
								}
							}
						}
					}
				}
			}
			_ = m.String()
			_ = m.Bytes()
			_, _ = m.MsgType()
		}); p != nil {
			c09fail(t, "accessors", md.name+"/"+panicClass(p), raw, fmt.Sprintf("accessor panicked: %v (parse error %v)", p, err))
		}
		if err != nil {
			continue
		}
		parsed = true
		// T3: validation against every shipped dictionary
		for _, vn := range dictNames {
			vd := d[vn]
			// the validation switches are a user's to set: all on, all off, and a combination picked by the input
			h := 0
			for _, b := range raw {
				h = h*31 + int(b)
			}
			for _, mask := range []int{31, 0, (h & 0x7fffffff) % 32} {
				vs := quickfix.ValidatorSettings{CheckFieldsOutOfOrder: mask&1 != 0, RejectInvalidMessage: mask&2 != 0, CheckUserDefinedFields: mask&4 != 0, CheckFieldsHaveValues: mask&8 != 0, AllowUnknownMessageFields: mask&16 == 0}
				var v quickfix.Validator
				if strings.HasPrefix(vn, "FIX50") {
					v = quickfix.NewValidator(vs, vd.dd, d["FIXT11"].dd)
				} else {
					v = quickfix.NewValidator(vs, vd.dd, nil)
				}
				if p := catch(func() { _ = v.Validate(m) }); p != nil {
					c09fail(t, "validate", vn+"/"+panicClass(p), raw, fmt.Sprintf("Validate(%s) with %+v panicked: %v (parsed in mode %s)", vn, vs, p, md.name))
				}
			}
		}
	}
	return parsed
}

// nestedTemplate builds the group template a dictionary describes, nested groups included.
func nestedTemplate(fields []*datadictionary.FieldDef, depth int) quickfix.GroupTemplate {
	var tmpl quickfix.GroupTemplate
	for _, x := range fields {
		if x.IsGroup() && depth < 4 {
			tmpl = append(tmpl, quickfix.NewRepeatingGroup(quickfix.Tag(x.Tag()), nestedTemplate(x.Fields, depth+1)))
		} else {
			tmpl = append(tmpl, quickfix.GroupElement(quickfix.Tag(x.Tag())))
		}
	}
	return tmpl
}

// c09Limit bounds one pass of the accessors over one message (normally well under a millisecond).
const c09Limit = 60 * time.Second

// catchWatched is catch with a watchdog. A call that does not come back is the "hangs" clause:
// the input is printed with the violation signature and the process ends (the goroutine is
// still spinning, and every shrink attempt would hang again).
func catchWatched(t fataler, raw []byte, f func()) interface{} {
	done := make(chan interface{}, 1)
	go func() { done <- catch(f) }()
	select {
	case p := <-done:
		return p
	case <-time.After(c09Limit):
		sig := "C09/accessors/hang"
		if vk.IsKnownOpen("C09", sig) {
			fmt.Printf("KNOWN-HANG %s\n", sig)
			os.Exit(0)
		}
		saveReplayInput("TestReplay_C09_Input", sig, "accessors\n"+strconv.Quote(string(raw)))
		fmt.Printf("--- FAIL: TestC09_Message\nVIOLATION-SIG %s :: reading the fields of the parsed message did not return within %v; input %q\n", sig, c09Limit, raw)
		os.Exit(1)
	}
	return nil
}

func TestC09_Message(t *testing.T) {
	c := c09()
	rapid.Check(t, func(t *rapid.T) {
		vk.Guard(func() {
			d := dicts(t)
			valid, dictName := genValidMessage(t, d)
			raw, muts := mutateMessage(t, valid)
			c.Eval()
			c.Class("target:message")
			for _, m := range muts {
				c.Class("message-mutation:" + m)
			}
			if exerciseMessage(t, d, raw, dictName, muts) {
				c.Class("message:parsed")
				c.NonTrivial(stats.Hash("msg", raw))
				c.SampleClass("message/"+strings.Join(muts, "+"), vk.Show(clipBytes(raw)))
			}
		})
	})
}

// ---------------------------------------------------------------- T2 stream framing

func TestC09_Stream(t *testing.T) {
	c := c09()
	rapid.Check(t, func(t *rapid.T) {
		vk.Guard(func() {
			var stream []byte
			n := rapid.IntRange(1, 30).Draw(t, "nfrag")
			for i := 0; i < n; i++ {
				if rapid.IntRange(0, 4).Draw(t, "valid") == 0 {
					stream = append(stream, genStreamMessage(t)...)
				} else if rapid.IntRange(0, 5).Draw(t, "hostile-length") == 0 {
					stream = append(stream, []byte(rapid.SampledFrom([]string{"8=FIX.4.2\x019=", "9=", "8=FIXT.1.1\x019="}).Draw(t, "head")+vk.HostileNumber(t, "len", hostileNumbers)+"\x01")...)
				} else {
					stream = append(stream, rapid.SampledFrom(append(soupFragments, []byte("9=99999999999999999999\x01"), []byte("9=-5\x01"), []byte("8=FIX.4.2\x019=\x01"), []byte("8=FIX.4.2\x019=2147483647\x01"))).Draw(t, "frag")...)
				}
			}
			sizes := rapid.SliceOfN(rapid.IntRange(1, 64), 1, 4).Draw(t, "sizes")
			c.Eval()
			c.Class("target:stream")
			res := runFramer(stream, sizes, rapid.Bool().Draw(t, "eof-with-data"))
			if res.panic != nil {
				c09fail(t, "stream", "panic/"+panicClass(res.panic), stream, fmt.Sprintf("ReadMessage panicked: %v", res.panic))
			}
			if res.hang {
				c09fail(t, "stream", "hang", stream, "ReadMessage exceeded the read bound")
			}
			if len(res.frames) > 0 {
				c.Class("stream:framed")
				c.NonTrivial(stats.Hash("stream", stream))
				c.SampleClass("stream", map[string]interface{}{"stream": vk.Show(clipBytes(stream)), "frames": len(res.frames), "terminal": res.err})
				// every frame goes through T1/T3 as well
				d := dicts(t)
				for _, f := range res.frames {
					exerciseMessage(t, d, f, "", []string{"framed-from-soup"})
				}
			}
		})
	})
}

// ---------------------------------------------------------------- T4 settings text

// settingKeys: every key is read through every typed accessor (present or not, well-typed or not).
var settingKeys = []string{"BeginString", "SenderCompID", "TargetCompID", "SessionQualifier", "HeartBtInt", "ConnectionType", "ResetOnLogon", "ResetOnLogout", "ResetOnDisconnect", "RefreshOnLogon",
	"PersistMessages", "CheckLatency", "MaxLatency", "StartTime", "EndTime", "StartDay", "EndDay", "Weekdays", "TimeZone", "SocketAcceptPort", "SocketConnectPort", "SocketConnectHost", "ReconnectInterval",
	"LogonTimeout", "LogoutTimeout", "ResendRequestChunkSize", "TimeStampPrecision", "DataDictionary", "RejectInvalidMessage", "EnableLastMsgSeqNumProcessed", "HeartBtIntOverride", "DynamicSessions", "ResetSeqTime", "Key", "key"}

type nopApp struct{}

func (nopApp) OnCreate(quickfix.SessionID)                       {}
func (nopApp) OnLogon(quickfix.SessionID)                        {}
func (nopApp) OnLogout(quickfix.SessionID)                       {}
func (nopApp) ToAdmin(*quickfix.Message, quickfix.SessionID)     {}
func (nopApp) ToApp(*quickfix.Message, quickfix.SessionID) error { return nil }
func (nopApp) FromAdmin(*quickfix.Message, quickfix.SessionID) quickfix.MessageRejectError {
	return nil
}
func (nopApp) FromApp(*quickfix.Message, quickfix.SessionID) quickfix.MessageRejectError { return nil }

var settingsLines = []string{"ResetOnLogon=", "ResetOnLogon=Y", "ResetOnLogout=n", "PersistMessages=", "HeartBtInt=", "HeartBtInt=x", "HeartBtInt=-5", "HeartBtInt=9223372036854775807", "MaxLatency=", "LogonTimeout=1h", "LogonTimeout=",
	"StartTime=09:00:00", "EndTime=", "EndTime=25:00:00", "StartDay=Mon", "EndDay=", "Weekdays=Mon,,Tue", "TimeZone=Nowhere/Land", "TimeZone=", "SocketAcceptPort=", "SocketAcceptPort=99999", "SocketConnectPort=5001", "SocketConnectHost=",
	"ResendRequestChunkSize=-1", "TimeStampPrecision=", "TimeStampPrecision=PICOS", "DataDictionary=", "DataDictionary=/nonexistent.xml", "ResetSeqTime=", "ResetSeqTime=12:00", "DynamicSessions=Y", "ConnectionType=acceptor", "ConnectionType=", "[DEFAULT]", "[SESSION]", "[default]", "[Session]", "[SESSION] ", "[OTHER]", "BeginString=FIX.4.2", "BeginString=FIX.9.9", "BeginString=FIXT.1.1", "SenderCompID=A", "TargetCompID=B",
	"SenderCompID=", "=value", "noequals", "key=val=ue", "# comment", "", "   ", "SessionQualifier=q", "HeartBtInt=30", "[", "]", "[SESSION", "\tKey = spaced ", "TargetCompID=B\r", "ConnectionType=initiator"}

// settingsWellTyped: well-typed lines for every key a session or an engine reads - a loader must
// cope with any subset of them (a key present without the companions it is usually written with).
var settingsWellTyped = []string{"ResetSeqTime=12:00:00", "StartTime=09:00:00", "EndTime=17:00:00", "StartDay=Mon", "EndDay=Fri", "Weekdays=Mon,Tue,Sun", "TimeZone=America/New_York", "TimeZone=UTC",
	"TimeStampPrecision=MICROS", "ResetOnLogon=Y", "RefreshOnLogon=Y", "ResetOnLogout=Y", "ResetOnDisconnect=Y", "RejectInvalidMessage=N", "AllowUnknownMsgFields=Y", "ValidateUserDefinedFields=N", "ValidateFieldsOutOfOrder=N",
	"ValidateFieldsHaveValues=N", "CheckLatency=N", "MaxLatency=120", "InChanCapacity=10", "ReconnectInterval=5", "LogoutTimeout=2", "LogonTimeout=10", "HeartBtIntOverride=Y", "SocketTimeout=5s", "ProxyType=socks", "ProxyHost=127.0.0.1",
	"ProxyPort=1080", "ProxyUser=u", "ProxyPassword=p", "SocketAcceptHost=127.0.0.1", "UseTCPProxy=Y", "DynamicSessions=Y", "DynamicQualifier=Y", "SocketPrivateKeyFile=/nonexistent.key", "SocketCertificateFile=/nonexistent.crt",
	"SocketCAFile=/nonexistent.ca", "SocketInsecureSkipVerify=Y", "SocketServerName=peer", "SocketMinimumTLSVersion=TLS12", "SocketMinimumTLSVersion=SSL30", "SocketUseSSL=Y", "PersistMessages=N", "ResendRequestChunkSize=5",
	"EnableLastMsgSeqNumProcessed=Y", "EnableNextExpectedMsgSeqNum=Y", "SenderSubID=ss", "TargetSubID=ts", "SenderLocationID=sl", "TargetLocationID=tl", "SessionQualifier=q2", "DefaultApplVerID=FIX.5.0SP2", "DefaultApplVerID=7",
	"DataDictionary=" + specDir + "FIX44.xml", "TransportDataDictionary=" + specDir + "FIXT11.xml", "AppDataDictionary=" + specDir + "FIX50SP2.xml"}

func TestC09_Settings(t *testing.T) {
	c := c09()
	rapid.Check(t, func(t *rapid.T) {
		vk.Guard(func() {
			n := rapid.IntRange(0, 14).Draw(t, "nlines")
			var lines []string
			for i := 0; i < n; i++ {
				switch rapid.IntRange(0, 6).Draw(t, "free") {
				case 0:
					lines = append(lines, rapid.StringMatching(`[\[\]=#A-Za-z .]{0,12}`).Draw(t, "line"))
				case 1, 2, 3:
					lines = append(lines, rapid.SampledFrom(settingsWellTyped).Draw(t, "line"))
				default:
					lines = append(lines, rapid.SampledFrom(settingsLines).Draw(t, "line"))
				}
			}
			if rapid.Bool().Draw(t, "sound-skeleton") {
				// a sound file (engines can be built from it) with the generated lines inserted into it
				skel := []string{"[DEFAULT]", "ConnectionType=" + rapid.SampledFrom([]string{"acceptor", "initiator"}).Draw(t, "role"), "SocketAcceptPort=5001", "SocketConnectHost=127.0.0.1", "SocketConnectPort=5002", "HeartBtInt=30",
					"[SESSION]", "BeginString=" + rapid.SampledFrom([]string{"FIX.4.2", "FIX.4.4", "FIXT.1.1"}).Draw(t, "begin"), "SenderCompID=A", "TargetCompID=B", "DefaultApplVerID=9"}
				for _, l := range lines {
					at := rapid.IntRange(1, len(skel)).Draw(t, "at")
					skel = append(skel[:at], append([]string{l}, skel[at:]...)...)
				}
				lines = skel
			}
			text := strings.Join(lines, rapid.SampledFrom([]string{"\n", "\n", "\r\n"}).Draw(t, "eol"))
			c.Eval()
			c.Class("target:settings")
			var s *quickfix.Settings
			var err error
			if p := catch(func() { s, err = quickfix.ParseSettings(strings.NewReader(text)) }); p != nil {
				c09fail(t, "settings", "panic/"+panicClass(p), []byte(text), fmt.Sprintf("ParseSettings panicked: %v", p))
			}
			if err == nil && s != nil {
				c.Class("settings:accepted")
				if p := catch(func() {
					all := []*quickfix.SessionSettings{s.GlobalSettings()}
					for _, ss := range s.SessionSettings() {
						all = append(all, ss)
					}
					for _, ss := range all {
						for _, k := range settingKeys {
							_ = ss.HasSetting(k)
							_, _ = ss.Setting(k)
							_, _ = ss.RawSetting(k)
							_, _ = ss.IntSetting(k)
							_, _ = ss.BoolSetting(k)
							_, _ = ss.DurationSetting(k)
						}
					}
				}); p != nil {
					c09fail(t, "settings", "accessor-panic/"+panicClass(p), []byte(text), fmt.Sprintf("settings accessor panicked: %v", p))
				}
				// the settings are what engines are built from: building (not starting) one must
				// answer with an engine or an error
				if p := catch(func() {
					// (sessions register globally when an engine is built: one engine per case, unregistered afterwards)
					defer func() {
						for id := range s.SessionSettings() {
							_ = quickfix.UnregisterSession(id)
						}
					}()
					if strings.Contains(text, "ConnectionType=initiator") {
						if i, e := quickfix.NewInitiator(nopApp{}, quickfix.NewMemoryStoreFactory(), s, quickfix.NewNullLogFactory()); e == nil && i != nil {
							c.Class("settings:initiator-built")
						}
					} else if a, e := quickfix.NewAcceptor(nopApp{}, quickfix.NewMemoryStoreFactory(), s, quickfix.NewNullLogFactory()); e == nil && a != nil {
						c.Class("settings:acceptor-built")
					}
				}); p != nil {
					c09fail(t, "settings", "engine-construction-panic/"+panicClass(p), []byte(text), fmt.Sprintf("building an engine from the settings panicked: %v", p))
				}
			}
			if strings.Contains(text, "[") {
				c.NonTrivial(stats.Hash("settings", text))
				c.SampleClass(fmt.Sprintf("settings/accepted=%v", err == nil), text)
			}
		})
	})
}

// ---------------------------------------------------------------- T5 dictionary text (child process)

var dictFragments = []string{
	"<fix major='4' type='FIX' servicepack='0' minor='4'>", "<fix major='x' type='FIX' minor='4'>", "<fix type='OTHER' major='4' minor='4'>", "</fix>",
	"<header>", "</header>", "<trailer>", "</trailer>", "<messages>", "</messages>", "<components>", "</components>", "<fields>", "</fields>",
	"<message name='M' msgcat='app' msgtype='U'>", "</message>", "<component name='A'>", "<component name='B'>", "</component>",
	"<component name='A' required='Y' />", "<component name='B' required='N' />", "<component name='Nowhere' required='Y' />",
	"<field name='F1' required='Y' />", "<field name='F2' required='N' />", "<field name='Nowhere' required='N' />",
	"<group name='G' required='N'>", "<group name='F1' required='Y'>", "</group>", "<group name='G' required='Y' />",
	"<field number='1' name='F1' type='STRING' />", "<field number='2' name='F2' type='INT'>", "<value enum='A' description='X' />", "</field>",
	"<field number='3' name='G' type='NUMINGROUP' />", "<field number='x' name='Bad' type='INT' />", "<field number='4' name='T' type='WEIRDTYPE' />", "<field name='NoNumber' type='INT' />",
}

func genDictText(t *rapid.T) (string, bool) {
	if rapid.IntRange(0, 2).Draw(t, "structured") != 0 {
		// a structurally sound skeleton with generated component references (cycles included)
		var b strings.Builder
		nc := rapid.IntRange(1, 4).Draw(t, "ncomps")
		cyclic := false
		b.WriteString("<fix major='4' type='FIX' servicepack='0' minor='4'>\n<header><field name='F1' required='Y' /></header>\n<messages><message name='M' msgcat='app' msgtype='U'>\n")
		fmt.Fprintf(&b, "<component name='C%d' required='%s' />\n", rapid.IntRange(0, nc-1).Draw(t, "msgcomp"), rapid.SampledFrom([]string{"Y", "N"}).Draw(t, "req"))
		if rapid.Bool().Draw(t, "msg-group") {
			b.WriteString("<group name='G' required='N'><field name='F2' required='Y' /><component name='C0' required='N' /></group>\n")
		}
		b.WriteString("</message></messages>\n<trailer><field name='F1' required='Y' /></trailer>\n<components>\n")
		for i := 0; i < nc; i++ {
			fmt.Fprintf(&b, "<component name='C%d'>\n", i)
			nm := rapid.IntRange(0, 3).Draw(t, "nmembers")
			for j := 0; j < nm; j++ {
				switch rapid.IntRange(0, 3).Draw(t, "member") {
				case 0:
					ref := rapid.IntRange(0, nc).Draw(t, "ref") // nc = dangling
					if ref <= i {
						cyclic = true
					}
					fmt.Fprintf(&b, " <component name='C%d' required='%s' />\n", ref, rapid.SampledFrom([]string{"Y", "N"}).Draw(t, "creq"))
				case 1:
					ref := rapid.IntRange(0, nc-1).Draw(t, "gref")
					if ref <= i {
						cyclic = true
					}
					fmt.Fprintf(&b, " <group name='G' required='N'><field name='F2' required='N' /><component name='C%d' required='Y' /></group>\n", ref)
				default:
					fmt.Fprintf(&b, " <field name='F%d' required='Y' />\n", rapid.IntRange(1, 3).Draw(t, "f"))
				}
			}
			b.WriteString("</component>\n")
		}
		b.WriteString("</components>\n<fields><field number='1' name='F1' type='STRING' /><field number='2' name='F2' type='INT' /><field number='3' name='G' type='NUMINGROUP' /></fields>\n</fix>\n")
		return b.String(), cyclic
	}
	n := rapid.IntRange(1, 25).Draw(t, "nfrag")
	var b strings.Builder
	for i := 0; i < n; i++ {
		b.WriteString(rapid.SampledFrom(dictFragments).Draw(t, "frag"))
		b.WriteString("\n")
	}
	return b.String(), true
}

func TestC09_Dictionary(t *testing.T) {
	c := c09()
	dir := vk.Scratch("c09dict-")
	defer os.RemoveAll(dir)
	n := 0
	rapid.Check(t, func(t *rapid.T) {
		vk.Guard(func() {
			text, risky := genDictText(t)
			c.Eval()
			c.Class("target:dictionary")
			n++
			path := filepath.Join(dir, fmt.Sprintf("d%d.xml", n%8))
			if err := os.WriteFile(path, []byte(text), 0o644); err != nil {
				t.Fatalf("harness: %v", err)
			}
			if risky {
				c.Class("dictionary:in-child-process")
				// a stack overflow is fatal in Go: load in a child process; the input is on disk before the call
				cmd := exec.Command(os.Args[0], "-test.run", "^TestC09_DictChild$")
				cmd.Env = append(os.Environ(), "VERIF_CHILD_DICT="+path, "VERIF_STATS=")
				out, err := cmd.CombinedOutput()
				if err != nil {
					cls := "fatal"
					if strings.Contains(string(out), "stack overflow") || strings.Contains(string(out), "goroutine stack exceeds") {
						cls = "stack-overflow"
					} else if strings.Contains(string(out), "CHILD-PANIC") {
						cls = "panic"
					}
					tail := string(out)
					if len(tail) > 600 {
						tail = tail[:600]
					}
					c09fail(t, "dictionary", cls, []byte(text), fmt.Sprintf("loading the dictionary killed the process (%v): %s", err, tail))
				}
			} else {
				var derr error
				var dd *datadictionary.DataDictionary
				if p := catch(func() { dd, derr = datadictionary.Parse(path) }); p != nil {
					c09fail(t, "dictionary", "panic/"+panicClass(p), []byte(text), fmt.Sprintf("datadictionary.Parse panicked: %v", p))
				}
				if derr == nil && dd != nil {
					c.Class("dictionary:loaded")
				}
			}
			if strings.Contains(text, "<component name=") {
				c.NonTrivial(stats.Hash("dict", text))
				c.SampleClass(fmt.Sprintf("dictionary/risky=%v", risky), text)
			}
		})
	})
}

// TestC09_DictChild is the child-process body: load the dictionary named by the environment.
func TestC09_DictChild(t *testing.T) {
	p := os.Getenv("VERIF_CHILD_DICT")
	if p == "" {
		t.Skip("not a child")
	}
	defer func() {
		if r := recover(); r != nil {
			fmt.Println("CHILD-PANIC", r)
			os.Exit(3)
		}
	}()
	// fail fast on unbounded recursion instead of growing the stack to the 1 GB default limit
	debug.SetMaxStack(16 << 20)
	_, err := datadictionary.Parse(p)
	fmt.Println("CHILD-OK", err)
}

// TestReplay_C09_Input re-runs one saved input: first line target, second line the quoted bytes.
func TestReplay_C09_Input(t *testing.T) {
	p := os.Getenv("VERIF_REPLAY")
	if p == "" {
		t.Skip("no VERIF_REPLAY")
	}
	b, err := os.ReadFile(p)
	if err != nil {
		t.Fatal(err)
	}
	parts := strings.SplitN(string(b), "\n", 2)
	raw, err := strconv.Unquote(strings.TrimSpace(parts[1]))
	if err != nil {
		t.Fatal(err)
	}
	vk.Guard(func() { replayC09(t, parts[0], []byte(raw)) })
}

func replayC09(t vk.TB, target string, raw []byte) {
	switch target {
	case "parse", "accessors", "validate":
		exerciseMessage(t, dicts(t), raw, "", []string{"replay"})
	case "stream":
		res := runFramer(raw, []int{7}, false)
		if res.panic != nil || res.hang {
			c09fail(t, "stream", "panic-or-hang", raw, fmt.Sprint(res.panic))
		}
	case "settings":
		if p := catch(func() { _, _ = quickfix.ParseSettings(bytes.NewReader(raw)) }); p != nil {
			c09fail(t, "settings", "panic/"+panicClass(p), raw, fmt.Sprint(p))
		}
	case "dictionary":
		dir := vk.Scratch("c09replay-")
		defer os.RemoveAll(dir)
		path := filepath.Join(dir, "d.xml")
		_ = os.WriteFile(path, raw, 0o644)
		cmd := exec.Command(os.Args[0], "-test.run", "^TestC09_DictChild$")
		cmd.Env = append(os.Environ(), "VERIF_CHILD_DICT="+path, "VERIF_STATS=")
		if out, err := cmd.CombinedOutput(); err != nil {
			c09fail(t, "dictionary", "fatal", raw, fmt.Sprintf("%v: %.300s", err, out))
		}
	}
}

// TestReplay_C09_Fixed: plain regression inputs of the repaired crashers.
func TestReplay_C09_Fixed(t *testing.T) {
	vk.Guard(func() {
		for _, in := range []string{
			"8=FIX.4.1\x019=41\x0135=0\x0149",                                                // truncated: no CheckSum
			"8=FIX.4.2\x01",                                                                  // only BeginString
			"8=FIX.4.2\x019=5\x01",                                                           // ends after BodyLength
			"8=FIX.4.2\x019=20\x0135=D\x01453=2\x01448=A\x01",                                // ends inside a group (with a dictionary)
			"8=FIX.4.2\x019=10\x0135=n\x01212=99999\x01213=x\x0110=000\x01",                  // XMLDataLen beyond the message
			"8=FIX.4.2\x019=82\x0135=0\x0149=S\x0156=T\x0134=2\x01212=8\x01213=01\x01a",      // XMLDataLen beyond, no checksum
			"8=FIX.4.2\x019=5\x0135=0\x0134=\x0110=000\x01",                                  // empty integer field
			"8=FIX.4.2\x019=40\x0135=n\x01212=9223372036854775807\x01213=<a/>\x0110=000\x01", // XMLDataLen wraps the end offset
			"8=FIXT.1.1\x019=45\x0135=D\x01212=9223372036854775806\x0149=S\x0156=T\x0134=2\x01",
		} {
			replayC09(t, "parse", []byte(in))
		}
		// BodyLength wraps the frame offset
		replayC09(t, "stream", []byte("8=FIX.4.2\x019=9223372036854775807\x0135=0\x0110=000\x01"))
		replayC09(t, "stream", []byte("8=FIX.4.2\x019=9223372036854775795\x0135=0\x0110=000\x018=FIX.4.2\x019=5\x0135=0\x0110=161\x01"))
		replayC09(t, "settings", []byte("SenderCompID=A\n[DEFAULT]\n"))
		replayC09(t, "dictionary", []byte("<fix major='4' type='FIX' servicepack='0' minor='4'><header/><messages/><trailer/><components><component name='A'><component name='B' required='Y'/></component><component name='B'><component name='A' required='Y'/></component></components><fields/></fix>"))
	})
}

#!/bin/bash
# tools/mutcheck.sh <name> <ID[,ID...]> (--revert <commit> | --patch <file>) [tier]
# Applies a change to a scratch worktree of /repo, runs the checks against it, prints the verdicts, removes the worktree.
set -u
name=$1; ids=$2; mode=$3; arg=$4; tier=${5:-quick}
wt=/tmp/mut-$name-$$
git -C /repo worktree add -q "$wt" HEAD || exit 3
cd "$wt"
if [ "$mode" = "--revert" ]; then git revert --no-edit "$arg" >/dev/null 2>&1 || { echo "revert failed"; git -C /repo worktree remove --force "$wt"; exit 3; }
else git apply "$arg" || { echo "patch failed"; git -C /repo worktree remove --force "$wt"; exit 3; }; fi
export GOFLAGS=-mod=mod GOPROXY=off GOSUMDB=off GOTOOLCHAIN=local
if ! go build ./... ; then echo "$name: DOES NOT BUILD"; git -C /repo worktree remove --force "$wt"; exit 3; fi
cd /verif
for id in ${ids//,/ }; do
  out=$(VERIF_REPO="$wt" ./check "$id" "$tier" 2>&1); rc=$?
  sig=$(echo "$out" | grep -m3 'signature:' | tr '\n' ' ')
  echo "MUT $name $id -> exit $rc $sig"
  rm -rf /verif/replay/$id/new-* 2>/dev/null
done
git -C /repo worktree remove --force "$wt"; git -C /repo worktree prune

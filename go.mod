module verif

go 1.23

require (
	github.com/mattn/go-sqlite3 v1.14.22
	github.com/quagmt/udecimal v1.8.0
	github.com/quickfixgo/quickfix v0.0.0
	github.com/shopspring/decimal v1.4.0
	pgregory.net/rapid v1.3.0
)

require (
	github.com/pires/go-proxyproto v0.7.0 // indirect
	github.com/pkg/errors v0.9.1 // indirect
	golang.org/x/net v0.24.0 // indirect
)

replace github.com/quickfixgo/quickfix => /repo

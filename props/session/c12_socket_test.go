package session

// C12, real-socket stage (thorough tier): the frames a listening Acceptor hands to its session
// do not depend on how the client's bytes are split into writes. The production path is used
// end to end: accept, first-message handling, read loop, run loop.

import (
	"fmt"
	"net"
	"strconv"
	"strings"
	"sync"
	"testing"
	"time"

	"github.com/quickfixgo/quickfix"
	"pgregory.net/rapid"

	"verif/fixwire"
	"verif/peer"
	"verif/stats"
	"verif/vk"
)

type frameApp struct {
	mu   sync.Mutex
	seen []string // "<MsgType><MsgSeqNum>" of every inbound message handed to a callback
}

func (a *frameApp) note(m *quickfix.Message) {
	mt, _ := m.Header.GetString(35)
	n, _ := m.Header.GetInt(34)
	a.mu.Lock()
	a.seen = append(a.seen, mt+strconv.Itoa(n))
	a.mu.Unlock()
}
func (a *frameApp) OnCreate(quickfix.SessionID)                       {}
func (a *frameApp) OnLogon(quickfix.SessionID)                        {}
func (a *frameApp) OnLogout(quickfix.SessionID)                       {}
func (a *frameApp) ToAdmin(*quickfix.Message, quickfix.SessionID)     {}
func (a *frameApp) ToApp(*quickfix.Message, quickfix.SessionID) error { return nil }
func (a *frameApp) FromAdmin(m *quickfix.Message, _ quickfix.SessionID) quickfix.MessageRejectError {
	a.note(m)
	return nil
}
func (a *frameApp) FromApp(m *quickfix.Message, _ quickfix.SessionID) quickfix.MessageRejectError {
	a.note(m)
	return nil
}
func (a *frameApp) take() []string {
	a.mu.Lock()
	defer a.mu.Unlock()
	out := a.seen
	a.seen = nil
	return out
}

func TestC12_AcceptorSocket(t *testing.T) {
	if !vk.Thorough() {
		t.Skip("thorough tier only")
	}
	c := stats.Get("C12")
	app := &frameApp{}
	r, err := newSockRigWithApp(t, false, app)
	if err != nil {
		t.Skipf("cannot listen on loopback: %v", err)
	}
	defer r.acc.Stop()
	if ok, why, _ := r.alive(); !ok {
		t.Skipf("acceptor not reachable: %s", why)
	}
	time.Sleep(100 * time.Millisecond)
	app.take()
	rapid.Check(t, func(t *rapid.T) {
		vk.Guard(func() {
			p := peer.New("FIX.4.2", r.id.TargetCompID, r.id.SenderCompID)
			var stream []byte
			var want []string
			add := func(mt string, body []fixwire.Field) {
				n, f := p.Next(mt, body)
				stream = append(stream, f...)
				want = append(want, mt+strconv.Itoa(n))
			}
			add("A", p.LogonBody(30, true))
			k := rapid.IntRange(1, 12).Draw(t, "messages")
			for i := 0; i < k; i++ {
				switch rapid.SampledFrom([]string{"0", "1", "D", "D"}).Draw(t, "type") {
				case "0":
					add("0", nil)
				case "1":
					add("1", []fixwire.Field{fixwire.F(112, "t"+strconv.Itoa(i))})
				default:
					pad := strings.Repeat("x", rapid.SampledFrom([]int{0, 0, 10, 300, 5000}).Draw(t, "pad"))
					add("D", []fixwire.Field{fixwire.F(11, "o"+strconv.Itoa(i)), fixwire.F(55, "IBM"), fixwire.F(54, "1"), fixwire.F(58, "t"+pad)})
				}
			}
			// the last message is a TestRequest: its Heartbeat answer tells that everything before it has been handled
			add("1", []fixwire.Field{fixwire.F(112, "LAST")})
			var chunks []int
			switch rapid.SampledFrom([]string{"whole", "whole", "per-byte", "generated", "logon-plus-more"}).Draw(t, "partition") {
			case "whole":
				chunks = []int{len(stream)}
			case "per-byte":
				chunks = []int{1}
			case "logon-plus-more":
				first := strings.Index(string(stream), "\x0110=") + 8
				chunks = []int{first + rapid.IntRange(0, 40).Draw(t, "beyond-logon"), len(stream)}
			default:
				chunks = rapid.SliceOfN(rapid.IntRange(1, 700), 1, 6).Draw(t, "chunks")
			}
			conn, err := net.DialTimeout("tcp", "127.0.0.1:"+strconv.Itoa(r.port), 5*time.Second)
			if err != nil {
				c.Class("socket:dial-failed")
				return
			}
			defer conn.Close()
			for off, i := 0, 0; off < len(stream); i++ {
				end := off + chunks[i%len(chunks)]
				if end > len(stream) {
					end = len(stream)
				}
				if _, err := conn.Write(stream[off:end]); err != nil {
					break
				}
				off = end
			}
			// read until the Heartbeat answering LAST arrives (or the budget ends)
			_ = conn.SetReadDeadline(time.Now().Add(10 * time.Second))
			var got []byte
			buf := make([]byte, 8192)
			answered, worst := false, time.Duration(0)
			for !answered {
				a := time.Now()
				n, err := conn.Read(buf)
				if d := time.Since(a); err == nil && d > worst {
					worst = d
				}
				got = append(got, buf[:n]...)
				answered = strings.Contains(string(got), "\x01112=LAST\x01")
				if err != nil {
					break
				}
			}
			seen := app.take()
			// end the connection in an orderly way and wait until the acceptor has let go of the
			// session (the next case connects to the same session)
			_, lo := p.Next("5", nil)
			_, _ = conn.Write(lo)
			_ = conn.SetReadDeadline(time.Now().Add(5 * time.Second))
			for {
				if _, err := conn.Read(buf); err != nil {
					break
				}
			}
			conn.Close()
			time.Sleep(20 * time.Millisecond)
			app.take()
			c.Eval()
			c.Class("socket-partition")
			c.NonTrivial(stats.Hash("c12sock", stream, fmt.Sprint(chunks)))
			if strings.Join(seen, ",") == strings.Join(want, ",") {
				return
			}
			// a control for a stalled machine: a fresh logon must be answered promptly, otherwise do not judge
			if ok, _, stalled := r.alive(); !ok || stalled {
				c.Class("socket:inconclusive(acceptor-or-machine-unresponsive)")
				return
			}
			time.Sleep(100 * time.Millisecond)
			app.take()
			vk.Violation(t, c, "C12/socket/frames-depend-on-writes", "stream of %d messages written as chunks %v: the session was handed %v, the stream holds %v (answer to the final TestRequest seen: %v)", len(want), chunks, seen, want, answered)
		})
	})
}

package store

// C17 - a crash never leaves the persistent store ahead of or without its messages.
// Fault enumeration inside PBT: rapid draws a session-like history and the interrupted
// operation; the crash-point hook (H3) snapshots the store files at every step of that
// operation; every kill / torn-write / power-loss image is materialised and reopened.

import (
	"bytes"
	"fmt"
	"os"
	"path/filepath"
	"sort"
	"strings"
	"testing"

	"github.com/quickfixgo/quickfix"
	"github.com/quickfixgo/quickfix/store/file"
	"pgregory.net/rapid"

	"verif/stats"
	"verif/storekit"
	"verif/vk"
)

const c17Rule = "rapid draws a session-like history (save-and-increment with the next sender number, target increments/sets, reset, refresh, reopen; 1-15 operations) and the interrupted operation; every crash image of that operation is enumerated from hook snapshots: kill at every crash point, torn variants of the in-flight write cut at every byte, power-loss variants keeping only synced content for every subset of dirty files; each image is reopened and compared with the before/after models; non-trivial = image taken strictly inside an operation of a history with >=1 completed save; distinct = distinct (operation, label, image kind, image bytes). SQL: every statement of save-and-increment failed in turn through a wrapping database/sql driver"

func c17() *stats.Collector {
	c := stats.Get("C17")
	c.SetRule(c17Rule)
	return c
}

var storeSuffixes = []string{"body", "header", "session", "senderseqnums", "targetseqnums"}

type dirState map[string][]byte // suffix -> content; missing key = file absent

func readDir(dir string) dirState {
	st := dirState{}
	ents, _ := os.ReadDir(dir)
	for _, e := range ents {
		name := e.Name()
		i := strings.LastIndexByte(name, '.')
		if i < 0 {
			continue
		}
		b, err := os.ReadFile(filepath.Join(dir, name))
		if err == nil {
			st[name[i+1:]] = b
		}
	}
	return st
}

func (d dirState) clone() dirState {
	c := dirState{}
	for k, v := range d {
		c[k] = append([]byte(nil), v...)
	}
	return c
}

func (d dirState) key() string {
	var sb strings.Builder
	for _, s := range storeSuffixes {
		if v, ok := d[s]; ok {
			fmt.Fprintf(&sb, "%s=%q;", s, v)
		} else {
			fmt.Fprintf(&sb, "%s=<absent>;", s)
		}
	}
	return sb.String()
}

type crashSnap struct {
	label   string
	files   dirState
	durable dirState
}

type crashImage struct {
	kind  string // kill | torn | powerloss
	label string
	files dirState
}

func suffixOf(path string) string {
	if i := strings.LastIndexByte(path, '.'); i >= 0 {
		return path[i+1:]
	}
	return path
}

// enumerateImages builds every crash image from the snapshot sequence of one operation.
func enumerateImages(snaps []crashSnap) []crashImage {
	var out []crashImage
	seen := map[string]bool{}
	add := func(kind, label string, f dirState) {
		k := kind + "|" + label + "|" + f.key()
		if seen[k] {
			return
		}
		seen[k] = true
		out = append(out, crashImage{kind, label, f})
	}
	for i, s := range snaps {
		add("kill", s.label, s.files)
		// power loss: every subset of dirty files falls back to its durable content
		var dirty []string
		for _, suf := range storeSuffixes {
			cur, okc := s.files[suf]
			dur, okd := s.durable[suf]
			if okc != okd || !bytes.Equal(cur, dur) {
				dirty = append(dirty, suf)
			}
		}
		for mask := 1; mask < 1<<len(dirty); mask++ {
			img := s.files.clone()
			for b, suf := range dirty {
				if mask&(1<<b) != 0 {
					if dur, ok := s.durable[suf]; ok {
						img[suf] = append([]byte(nil), dur...)
					} else {
						delete(img, suf)
					}
				}
			}
			add("powerloss", s.label, img)
		}
		// torn: the single write between this snapshot and the next, cut at every byte
		if i+1 < len(snaps) {
			n := snaps[i+1]
			var changed []string
			for _, suf := range storeSuffixes {
				a, oka := s.files[suf]
				b, okb := n.files[suf]
				if oka && okb && !bytes.Equal(a, b) {
					changed = append(changed, suf)
				}
			}
			if len(changed) == 1 {
				suf := changed[0]
				old, nw := s.files[suf], n.files[suf]
				d := 0
				for d < len(old) && d < len(nw) && old[d] == nw[d] {
					d++
				}
				for j := 1; d+j < len(nw); j++ {
					img := s.files.clone()
					t := append([]byte(nil), nw[:d+j]...)
					if d+j < len(old) {
						t = append(t, old[d+j:]...)
					}
					img[suf] = t
					add("torn", n.label, img)
				}
			}
		}
	}
	return out
}

type c17op struct {
	kind string // saveincr | incrtarget | settarget | reset | refresh | reopen
	arg  int
	msg  []byte
}

func (o c17op) String() string {
	switch o.kind {
	case "saveincr":
		return fmt.Sprintf("SaveAndIncr(%dB)", len(o.msg))
	case "settarget":
		return fmt.Sprintf("SetTarget(%d)", o.arg)
	}
	return o.kind
}

func applyOp(st *quickfix.MessageStore, m *storeModel, op c17op, factory quickfix.MessageStoreFactory, id quickfix.SessionID) error {
	switch op.kind {
	case "saveincr":
		seq := m.sender
		if err := (*st).SaveMessageAndIncrNextSenderMsgSeqNum(seq, op.msg); err != nil {
			return err
		}
		m.msgs[seq] = op.msg
		m.lastSaved = seq
		m.sender++
	case "incrtarget":
		if err := (*st).IncrNextTargetMsgSeqNum(); err != nil {
			return err
		}
		m.target++
	case "settarget":
		if err := (*st).SetNextTargetMsgSeqNum(op.arg); err != nil {
			return err
		}
		m.target = op.arg
	case "reset":
		if err := (*st).Reset(); err != nil {
			return err
		}
		*m = *newStoreModel()
	case "refresh":
		return (*st).Refresh()
	case "reopen":
		if err := (*st).Close(); err != nil {
			return err
		}
		n, err := factory.Create(id)
		if err != nil {
			return err
		}
		*st = n
	}
	return nil
}

func cloneModel(m *storeModel) *storeModel {
	c := &storeModel{sender: m.sender, target: m.target, msgs: map[int][]byte{}, lastSaved: m.lastSaved, created: m.created}
	for k, v := range m.msgs {
		c.msgs[k] = v
	}
	return c
}

func c17Property(t *rapid.T) {
	nOps := rapid.IntRange(1, 15).Draw(t, "nops")
	var ops []c17op
	for i := 0; i < nOps; i++ {
		k := rapid.SampledFrom([]string{"saveincr", "saveincr", "saveincr", "saveincr", "incrtarget", "incrtarget", "settarget", "reset", "refresh", "reopen"}).Draw(t, "op")
		op := c17op{kind: k}
		switch k {
		case "saveincr":
			op.msg = []byte(rapid.StringMatching(`[a-z]{1,2}=[A-Z0-9]{0,12}`).Draw(t, "msg"))
			if rapid.IntRange(0, 5).Draw(t, "weird") == 0 {
				op.msg = []byte(rapid.SampledFrom([]string{"", "1,2,3\n", "\n", "7,0,2\n9,9,9\n"}).Draw(t, "wmsg"))
			}
		case "settarget":
			op.arg = rapid.IntRange(1, 300).Draw(t, "target")
		}
		ops = append(ops, op)
	}
	victim := rapid.IntRange(0, nOps-1).Draw(t, "victim")
	if ops[victim].kind == "reopen" {
		ops[victim].kind = "refresh"
	}
	runCrashCase(t, ops, victim)
}

// runCrashCase applies ops[0..victim-1], interrupts ops[victim] at every crash image and checks each.
func runCrashCase(t vk.TB, ops []c17op, victim int) {
	c := c17()
	dir := vk.Scratch("c17-")
	defer os.RemoveAll(dir)
	live := filepath.Join(dir, "live")
	id := quickfix.SessionID{BeginString: "FIX.4.4", SenderCompID: "S", TargetCompID: "T"}
	// (syncing is on in every case; how the settings say so varies with the case)
	syncVariant := len(ops) + victim
	factory := storekit.FileFactorySynced(live, syncVariant, id)
	c.Class(fmt.Sprintf("file:sync-configured-variant-%d", syncVariant%4))
	st, err := factory.Create(id)
	if err != nil {
		t.Fatalf("harness: %v", err)
	}
	defer func() { file.VerifCrashHook = nil; _ = st.Close() }()
	model := newStoreModel()
	// durability is tracked over the whole history: a file's durable content is what it held at
	// its last fsync (files created exist empty; removals are durable)
	durable := readDir(live)
	var snaps []crashSnap
	recording := false
	file.VerifCrashHook = func(label, f string) {
		cur := readDir(live)
		switch {
		case strings.HasSuffix(label, ":synced"):
			for _, p := range strings.Split(f, "|") {
				suf := suffixOf(p)
				if v, ok := cur[suf]; ok {
					durable[suf] = append([]byte(nil), v...)
				}
			}
		case label == "reset:removed":
			delete(durable, suffixOf(f))
		case label == "refresh:opened":
			suf := suffixOf(f)
			if _, ok := durable[suf]; !ok {
				durable[suf] = []byte{}
			}
		}
		if recording {
			snaps = append(snaps, crashSnap{label: label, files: cur, durable: durable.clone()})
		}
	}
	for i := 0; i < victim; i++ {
		if err := applyOp(&st, model, ops[i], factory, id); err != nil {
			t.Fatalf("harness: op %v failed: %v", ops[i], err)
		}
	}
	before := cloneModel(model)
	// interrupted operation, observed through the crash-point hook
	snaps = []crashSnap{{label: "start", files: readDir(live), durable: durable.clone()}}
	recording = true
	opErr := applyOp(&st, model, ops[victim], factory, id)
	file.VerifCrashHook = nil
	if opErr != nil {
		t.Fatalf("harness: victim op %v failed: %v", ops[victim], opErr)
	}
	after := cloneModel(model)
	images := enumerateImages(snaps)
	opName := ops[victim].kind
	hist := make([]string, 0, victim+1)
	for i := 0; i <= victim; i++ {
		hist = append(hist, ops[i].String())
	}
	completedSave := len(before.msgs) > 0
	for n, img := range images {
		c.Eval()
		c.Class("image:" + img.kind)
		c.Class("op:" + opName + "@" + img.label + "/" + img.kind)
		inside := img.label != "start" && !(n == len(images)-1 && img.kind == "kill")
		if inside && completedSave {
			c.NonTrivial(stats.Hash(opName, img.kind, img.label, img.files.key()))
		}
		img, n := img, n
		vk.Guard(func() {
			checkImage(t, filepath.Join(dir, fmt.Sprintf("img%d", n)), img, opName, before, after, hist, id)
		})
	}
	c.SampleClass(opName, map[string]interface{}{"history": hist, "interrupted": ops[victim].String(), "images": len(images), "labels": labelsOf(snaps)})
}

func labelsOf(s []crashSnap) []string {
	var l []string
	for _, x := range s {
		l = append(l, x.label)
	}
	return l
}

func checkImage(t vk.TB, dir string, img crashImage, opName string, before, after *storeModel, hist []string, id quickfix.SessionID) {
	c := c17()
	if err := os.MkdirAll(dir, 0o755); err != nil {
		t.Fatalf("harness: %v", err)
	}
	defer os.RemoveAll(dir)
	prefix := "FIX.4.4-S-T."
	for suf, b := range img.files {
		if err := os.WriteFile(filepath.Join(dir, prefix+suf), b, 0o660); err != nil {
			t.Fatalf("harness: %v", err)
		}
	}
	class := imageClass(img.files, opName, before, after)
	if class != "" {
		c.Class("imageclass:" + class)
	}
	sig := func(clause string) string {
		if class != "" {
			return fmt.Sprintf("C17/file/%s/%s", class, clause)
		}
		return fmt.Sprintf("C17/file/%s/%s@%s/%s", opName, img.kind, img.label, clause)
	}
	desc := func() string {
		return fmt.Sprintf("history %v, image %s", hist, img.files.key())
	}
	factory := storekit.FileFactory(dir, true, id)
	st, err := factory.Create(id)
	if err != nil {
		vk.Violation(t, c, sig("reopen-error"), "%v; %s", err, desc())
	}
	defer func() { _ = st.Close() }()
	rs, rt := st.NextSenderMsgSeqNum(), st.NextTargetMsgSeqNum()
	if rs != before.sender && rs != after.sender {
		vk.Violation(t, c, sig("sender-counter-not-before-or-after"), "recovered sender %d, before %d after %d; %s", rs, before.sender, after.sender, desc())
	}
	if rt != before.target && rt != after.target {
		vk.Violation(t, c, sig("target-counter-not-before-or-after"), "recovered target %d, before %d after %d; %s", rt, before.target, after.target, desc())
	}
	// per-number retrieval
	nums := map[int]bool{}
	for k := range before.msgs {
		nums[k] = true
	}
	for k := range after.msgs {
		nums[k] = true
	}
	if rs-1 >= 1 {
		nums[rs-1] = true
	}
	var keys []int
	for k := range nums {
		keys = append(keys, k)
	}
	sort.Ints(keys)
	recovered := map[int][]byte{}
	anyBefore, anyMissingBefore := false, false
	for _, n := range keys {
		got, gerr := st.GetMessages(n, n)
		if gerr != nil {
			vk.Violation(t, c, sig("retrieval-error"), "GetMessages(%d,%d): %v; %s", n, n, gerr, desc())
		}
		if len(got) > 1 {
			vk.Violation(t, c, sig("foreign-or-torn-bytes"), "GetMessages(%d,%d) returned %d messages; %s", n, n, len(got), desc())
		}
		b, inB := before.msgs[n]
		a, inA := after.msgs[n]
		switch {
		case len(got) == 0:
			if inB && opName != "reset" {
				vk.Violation(t, c, sig("completed-message-lost"), "message %d, saved before the interrupted operation, is gone; %s", n, desc())
			}
			if inB {
				anyMissingBefore = true
			}
		default:
			recovered[n] = got[0]
			if !(inB && bytes.Equal(got[0], b)) && !(inA && bytes.Equal(got[0], a)) {
				vk.Violation(t, c, sig("foreign-or-torn-bytes"), "number %d returns %q, before %q after %q; %s", n, got[0], b, a, desc())
			}
			if inB {
				anyBefore = true
			}
		}
	}
	if opName == "reset" && anyBefore && anyMissingBefore {
		vk.Violation(t, c, sig("reset-partial"), "some messages of the old epoch survive, others are gone; %s", desc())
	}
	if rs-1 >= 1 {
		if _, ok := recovered[rs-1]; !ok {
			vk.Violation(t, c, sig("message-for-used-number-missing"), "recovered sender counter %d says %d was used but it is not retrievable; %s", rs, rs-1, desc())
		}
	}
	all, gerr := st.GetMessages(1, 1000000)
	if gerr != nil {
		vk.Violation(t, c, sig("retrieval-error"), "GetMessages(1,1000000): %v; %s", gerr, desc())
	}
	var want [][]byte
	for _, n := range keys {
		if m, ok := recovered[n]; ok {
			want = append(want, m)
		}
	}
	if !sameMsgs(all, want) {
		vk.Violation(t, c, sig("foreign-or-torn-bytes"), "full scan %s differs from per-number retrieval %s; %s", showMsgs(all), showMsgs(want), desc())
	}
	// continuation: the recovered store keeps behaving like a store
	next := []byte("cont=1")
	if err := st.SaveMessageAndIncrNextSenderMsgSeqNum(rs, next); err != nil {
		vk.Violation(t, c, sig("continuation-diverges"), "save after recovery: %v; %s", err, desc())
	}
	if err := st.IncrNextTargetMsgSeqNum(); err != nil {
		vk.Violation(t, c, sig("continuation-diverges"), "incr after recovery: %v; %s", err, desc())
	}
	_ = st.Close()
	st2, err := factory.Create(id)
	if err != nil {
		vk.Violation(t, c, sig("continuation-diverges"), "second reopen: %v; %s", err, desc())
	}
	defer func() { _ = st2.Close() }()
	got, gerr := st2.GetMessages(rs, rs)
	// A message saved by the interrupted operation whose counter increment was lost stays in the
	// file store under the same number (an orphan); the statement does not forbid that state, so
	// the continuation accepts it in front of the newly saved message.
	if len(got) == 2 && bytes.Equal(got[0], after.msgs[rs]) {
		c.Class("continuation:orphan-of-interrupted-save-kept")
		got = got[1:]
	}
	if st2.NextSenderMsgSeqNum() != rs+1 || st2.NextTargetMsgSeqNum() != rt+1 || gerr != nil || len(got) != 1 || !bytes.Equal(got[0], next) {
		vk.Violation(t, c, sig("continuation-diverges"), "after recovery, save(%d)+incr and reopen: sender %d target %d message %s err %v; %s", rs, st2.NextSenderMsgSeqNum(), st2.NextTargetMsgSeqNum(), showMsgs(got), gerr, desc())
	}
}

func TestC17_FileCrash(t *testing.T) {
	rapid.Check(t, func(t *rapid.T) {
		vk.Guard(func() { c17Property(t) })
	})
}

// imageClass names the structural root cause visible in a crash image, independent of the
// label at which it was taken: an unfinished reset, a counter file holding a mixture of two
// 19-digit values, an index file ending in a partial line, an index line whose body bytes
// are not (all) there. Images showing none of these get a label-specific signature.
func imageClass(img dirState, opName string, before, after *storeModel) string {
	if opName == "reset" {
		return "reset-not-atomic"
	}
	valid := func(content []byte, b, a int) bool {
		s := string(content)
		return s == fmt.Sprintf("%019d", b) || s == fmt.Sprintf("%019d", a)
	}
	// (the listed finding is the in-place rewrite by an operation that changes a counter; a counter
	// file damaged while the store is merely re-read is something else and gets its own signature)
	tornBy := "torn-counter-file"
	if opName == "refresh" {
		tornBy = "counter-file-damaged-by-reread"
	}
	if v, ok := img["senderseqnums"]; ok && !valid(v, before.sender, after.sender) {
		return tornBy
	}
	if v, ok := img["targetseqnums"]; ok && !valid(v, before.target, after.target) {
		return tornBy
	}
	hdr := img["header"]
	if len(hdr) > 0 && hdr[len(hdr)-1] != '\n' {
		return "torn-index-line"
	}
	body := img["body"]
	for _, line := range strings.Split(string(hdr), "\n") {
		var seq, off, n int
		if c, _ := fmt.Sscanf(line, "%d,%d,%d", &seq, &off, &n); c == 3 && off+n > len(body) {
			return "index-without-body"
		}
	}
	return ""
}

// recTB records violation signatures instead of failing (used by TestKnown_C17 only).
type recTB struct{ sigs map[string]bool }
type recAbort struct{}

func (recAbort) IsVerifAbort() {}

func (r *recTB) Logf(string, ...interface{}) {}
func (r *recTB) Fatalf(format string, args ...interface{}) {
	msg := fmt.Sprintf(format, args...)
	if strings.HasPrefix(msg, "VIOLATION-SIG ") {
		r.sigs[strings.Fields(msg)[1]] = true
	} else {
		r.sigs["harness:"+msg] = true
	}
	panic(recAbort{})
}

// TestKnown_C17 replays fixed minimal histories through the same enumeration and reports, for
// every listed open finding, whether it still reproduces.
func TestKnown_C17(t *testing.T) {
	rec := &recTB{sigs: map[string]bool{}}
	run := func(ops []c17op, victim int) {
		defer func() {
			if r := recover(); r != nil {
				if _, ok := r.(recAbort); !ok {
					panic(r)
				}
			}
		}()
		runCrashCase(rec, ops, victim)
	}
	save := func(s string) c17op { return c17op{kind: "saveincr", msg: []byte(s)} }
	nine := []c17op{}
	for i := 0; i < 8; i++ {
		nine = append(nine, save(fmt.Sprintf("m=%d", i+1)), c17op{kind: "incrtarget"})
	}
	run(append(append([]c17op{}, nine...), save("m=9")), 16)               // sender 9 -> 10 rewrites two digits
	run(append(append([]c17op{}, nine...), c17op{kind: "incrtarget"}), 16) // target 9 -> 10
	run(append(append([]c17op{}, nine...), c17op{kind: "reset"}), 16)      // reset after nine saves
	run([]c17op{save("a=1"), save("b=22"), save("c=333")}, 2)              // plain append
	c := c17()
	seen := map[string]bool{}
	for k := range rec.sigs {
		seen[k] = true
	}
	for k, n := range c.Known {
		if n > 0 {
			seen[k] = true
		}
	}
	for _, f := range vk.KnownFindings() {
		if f.Property == "C17" && f.Status == "open" {
			yn := "no"
			if seen[f.Signature] {
				yn = "yes"
			}
			fmt.Printf("KNOWN-REPRO %s %s\n", f.Signature, yn)
		}
	}
	for k := range rec.sigs {
		if !vk.IsKnownOpen("C17", k) {
			fmt.Printf("note: fixed histories also show unlisted signature %s\n", k)
		}
	}
}

#!/bin/bash
# Offline setup: compile the merge tool and warm the build cache for every test package.
set -e
cd "$(dirname "$(readlink -f "$0")")"
export GOFLAGS=-mod=mod GOPROXY=off GOSUMDB=off GOTOOLCHAIN=local
mkdir -p .build evidence
cp go.mod .build/setup.mod; cp go.sum .build/setup.sum
go build -modfile .build/setup.mod -o .build/vmerge ./tools/vmerge
for p in codec session dict store sched; do
  if ls props/$p/*_test.go >/dev/null 2>&1; then
    go test -c -tags verif -modfile .build/setup.mod -o .build/warm.test ./props/$p && rm -f .build/warm.test
  fi
done
rm -f .build/setup.mod .build/setup.sum
echo setup ok

// Package vk is the small kit shared by all property tests: tier/seed from the environment,
// the committed known-findings list, and the violation/known-finding protocol.
package vk

import (
	"encoding/json"
	"fmt"
	"os"
	"strconv"
	"strings"
	"sync"
	"time"

	"verif/stats"
)

func Tier() string {
	if os.Getenv("VERIF_TIER") == "thorough" {
		return "thorough"
	}
	return "quick"
}

func Thorough() bool { return Tier() == "thorough" }

func Seed() int64 {
	n, _ := strconv.ParseInt(os.Getenv("VERIF_SEED"), 10, 64)
	return n
}

// Shard returns (index, count) of this process among the parallel shards.
func Shard() (int, int) {
	i, _ := strconv.Atoi(os.Getenv("VERIF_SHARD"))
	n, _ := strconv.Atoi(os.Getenv("VERIF_SHARDS"))
	if n <= 0 {
		n = 1
	}
	return i, n
}

// Scale picks a size by tier.
func Scale(quick, thorough int) int {
	if Thorough() {
		return thorough
	}
	return quick
}

// Scratch returns a fresh scratch directory for this process (under /dev/shm when present).
func Scratch(prefix string) string {
	base := os.Getenv("VERIF_SCRATCH")
	if base == "" {
		if st, err := os.Stat("/dev/shm"); err == nil && st.IsDir() {
			base = "/dev/shm"
		} else {
			base = os.TempDir()
		}
	}
	d, err := os.MkdirTemp(base, prefix)
	if err != nil {
		panic(err)
	}
	return d
}

type Finding struct {
	Property  string `json:"property"`
	Signature string `json:"signature"`
	Status    string `json:"status"` // open | fixed
	Commit    string `json:"commit,omitempty"`
	What      string `json:"what"`
}

var (
	knownOnce sync.Once
	known     []Finding
)

func KnownFindings() []Finding {
	knownOnce.Do(func() {
		p := os.Getenv("VERIF_KNOWN")
		if p == "" {
			p = "/verif/KNOWN_FINDINGS.json"
		}
		b, err := os.ReadFile(p)
		if err != nil {
			return
		}
		var doc struct {
			Findings []Finding `json:"findings"`
		}
		if json.Unmarshal(b, &doc) == nil {
			known = doc.Findings
		}
	})
	return known
}

// IsKnownOpen reports whether a violation signature is a listed open finding of the property.
func IsKnownOpen(property, sig string) bool {
	for _, f := range KnownFindings() {
		if f.Property == property && f.Status == "open" && f.Signature == sig {
			return true
		}
	}
	return false
}

// TB is the part of testing.TB / *rapid.T the kit needs.
type TB interface {
	Fatalf(format string, args ...interface{})
	Logf(format string, args ...interface{})
}

type knownAbort struct{ sig string }

// Abort is implemented by panic values that end the current guarded case without failing it
// (used by recording test doubles).
type Abort interface{ IsVerifAbort() }

var (
	collectMu sync.Mutex
	collected = map[string]bool{}
)

// Violation reports a violated clause. If its signature is a listed open finding the hit is
// counted and the current case is abandoned (the surrounding Guard returns normally), so the
// search goes on behind the finding; otherwise the case fails with a VIOLATION line.
func Violation(t TB, c *stats.Collector, sig string, format string, args ...interface{}) {
	if IsKnownOpen(c.Property, sig) {
		c.KnownHit(sig)
		panic(knownAbort{sig})
	}
	if os.Getenv("VERIF_COLLECT") == "1" {
		// triage mode (never used by registered commands): collect every distinct signature
		c.KnownHit("UNLISTED:" + sig)
		collectMu.Lock()
		if !collected[sig] {
			collected[sig] = true
			fmt.Printf("COLLECT-BEGIN %s\n%s\nCOLLECT-END\n", sig, fmt.Sprintf(format, args...))
		}
		collectMu.Unlock()
		panic(knownAbort{sig})
	}
	t.Fatalf("VIOLATION-SIG %s :: %s", sig, fmt.Sprintf(format, args...))
}

// Guard runs one case; it swallows only the abort raised for a listed known finding.
func Guard(f func()) (knownSig string) {
	defer func() {
		if r := recover(); r != nil {
			if k, ok := r.(knownAbort); ok {
				knownSig = k.sig
				return
			}
			if _, ok := r.(Abort); ok {
				return
			}
			panic(r)
		}
	}()
	f()
	return ""
}

// Show renders FIX bytes readably (SOH as '|').
func Show(b []byte) string {
	return strings.ReplaceAll(string(b), "\x01", "|")
}

// LocalZoneForShard puts the test process into a non-UTC local zone on most shards (a process
// need not run in UTC): shard 0 stays in UTC, odd shards get +05:30, the other even ones -08:00.
func LocalZoneForShard() {
	switch shard, _ := Shard(); {
	case shard == 0:
	case shard%2 == 1:
		time.Local = time.FixedZone("UTC+05:30", 5*3600+1800)
	default:
		time.Local = time.FixedZone("UTC-08:00", -8*3600)
	}
}

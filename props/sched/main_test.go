package sched

import (
	"os"
	"testing"

	"verif/stats"
	"verif/vk"
)

func TestMain(m *testing.M) {
	vk.LocalZoneForShard()
	rc := m.Run()
	stats.WriteGlobal()
	os.Exit(rc)
}

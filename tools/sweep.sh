#!/bin/bash
# tools/sweep.sh <tier> <seed>... : run every check at the given seeds, report exits != 0
tier=$1; shift
cd /verif
for seed in "$@"; do
  for id in C01 C02 C03 C04 C05 C06 C07 C08 C09 C10 C11 C12 C13 C14 C15 C16 C17 C18 C19 C20; do
    out=$(VERIF_SEED=$seed ./check $id $tier 2>&1); rc=$?
    if [ $rc -ne 0 ]; then echo "SWEEP seed=$seed $id exit=$rc"; echo "$out" | grep -A3 'VIOLATION\|INCONCL' | head -12; fi
  done
  echo "SWEEP seed=$seed done"
done

// Package rig drives one real quickfix session synchronously through the verif hook API:
// every run-loop event (connect, inbound frame, timer event, send-queue flush, disconnect,
// stop, session-time check) is one call, and everything observable is recorded in one ordered
// trace: application callbacks (with the store's counters read inside the callback), frames
// written to the connection, store resets and backward moves, timer (re)arming.
package rig

import (
	"errors"
	"fmt"
	"sort"
	"strconv"
	"sync"
	"time"

	"github.com/quickfixgo/quickfix"
	"github.com/quickfixgo/quickfix/config"

	"verif/fixwire"
)

// Entry is one observable event, in order of occurrence.
type Entry struct {
	Step int
	Conn int
	Kind string // OnCreate OnLogon OnLogout FromApp FromAdmin ToApp ToAdmin | out | store.Reset store.SetNextTarget store.SetNextSender | timer
	// callbacks
	MsgType    string
	Seq        int
	PossDup    bool
	NextTarget int // store values read at call time
	NextSender int
	Fields     []fixwire.Field // scanned message (callbacks on received messages and out frames)
	Raw        []byte
	// store events
	Value int
	Prev  int
	// timer
	Timer string // "heartbeat" | "peer"
	Dur   time.Duration
}

func (e Entry) String() string {
	switch e.Kind {
	case "out":
		return fmt.Sprintf("out[%s seq=%d%s]", e.MsgType, e.Seq, map[bool]string{true: " PD", false: ""}[e.PossDup])
	case "FromApp", "FromAdmin", "ToApp", "ToAdmin":
		return fmt.Sprintf("%s[%s seq=%d T=%d]", e.Kind, e.MsgType, e.Seq, e.NextTarget)
	case "timer":
		return fmt.Sprintf("timer[%s %v]", e.Timer, e.Dur)
	case "timer-stopped":
		return fmt.Sprintf("timer-stopped[%s]", e.Timer)
	case "store.Save", "store.IncrSender":
		return fmt.Sprintf("%s(%d)", e.Kind, e.Seq)
	case "store.Reset", "store.SetNextTarget", "store.SetNextSender":
		return fmt.Sprintf("%s(%d<-%d)", e.Kind, e.Value, e.Prev)
	}
	return e.Kind
}

type Config struct {
	ID        quickfix.SessionID
	Initiator bool
	Settings  map[string]string // extra session settings
	Factory   quickfix.MessageStoreFactory
	HeartBt   int // seconds (initiator / override); default 30
}

type Rig struct {
	Cfg   Config
	V     *quickfix.VerifSession
	Trace []Entry
	Step  int
	Conn  int // connection counter (0 = never connected)

	out       chan []byte
	OutClosed bool // the engine closed the current connection's channel
	connected bool

	// scripted application behaviour
	RefuseResend func(seq int, msgType string) bool             // ToApp with PossDupFlag=Y returns an error
	RefuseSend   func(msgType string, m *quickfix.Message) bool // ToApp first time returns an error
	FromAppErr   func(m *quickfix.Message) quickfix.MessageRejectError
	FromAdminErr func(m *quickfix.Message) quickfix.MessageRejectError
	InCallback   func(kind string)         // hook for schedule perturbation (C02)
	OnLogonDo    func()                    // what the application does inside its OnLogon callback (e.g. send)
	VirtualNow   func() time.Time          // when set, the store's creation time lives on this clock (see SetVirtualClock)
	EditAdmin    func(m *quickfix.Message) // the application edits an outgoing administrative message in ToAdmin
	RecordSaves  bool                      // trace every completed outbound save ("store.Save") / number increment ("store.IncrSender")

	// timers as last armed (virtual clock support)
	Armed map[string]time.Duration

	mu       sync.Mutex
	store    *recStore
	panicked interface{}

	// Concurrent mode (C02): the connection channel is unbuffered as in production and drained
	// by one goroutine that stamps every frame with a global event counter; the wrapping store
	// stamps every completed save with the same counter.
	ExternalDrain bool
	stamp         int64
	Wire          []Stamped // frames in the order they left the channel
	Saves         []Stamped // completed SaveMessageAndIncrNextSenderMsgSeqNum / IncrNextSenderMsgSeqNum calls
	StorePause    func()    // called inside the store wrapper (schedule perturbation)
	drainDone     chan struct{}
}

// Stamped is a frame or a store save with its global event stamp.
type Stamped struct {
	Stamp int64
	Seq   int
	Bytes []byte
}

func (r *Rig) nextStamp() int64 {
	r.mu.Lock()
	defer r.mu.Unlock()
	r.stamp++
	return r.stamp
}

// StampNow returns a fresh stamp (to delimit wire segments).
func (r *Rig) StampNow() int64 { return r.nextStamp() }

// WireSnapshot returns a copy of the stamped wire log.
func (r *Rig) WireSnapshot() []Stamped {
	r.mu.Lock()
	defer r.mu.Unlock()
	return append([]Stamped(nil), r.Wire...)
}

// SavesSnapshot returns a copy of the stamped save log.
func (r *Rig) SavesSnapshot() []Stamped {
	r.mu.Lock()
	defer r.mu.Unlock()
	return append([]Stamped(nil), r.Saves...)
}

// WaitDrained waits until the drainer goroutine has seen the channel closed.
func (r *Rig) WaitDrained() {
	if r.drainDone != nil {
		<-r.drainDone
	}
}

// ---- recording store

type recStore struct {
	quickfix.MessageStore
	r        *Rig
	vcreated time.Time // creation time on the virtual clock (when the rig has one)
}

// CreationTime is the store's own creation time, or - when the rig runs on a virtual clock -
// the virtual instant of the last reset (the engine compares it with the "now" it is given).
func (s *recStore) CreationTime() time.Time {
	if s.r.VirtualNow != nil {
		return s.vcreated
	}
	return s.MessageStore.CreationTime()
}

func (s *recStore) Reset() error {
	prev := s.MessageStore.NextTargetMsgSeqNum()
	err := s.MessageStore.Reset()
	if s.r.VirtualNow != nil {
		s.vcreated = s.r.VirtualNow()
	}
	s.r.add(Entry{Kind: "store.Reset", Prev: prev, Value: 1})
	return err
}

func (s *recStore) SaveMessageAndIncrNextSenderMsgSeqNum(seq int, msg []byte) error {
	if s.r.StorePause != nil {
		s.r.StorePause()
	}
	err := s.MessageStore.SaveMessageAndIncrNextSenderMsgSeqNum(seq, msg)
	if s.r.StorePause != nil {
		s.r.StorePause()
	}
	if err == nil && s.r.RecordSaves {
		s.r.add(Entry{Kind: "store.Save", Seq: seq, Raw: append([]byte(nil), msg...)})
	}
	if err == nil && s.r.ExternalDrain {
		st := s.r.nextStamp()
		s.r.mu.Lock()
		s.r.Saves = append(s.r.Saves, Stamped{Stamp: st, Seq: seq, Bytes: append([]byte(nil), msg...)})
		s.r.mu.Unlock()
	}
	return err
}

func (s *recStore) IncrNextSenderMsgSeqNum() error {
	prev := s.MessageStore.NextSenderMsgSeqNum()
	err := s.MessageStore.IncrNextSenderMsgSeqNum()
	if err == nil && s.r.RecordSaves {
		s.r.add(Entry{Kind: "store.IncrSender", Seq: prev})
	}
	return err
}

func (s *recStore) SetNextTargetMsgSeqNum(v int) error {
	prev := s.MessageStore.NextTargetMsgSeqNum()
	err := s.MessageStore.SetNextTargetMsgSeqNum(v)
	s.r.add(Entry{Kind: "store.SetNextTarget", Prev: prev, Value: v})
	return err
}

func (s *recStore) SetNextSenderMsgSeqNum(v int) error {
	prev := s.MessageStore.NextSenderMsgSeqNum()
	err := s.MessageStore.SetNextSenderMsgSeqNum(v)
	s.r.add(Entry{Kind: "store.SetNextSender", Prev: prev, Value: v})
	return err
}

type recFactory struct {
	inner quickfix.MessageStoreFactory
	r     *Rig
}

func (f recFactory) Create(id quickfix.SessionID) (quickfix.MessageStore, error) {
	st, err := f.inner.Create(id)
	if err != nil {
		return nil, err
	}
	rs := &recStore{MessageStore: st, r: f.r}
	f.r.store = rs
	return rs, nil
}

// ---- recording log (gives the order of transmissions relative to callbacks)

type recLog struct{ r *Rig }

func (l recLog) OnIncoming([]byte) {}
func (l recLog) OnOutgoing(b []byte) {
	fs, _ := fixwire.Scan(b, map[int]int{212: 213})
	seq, _ := fixwire.GetInt(fs, 34)
	l.r.add(Entry{Kind: "out", MsgType: fixwire.GetS(fs, 35), Seq: seq, PossDup: fixwire.GetS(fs, 43) == "Y", Fields: fs, Raw: append([]byte(nil), b...)})
}
func (l recLog) OnEvent(string)                  {}
func (l recLog) OnEventf(string, ...interface{}) {}

type recLogFactory struct{ r *Rig }

func (f recLogFactory) Create() (quickfix.Log, error) { return recLog{f.r}, nil }
func (f recLogFactory) CreateSessionLog(quickfix.SessionID) (quickfix.Log, error) {
	return recLog{f.r}, nil
}

// ---- application

type app struct{ r *Rig }

func (a app) cb(kind string, m *quickfix.Message) Entry {
	e := Entry{Kind: kind}
	if a.r.store != nil {
		e.NextTarget = a.r.store.MessageStore.NextTargetMsgSeqNum()
		e.NextSender = a.r.store.MessageStore.NextSenderMsgSeqNum()
	}
	if m != nil {
		e.MsgType, _ = m.Header.GetString(35)
		e.Seq, _ = m.Header.GetInt(34)
		if pd, err := m.Header.GetString(43); err == nil && pd == "Y" {
			e.PossDup = true
		}
		if kind == "FromApp" || kind == "FromAdmin" {
			raw := m.Bytes()
			e.Raw = append([]byte(nil), raw...)
			e.Fields, _ = fixwire.Scan(raw, map[int]int{212: 213})
		}
	}
	return e
}

func (a app) OnCreate(quickfix.SessionID) { a.r.add(Entry{Kind: "OnCreate"}) }
func (a app) OnLogon(quickfix.SessionID) {
	a.r.add(a.cb("OnLogon", nil))
	if a.r.OnLogonDo != nil {
		a.r.OnLogonDo()
	}
}
func (a app) OnLogout(quickfix.SessionID) { a.r.add(a.cb("OnLogout", nil)) }
func (a app) ToAdmin(m *quickfix.Message, _ quickfix.SessionID) {
	a.r.add(a.cb("ToAdmin", m))
	if a.r.EditAdmin != nil {
		a.r.EditAdmin(m)
	}
	if a.r.InCallback != nil {
		a.r.InCallback("ToAdmin")
	}
}
func (a app) ToApp(m *quickfix.Message, _ quickfix.SessionID) error {
	e := a.cb("ToApp", m)
	a.r.add(e)
	if a.r.InCallback != nil {
		a.r.InCallback("ToApp")
	}
	if e.PossDup && a.r.RefuseResend != nil && a.r.RefuseResend(e.Seq, e.MsgType) {
		return refusal(e.Seq)
	}
	if !e.PossDup && a.r.RefuseSend != nil && a.r.RefuseSend(e.MsgType, m) {
		return refusal(e.Seq)
	}
	return nil
}

// refusal is what a declining ToApp returns: any non-nil error means "do not send"; the sentinel
// ErrDoNotSend is only one of them (which one is used depends on the number, deterministically).
func refusal(seq int) error {
	switch seq % 3 {
	case 0:
		return errors.New("application: message is stale")
	case 1:
		return fmt.Errorf("declined: %w", quickfix.ErrDoNotSend)
	}
	return quickfix.ErrDoNotSend
}

func (a app) FromAdmin(m *quickfix.Message, _ quickfix.SessionID) quickfix.MessageRejectError {
	a.r.add(a.cb("FromAdmin", m))
	if a.r.FromAdminErr != nil {
		return a.r.FromAdminErr(m)
	}
	return nil
}
func (a app) FromApp(m *quickfix.Message, _ quickfix.SessionID) quickfix.MessageRejectError {
	a.r.add(a.cb("FromApp", m))
	if a.r.FromAppErr != nil {
		return a.r.FromAppErr(m)
	}
	return nil
}

func (r *Rig) add(e Entry) {
	r.mu.Lock()
	e.Step, e.Conn = r.Step, r.Conn
	r.Trace = append(r.Trace, e)
	r.mu.Unlock()
}

// ---- construction

var (
	timerMu    sync.Mutex
	timerOwner = map[interface{}]*Rig{}
	hookOnce   sync.Once
)

func installTimerHook() {
	hookOnce.Do(func() {
		quickfix.VerifSetTimerHook(func(timer interface{}, d time.Duration) {
			timerMu.Lock()
			r := timerOwner[timer]
			timerMu.Unlock()
			if r == nil {
				return
			}
			name := "peer"
			if timer == r.V.StateTimer() {
				name = "heartbeat"
			}
			if d < 0 {
				// EventTimer.Stop: terminal - the goroutine that turns expirations into events ends,
				// a later Reset arms a timer nobody listens to
				r.add(Entry{Kind: "timer-stopped", Timer: name})
				return
			}
			r.mu.Lock()
			r.Armed[name] = d
			r.mu.Unlock()
			r.add(Entry{Kind: "timer", Timer: name, Dur: d})
		})
	})
}

func New(cfg Config) (*Rig, error) {
	r := &Rig{Cfg: cfg, Armed: map[string]time.Duration{}}
	installTimerHook()
	ss := quickfix.NewSessionSettings()
	ss.Set(config.BeginString, cfg.ID.BeginString)
	ss.Set(config.SenderCompID, cfg.ID.SenderCompID)
	ss.Set(config.TargetCompID, cfg.ID.TargetCompID)
	hb := cfg.HeartBt
	if hb == 0 {
		hb = 30
	}
	if cfg.Initiator {
		ss.Set(config.HeartBtInt, strconv.Itoa(hb))
		ss.Set(config.SocketConnectHost, "127.0.0.1")
		ss.Set(config.SocketConnectPort, "1")
		// the logon/logout timeouts are delivered by the harness, not by the wall clock: the engine's
		// own AfterFunc events land in a channel nobody reads; a short value only bounds how long the
		// pending closure pins a closed session in memory
		ss.Set(config.LogonTimeout, "1")
		ss.Set(config.LogoutTimeout, "1")
	}
	if cfg.ID.BeginString == quickfix.BeginStringFIXT11 {
		ss.Set(config.DefaultApplVerID, "FIX.5.0SP2")
	}
	keys := make([]string, 0, len(cfg.Settings))
	for k := range cfg.Settings {
		keys = append(keys, k)
	}
	sort.Strings(keys)
	for _, k := range keys {
		ss.Set(k, cfg.Settings[k])
	}
	inner := cfg.Factory
	if inner == nil {
		inner = quickfix.NewMemoryStoreFactory()
	}
	v, err := quickfix.VerifNewSession(cfg.ID, recFactory{inner, r}, ss, recLogFactory{r}, app{r}, cfg.Initiator)
	if err != nil {
		return nil, err
	}
	r.V = v
	timerMu.Lock()
	timerOwner[v.StateTimer()] = r
	timerOwner[v.PeerTimer()] = r
	timerMu.Unlock()
	v.Start()
	return r, nil
}

func (r *Rig) Close() {
	timerMu.Lock()
	delete(timerOwner, r.V.StateTimer())
	delete(timerOwner, r.V.PeerTimer())
	timerMu.Unlock()
	r.V.Close()
}

// SetVirtualClock puts the store's creation time on a clock owned by the test: it is now() at
// this moment and at every later reset.
func (r *Rig) SetVirtualClock(now func() time.Time) {
	r.VirtualNow = now
	r.store.vcreated = now()
}

// Store returns the real store behind the recording wrapper.
func (r *Rig) Store() quickfix.MessageStore { return r.store.MessageStore }

// T is the next expected inbound number; S the next outbound number.
func (r *Rig) T() int { return r.store.MessageStore.NextTargetMsgSeqNum() }
func (r *Rig) S() int { return r.store.MessageStore.NextSenderMsgSeqNum() }

// ---- steps: each mirrors one iteration of session.run's select

// StepResult is what one step produced.
type StepResult struct {
	From, To int      // trace[From:To] are this step's entries
	Frames   [][]byte // frames read from the connection channel after the step
	Panic    interface{}
}

func (r *Rig) begin() int {
	r.mu.Lock()
	defer r.mu.Unlock()
	r.Step++
	return len(r.Trace)
}

func (r *Rig) end(from int, pan interface{}) StepResult {
	res := StepResult{From: from, Panic: pan}
	res.Frames = r.drain()
	r.mu.Lock()
	res.To = len(r.Trace)
	r.mu.Unlock()
	return res
}

func (r *Rig) guard(f func()) (pan interface{}) {
	defer func() {
		if p := recover(); p != nil {
			pan = p
			r.panicked = p
		}
	}()
	f()
	return nil
}

func (r *Rig) drain() [][]byte {
	var frames [][]byte
	if r.out == nil || r.ExternalDrain {
		return nil
	}
	for {
		select {
		case b, ok := <-r.out:
			if !ok {
				r.OutClosed = true
				r.out = nil
				r.add(Entry{Kind: "closed"})
				return frames
			}
			if len(b) > 0 { // (empty frames are FlushBusy's fillers)
				frames = append(frames, b)
			}
		default:
			return frames
		}
	}
}

// ChannelOpen reports whether the current connection's channel has not been closed by the engine.
func (r *Rig) ChannelOpen() bool { return r.out != nil }

// Connect opens a new connection (what an accepted socket / a dial does). Returns false if refused.
func (r *Rig) Connect() (StepResult, bool) {
	from := r.begin()
	if r.out != nil {
		// the previous channel is still open on the harness side: the engine refuses a second connect
	}
	out := make(chan []byte, 8192)
	if r.ExternalDrain {
		out = make(chan []byte)
		done := make(chan struct{})
		r.drainDone = done
		go func(ch chan []byte) {
			defer close(done)
			for b := range ch {
				st := r.nextStamp()
				fs, _ := fixwire.Scan(b, map[int]int{212: 213})
				seq, _ := fixwire.GetInt(fs, 34)
				r.mu.Lock()
				r.Wire = append(r.Wire, Stamped{Stamp: st, Seq: seq, Bytes: b})
				r.mu.Unlock()
			}
		}(out)
	}
	var ok bool
	wasConnected := r.V.IsConnected()
	pan := r.guard(func() { ok = r.V.Connect(out) })
	if r.ExternalDrain && !(ok && !wasConnected) {
		close(out) // refused: let the drainer goroutine end
	}
	if ok && !wasConnected {
		r.mu.Lock()
		r.Conn++
		r.mu.Unlock()
		r.out = out
		r.OutClosed = false
		// re-stamp this step's entries with the new connection number
		for i := from; i < len(r.Trace); i++ {
			r.Trace[i].Conn = r.Conn
		}
	}
	return r.end(from, pan), ok
}

// In delivers one inbound frame.
func (r *Rig) In(raw []byte) StepResult {
	from := r.begin()
	pan := r.guard(func() { r.V.Incoming(append([]byte(nil), raw...), time.Now()) })
	return r.end(from, pan)
}

// InWatched delivers one inbound frame on a helper goroutine and gives up waiting after limit:
// hung=true means the engine did not return (the goroutine is left behind, still running).
func (r *Rig) InWatched(raw []byte, limit time.Duration) (st StepResult, hung bool) {
	done := make(chan StepResult, 1)
	go func() { done <- r.In(raw) }()
	select {
	case st = <-done:
		return st, false
	case <-time.After(limit):
		return StepResult{}, true
	}
}

// Timeout delivers a timer event: 0 PeerTimeout 1 NeedHeartbeat 2 LogonTimeout 3 LogoutTimeout.
func (r *Rig) Timeout(ev int) StepResult {
	from := r.begin()
	pan := r.guard(func() { r.V.Timeout(ev) })
	return r.end(from, pan)
}

// Flush honours a pending messageEvent the way the run loop does. Returns whether one was pending.
func (r *Rig) Flush() (StepResult, bool) {
	from := r.begin()
	took := false
	pan := r.guard(func() {
		if r.V.TakeMessageEvent() {
			took = true
			r.V.SendAppMessages()
		}
	})
	return r.end(from, pan), took
}

// FlushBusy honours a pending messageEvent at a moment when the connection's writer cannot take
// another frame (on a real connection the outbound channel is unbuffered and the writer is inside
// a socket write): the channel is filled up with empty filler frames for the duration of the call.
func (r *Rig) FlushBusy() (StepResult, bool) {
	from := r.begin()
	took := false
	pan := r.guard(func() {
		if r.V.TakeMessageEvent() {
			took = true
			if r.out != nil && !r.ExternalDrain {
			fill:
				for {
					select {
					case r.out <- []byte{}:
					default:
						break fill
					}
				}
			}
			r.V.SendAppMessages()
		}
	})
	return r.end(from, pan), took
}

// Send submits an application message (the SendToTarget path). The error is the caller's answer.
func (r *Rig) Send(m *quickfix.Message) (StepResult, error) {
	from := r.begin()
	var err error
	pan := r.guard(func() { err = r.V.Send(m) })
	return r.end(from, pan), err
}

// Disconnect is what the run loop does when the inbound channel closes.
func (r *Rig) Disconnect() StepResult {
	from := r.begin()
	pan := r.guard(func() { r.V.Disconnected() })
	return r.end(from, pan)
}

// Operator is an operator's call on the session's store (the package-level SetNext... functions go
// to the same store object) as one recorded step.
func (r *Rig) Operator(f func(quickfix.MessageStore)) StepResult {
	from := r.begin()
	pan := r.guard(func() { f(r.V.Store()) })
	return r.end(from, pan)
}

func (r *Rig) Stop() StepResult {
	from := r.begin()
	pan := r.guard(func() { r.V.Stop() })
	return r.end(from, pan)
}

func (r *Rig) CheckSessionTime(now time.Time) StepResult {
	from := r.begin()
	pan := r.guard(func() { r.V.CheckSessionTime(now) })
	return r.end(from, pan)
}

func (r *Rig) CheckResetTime(now time.Time) StepResult {
	from := r.begin()
	pan := r.guard(func() { r.V.CheckResetTime(now) })
	return r.end(from, pan)
}

// Entries returns the trace entries of a step.
func (r *Rig) Entries(s StepResult) []Entry { return r.Trace[s.From:s.To] }

// Outs returns the transmitted frames (scanned) of a step, in order.
func (r *Rig) Outs(s StepResult) []Entry {
	var l []Entry
	for _, e := range r.Trace[s.From:s.To] {
		if e.Kind == "out" {
			l = append(l, e)
		}
	}
	return l
}

// TraceString renders the tail of the trace for failure messages.
func (r *Rig) TraceString(max int) string {
	from := 0
	if len(r.Trace) > max {
		from = len(r.Trace) - max
	}
	s := ""
	for _, e := range r.Trace[from:] {
		s += fmt.Sprintf("  #%d c%d %s\n", e.Step, e.Conn, e)
	}
	return s
}
